(* C11 — fasthash64/fasthash32/murmur3 equal the published algorithms on all inputs.
   Only theorem statements; every proof is `exact <lemma>` from theories/HashProofs.v. *)
From Coq Require Import ZArith List.
From Sketchnu Require Import Machine Consts Hashes HashSpec HashProofs HashProofsMurmur.
From Sketchnu Require KernelsHashes KernelTieHashes.
Import ListNotations.
Open Scope Z_scope.

(* the constants read out of hashes.py on this run are the published ones *)
Theorem C11_consts_fasthash :
  fh_m = 0x880355f21e6d1965 /\ fh_c = 0x2127599bf4325c37 /\ fh_s1 = 23 /\ fh_s2 = 47 /\ fh32_shift = 32.
Proof. exact consts_fasthash. Qed.
Print Assumptions C11_consts_fasthash.

Theorem C11_consts_murmur :
  mm_c1 = 0xcc9e2d51 /\ mm_c2 = 0x1b873593 /\ mm_c3 = 0xe6546b64 /\ mm_r1 = 15 /\ mm_r2 = 13 /\
  mm_mul5 = 5 /\ mm_rotw = 32 /\ mm_f1 = 16 /\ mm_f2 = 13 /\ mm_f3 = 16 /\
  mm_fc1 = 0x85ebca6b /\ mm_fc2 = 0xc2b2ae35.
Proof. exact consts_murmur. Qed.
Print Assumptions C11_consts_murmur.

Theorem C11_fasthash64 : forall (k : key) (seed : Z),
  bytes k -> zlen k < 2^64 -> fasthash64 k seed = spec_fasthash64 k seed.
Proof. exact fasthash64_correct. Qed.
Print Assumptions C11_fasthash64.

Theorem C11_fasthash32 : forall (k : key) (seed : Z),
  bytes k -> zlen k < 2^64 -> 0 <= seed < 2^64 -> fasthash32 k seed = spec_fasthash32 k seed.
Proof. exact fasthash32_correct. Qed.
Print Assumptions C11_fasthash32.

Theorem C11_murmur3 : forall (k : key) (seed : Z),
  bytes k -> zlen k < 2^32 -> 0 <= seed < 2^32 -> murmur3 k seed = spec_murmur3 k seed.
Proof. exact murmur3_correct. Qed.
Print Assumptions C11_murmur3.

Theorem C11_range64 : forall k seed, 0 <= seed < 2^64 -> 0 <= fasthash64 k seed < 2^64.
Proof. exact fasthash64_range. Qed.
Print Assumptions C11_range64.

Theorem C11_range32 : forall k seed, 0 <= fasthash32 k seed < 2^32 /\ 0 <= murmur3 k seed < 2^32.
Proof. intros k seed. split; [exact (fasthash32_range k seed) | exact (murmur3_range k seed)]. Qed.
Print Assumptions C11_range32.

(* the loop-free helper kernels as regenerated from the source AST on this run (generated/Kernels.v)
   are the functions the transcription is built from *)
Theorem C11_source_tie :
  (forall v t l, KernelsHashes.gen_xor_shiftl v t l = xor_shiftl v t l) /\
  (forall h, 0 <= h < 2^64 -> KernelsHashes.gen_fhmix64 h = fhmix64 h) /\
  (forall x y, KernelsHashes.gen_xor32 x y = xor32 x y) /\ (forall x y, KernelsHashes.gen_shift32r x y = shift32r x y) /\
  (forall x y, KernelsHashes.gen_shift32l x y = shift32l x y) /\ (forall x r, KernelsHashes.gen_rotl32 x r = rotl32 x r) /\
  (forall h, KernelsHashes.gen_fmix32 h = fmix32 h).
Proof. exact KernelTieHashes.tie_hashes. Qed.
Print Assumptions C11_source_tie.

(* ... and so are all remaining straight-line regions of fasthash64 / fasthash32 / murmur3 (initial state, loop
   bodies, tail switches, final mixes); only the two loop headers are hand-transcribed: the transcription's loops
   iterate exactly the tied bodies *)
Theorem C11_source_tie_regions :
  (forall seed len, KernelsHashes.gen_fh_init seed len = Z.lxor seed (wrap64 (wrap64 len * fh_m))) /\
  (forall h v, 0 <= v < 2^64 -> KernelsHashes.gen_fh_block h v fh_m = fh_round h v) /\
  (forall h key_len t0 t1 t2 t3 t4 t5 t6, 0 <= h < 2^64 -> bytes [t0; t1; t2; t3; t4; t5; t6] ->
     KernelsHashes.gen_fh_finish h key_len fh_m t0 t1 t2 t3 t4 t5 t6 =
     fhmix64 (fh_tail (Z.land key_len 7) [t0; t1; t2; t3; t4; t5; t6] h)) /\
  (forall h, KernelsHashes.gen_fh32_fin h = fh32_fin h) /\
  (forall h b, KernelsHashes.gen_mm_block h b mm_c1 mm_c2 mm_c3 = KernelTieHashes.mm_block_hand h b) /\
  (forall h key_len t0 t1 t2, KernelsHashes.gen_mm_finish h key_len mm_c1 mm_c2 t0 t1 t2 =
     fmix32 (xor32 (mm_tail (Z.land key_len 3) [t0; t1; t2] h) key_len)).
Proof. exact KernelTieHashes.tie_hash_regions. Qed.
Print Assumptions C11_source_tie_regions.

Theorem C11_loops_iterate_tied_bodies :
  (forall n b0 b1 b2 b3 b4 b5 b6 b7 r h,
     fh_blocks (S n) (b0 :: b1 :: b2 :: b3 :: b4 :: b5 :: b6 :: b7 :: r) h =
     fh_blocks n r (fh_round h (le8 b0 b1 b2 b3 b4 b5 b6 b7))) /\
  (forall n b0 b1 b2 b3 r h,
     mm_blocks (S n) (b0 :: b1 :: b2 :: b3 :: r) h = mm_blocks n r (KernelTieHashes.mm_block_hand h (le4 b0 b1 b2 b3))).
Proof. exact (conj KernelTieHashes.fh_blocks_step KernelTieHashes.mm_blocks_step). Qed.
Print Assumptions C11_loops_iterate_tied_bodies.

(* non-vacuity / known answers: the repository's own vectors (from the C++ originals),
   evaluated on the transcription and on the reference *)
Definition k16 : key := [48;49;50;51;52;53;54;55;56;57;97;98;99;100;101;102].
Example C11_kat_fasthash :
  map (fun p => fasthash32 (firstn (Z.to_nat (fst p)) k16) (snd p))
      [(16,0);(16,5);(15,3);(14,4);(13,5);(12,6);(11,7);(10,8);(9,21);(8,22);(7,23);(6,24);(5,25);(4,26);(3,27);(2,28);(1,29)]
  = [128551002;571860520;4264631007;3611610185;2978977373;2071843509;3386775091;2472970926;1787443542;
     2970440548;3793135117;3662885582;2453668041;635486060;58999216;3486011618;3407281718]
  /\ map (fun p => spec_fasthash32 (firstn (Z.to_nat (fst p)) k16) (snd p))
      [(16,0);(16,5);(15,3);(14,4);(13,5);(12,6);(11,7);(10,8);(9,21);(8,22);(7,23);(6,24);(5,25);(4,26);(3,27);(2,28);(1,29)]
  = [128551002;571860520;4264631007;3611610185;2978977373;2071843509;3386775091;2472970926;1787443542;
     2970440548;3793135117;3662885582;2453668041;635486060;58999216;3486011618;3407281718]
  /\ bytes k16.
Proof. split; [vm_compute; reflexivity|split; [vm_compute; reflexivity|apply BitLemmas.bytesb_spec; vm_compute; reflexivity]]. Qed.

Example C11_kat_murmur :
  (murmur3 [116;101;115;116] 0, murmur3 [97;98;99] 1, murmur3 [49;50;51] 2) = (3127628307, 2859854335, 1498078391) /\
  (spec_murmur3 [116;101;115;116] 0, spec_murmur3 [97;98;99] 1, spec_murmur3 [49;50;51] 2) = (3127628307, 2859854335, 1498078391).
Proof. split; vm_compute; reflexivity. Qed.
