(* C03 — heavy hitters never over-count and never report a key that was not added.
   Only theorem statements; every proof is `exact <lemma>` from theories/HHProofs.v.
   The model (theories/HH.v) is proved for every width, depth, max_key_len <= 255, every bucket
   function with columns below width and every default-threshold function. *)
From Coq Require Import ZArith List Lia.
From Sketchnu Require Import Machine Consts HH HHProofs.
Import ListNotations.
Open Scope Z_scope.

(* the cap used by the model is the constant read out of heavyhitters.py on this run *)
Theorem C03_cap : hh_cap = 2^32 - 1.
Proof. exact cap_val. Qed.
Print Assumptions C03_cap.

(* padded array and length together determine the byte string (the comparison of the repaired code) *)
Theorem pad_len_inj : forall (max_key_len : nat) (a b : key),
  (length a <= max_key_len)%nat -> (length b <= max_key_len)%nat ->
  pad max_key_len a = pad max_key_len b -> length a = length b -> a = b.
Proof. exact HHProofs.pad_len_inj. Qed.
Print Assumptions pad_len_inj.

(* cell invariant: the count of the stored key is at most the multiplicity of that key, and a stored
   key with a positive count sits in its own column *)
Theorem hh_cell_sound : forall width depth max_key_len bucket default_thr,
  (forall r k, (bucket r k < width)%nat) -> (max_key_len <= 255)%nat ->
  forall h r c, wf h ->
  let cl := tab (eval width depth max_key_len bucket default_thr h) r c in
  cnt cl <= truth max_key_len h (stored cl) /\ (0 < cnt cl -> (r < depth)%nat /\ bucket r (stored cl) = c).
Proof. exact HHProofs.hh_cell_sound. Qed.
Print Assumptions hh_cell_sound.

Theorem C03_getitem : forall width depth max_key_len bucket default_thr,
  (forall r k, (bucket r k < width)%nat) -> (max_key_len <= 255)%nat ->
  forall h k, wf h ->
  hh_get depth max_key_len bucket (eval width depth max_key_len bucket default_thr h) k
  <= truth max_key_len h (ident max_key_len k).
Proof. exact C03_getitem_lemma. Qed.
Print Assumptions C03_getitem.

Theorem C03_query : forall width depth max_key_len bucket default_thr,
  (forall r k, (bucket r k < width)%nat) -> (max_key_len <= 255)%nat ->
  forall h (k thr : option Z) x n, wf h ->
  In (x, n) (snd (hh_query width depth max_key_len bucket default_thr
                           (eval width depth max_key_len bucket default_thr h) k thr)) ->
  0 < n <= truth max_key_len h x.
Proof. exact C03_query_lemma. Qed.
Print Assumptions C03_query.

(* the entry points that are not history constructors are sequences of adds *)
Theorem C03_update_list : forall width depth max_key_len bucket default_thr h ks,
  eval width depth max_key_len bucket default_thr (HUpdateList h ks)
  = hh_update_list depth max_key_len bucket (eval width depth max_key_len bucket default_thr h) ks.
Proof. exact eval_update_list. Qed.
Print Assumptions C03_update_list.
Theorem C03_update_dict : forall width depth max_key_len bucket default_thr h kvs,
  eval width depth max_key_len bucket default_thr (HUpdateDict h kvs)
  = hh_update_dict depth max_key_len bucket (eval width depth max_key_len bucket default_thr h) kvs.
Proof. exact eval_update_dict. Qed.
Print Assumptions C03_update_dict.
Theorem C03_update_ngram : forall width depth max_key_len bucket default_thr h ks n,
  eval width depth max_key_len bucket default_thr (HUpdateNgram h ks n)
  = hh_update_ngram depth max_key_len bucket (eval width depth max_key_len bucket default_thr h) ks n.
Proof. exact eval_update_ngram. Qed.
Print Assumptions C03_update_ngram.
Theorem C03_ngram_is_adds : forall width depth max_key_len bucket default_thr h k n,
  eval width depth max_key_len bucket default_thr (HWindows h k n)
  = eval width depth max_key_len bucket default_thr (HNgram h k n)
  /\ forall x, truth max_key_len (HWindows h k n) x = truth max_key_len (HNgram h k n) x.
Proof. exact ngram_is_adds. Qed.
Print Assumptions C03_ngram_is_adds.

(* F1: with the matching rule of the unrepaired tree (bytes only) the property is false *)
Theorem C03_refuted_prefix :
  exists h k, hh_get_unfixed 1 4 (fun _ _ => O) (eval_unfixed 1 1 4 (fun _ _ => O) h) k > truth 4 h (ident 4 k).
Proof. exact C03_refuted_lemma. Qed.
Print Assumptions C03_refuted_prefix.

(* non-vacuity: a width-1 sketch where every key collides, NUL-suffixed aliases, a multiplicity
   beyond 2^32, an ngram add, a merge and a save/load *)
Definition C03_h0 : hist :=
  HSaveLoad (HMerge (HAdd (HAdd (HAdd HEmpty [97;0] 5) [97] 3) [] 4294967297)
                    (HNgram (HAdd HEmpty [97] 7) [97;98;99] 2)).
Example C03_nonvacuous :
  wf C03_h0 /\
  let b := fun (_ : nat) (_ : key) => O in
  let s := eval 1 2 2 b (fun n => n / 2) C03_h0 in
  (hh_get 2 2 b s [], truth 2 C03_h0 [], truth 2 C03_h0 [97], truth 2 C03_h0 [97;0], truth 2 C03_h0 [97;98])
  = (4294967288, 4294967297, 10, 5, 1) /\
  snd (hh_query 1 2 2 b (fun n => n / 2) s None (Some 0)) = [([], 4294967288)].
Proof. split; [cbn; repeat split; lia|]. vm_compute. split; reflexivity. Qed.

Example C03_alias_keys_differ :
  pad 4 [97;0] = pad 4 [97] /\ [97;0] <> [97] /\
  let b := fun (_ : nat) (_ : key) => O in
  let s := hh_add 1 4 b (hh_add 1 4 b (hh_empty 4) [97;0] 5) [97] 3 in
  (hh_get 1 4 b s [97], hh_get 1 4 b s [97;0]) = (0, 2).
Proof. split; [reflexivity|split; [discriminate|vm_compute; reflexivity]]. Qed.

(* the bodies of the row loops of _add and _max_count and of the cell loop of _merge, as regenerated from the source
   AST on this run (generated/KernelsHH.v, over an abstract key-array type with an abstract array comparison), are the
   cell operations of the model once the key arrays are the model's padded arrays and the comparison is keqb
   (cell_triple c = (ckey c, cnt c, klen c)) *)
From Sketchnu Require KernelsHH KernelTieHH.
Theorem C03_add_source_tie :
  forall (cl : cell) (arr : key) (key_len value : Z), 0 <= cnt cl <= hh_cap -> 0 <= value <= hh_cap ->
    KernelsHH.gen_hh_add_cell key keqb (ckey cl) (cnt cl) (klen cl) arr key_len value hh_cap
    = KernelTieHH.cell_triple (cell_add cl arr key_len value).
Proof. exact KernelTieHH.tie_hh_add. Qed.
Print Assumptions C03_add_source_tie.

Theorem C03_merge_source_tie :
  forall a b : cell, 0 <= cnt a <= hh_cap -> 0 <= klen b < 256 ->
    KernelsHH.gen_hh_merge_cell key keqb (ckey a) (cnt a) (klen a) (ckey b) (cnt b) (klen b) hh_cap
    = KernelTieHH.cell_triple (cell_merge a b).
Proof. exact KernelTieHH.tie_hh_merge. Qed.
Print Assumptions C03_merge_source_tie.

Theorem C03_max_count_source_tie :
  KernelsHH.gen_hh_max_count_init = 0 /\
  (forall (mc : Z) (cl : cell) (arr : key) (key_len : Z), 0 <= key_len < 256 ->
     KernelsHH.gen_hh_max_count_row key keqb mc (ckey cl) (cnt cl) (klen cl) arr key_len
     = KernelTieHH.max_count_row_hand mc cl arr key_len).
Proof. exact KernelTieHH.tie_hh_max_count. Qed.
Print Assumptions C03_max_count_source_tie.

(* only the loop headers (and the key preparation of _add) are hand-transcribed: the model's loops iterate exactly
   the tied bodies, _max_count starting from the regenerated initial value *)
Theorem C03_loops_iterate_tied_bodies :
  (forall depth max_key_len bucket s k value,
     tab (hh_add_raw depth max_key_len bucket s k value)
     = let '(k', arr, key_len) := prep_key max_key_len k in
       fold_left (fun t row => let col := bucket row k' in upd t row col (cell_add (t row col) arr key_len value))
                 (seq 0 depth) (tab s)) /\
  (forall width depth s o r c,
     tab (hh_merge width depth s o) r c
     = if andb (r <? depth)%nat (c <? width)%nat then cell_merge (tab s r c) (tab o r c) else tab s r c) /\
  (forall depth max_key_len bucket (t : table) k key_len,
     max_count depth max_key_len bucket t k key_len
     = fold_left (fun mc row => KernelTieHH.max_count_row_hand mc (t row (bucket row k))
                                  (if key_len =? zL max_key_len then k else pad max_key_len k) key_len)
                 (seq 0 depth) KernelsHH.gen_hh_max_count_init).
Proof. exact KernelTieHH.hh_loops_iterate_tied_bodies. Qed.
Print Assumptions C03_loops_iterate_tied_bodies.

(* non-vacuity of the range hypotheses: a saturating add, a replacing add, a saturating merge *)
Example C03_source_tie_nonvacuous :
  let cl := mkCell [97;0] 1 4294967290 in
  (0 <= cnt cl <= hh_cap /\ 0 <= 7 <= hh_cap /\ 0 <= klen cl < 256) /\
  KernelsHH.gen_hh_add_cell key keqb (ckey cl) (cnt cl) (klen cl) [97;0] 1 7 hh_cap = ([97;0], 4294967295, 1) /\
  KernelsHH.gen_hh_add_cell key keqb [97;0] 3 1 [97;0] 2 7 hh_cap = ([97;0], 4, 2) /\
  KernelsHH.gen_hh_merge_cell key keqb (ckey cl) (cnt cl) (klen cl) (ckey cl) (cnt cl) (klen cl) hh_cap = ([97;0], 4294967295, 1) /\
  KernelsHH.gen_hh_max_count_row key keqb 3 [97;0] 5 1 [97;0] 1 = 5 /\
  KernelsHH.gen_hh_max_count_row key keqb 3 [97;0] 5 2 [97;0] 1 = 3.
Proof. vm_compute. repeat split; discriminate. Qed.

(* ---------------- source tie (class-level add wrapper) ----------------
   HeavyHitters.add as regenerated from the source AST on this run (generated/KernelsApi.v): the multiplicity it hands
   to _add is the clamp at uint_maxval of the model's hh_add (the kernel's uint32 parameter then truncates it) *)
From Sketchnu Require KernelsApi KernelTieApiHH.
Theorem C03_api_source_tie :
  (forall v, KernelsApi.gen_api_hh_add_value v hh_cap = Some (Z.min v hh_cap)) /\
  KernelsApi.gen_api_hh_add_writes_back = false /\
  (forall depth max_key_len bucket (s : sketch) (k : key) (v : Z),
     option_map (fun v' => hh_add_raw depth max_key_len bucket s k (wrap32 v')) (KernelsApi.gen_api_hh_add_value v hh_cap)
       = Some (hh_add depth max_key_len bucket s k v)).
Proof. exact KernelTieApiHH.tie_api_hh. Qed.
Print Assumptions C03_api_source_tie.

Example C03_api_source_tie_nonvacuous :
  map (fun v => KernelsApi.gen_api_hh_add_value v hh_cap) [1; 2^32 - 1; 2^32 + 2] = [Some 1; Some (2^32 - 1); Some (2^32 - 1)].
Proof. vm_compute. reflexivity. Qed.

(* ---------------- the correspondence runner and the theorems speak of the same states ----------------
   The runner (HH.step) applies the model's operations to registers and tabulates the table after each mutating
   operation (hh_freeze).  For every program, every register it ever holds is, inside the array bounds and in every
   bookkeeping field, the model state `eval h` of some history h; and the table code it compares with the
   implementation's arrays, hh[k] and the query answer are those of `eval h`.  So a run that agrees with the
   implementation is an agreement of `eval` — the object C03/C04/C13 are proved about — not of a look-alike. *)
From Coq Require Import Uint63.
From Sketchnu Require HHRunnerProofs.
Theorem C03_runner_registers_are_model_states : forall width depth max_key_len bucket,
  (forall r k, (bucket r k < width)%nat) -> forall default_thr (prog : list wop),
  Forall (fun s => exists h, HHRunnerProofs.teq width depth s (eval width depth max_key_len bucket default_thr h))
         (fold_left (fun regs o => fst (fst (step width depth max_key_len bucket default_thr regs o))) prog
                    (init_regs max_key_len)).
Proof. exact HHRunnerProofs.runner_registers_are_model_states. Qed.
Print Assumptions C03_runner_registers_are_model_states.

Theorem C03_runner_observes_model_state : forall width depth max_key_len bucket,
  (forall r k, (bucket r k < width)%nat) -> forall default_thr s h,
  HHRunnerProofs.teq width depth s (eval width depth max_key_len bucket default_thr h) ->
  tab_code width depth max_key_len (tab s) = tab_code width depth max_key_len (tab (eval width depth max_key_len bucket default_thr h)) /\
  (forall k, hh_get depth max_key_len bucket s k = hh_get depth max_key_len bucket (eval width depth max_key_len bucket default_thr h) k) /\
  (forall k thr, snd (hh_query width depth max_key_len bucket default_thr s k thr)
                 = snd (hh_query width depth max_key_len bucket default_thr (eval width depth max_key_len bucket default_thr h) k thr)).
Proof. exact HHRunnerProofs.rep_observation. Qed.
Print Assumptions C03_runner_observes_model_state.

(* the case check the harness evaluates (check_case_strict) decides, for the bucket map observed on this run, the
   hypothesis `bucket r k < width` under which all of the above is proved *)
Theorem C03_runner_bucket_below_width : forall (w d L : int) (phi : PrimFloat.float) bm prog,
  check_case_strict (mkcase w d L phi bm prog) = true ->
  (forall r k, (bucket_of bm r k < ni w)%nat) /\ check_case (mkcase w d L phi bm prog) = true.
Proof. exact HHRunnerProofs.check_case_strict_bucket. Qed.
Print Assumptions C03_runner_bucket_below_width.

(* non-vacuity: a three-operation program on a 2x2 sketch; register 0 after it is eval of the evident history *)
Example C03_runner_nonvacuous :
  let b := fun (r : nat) (k : key) => ((Z.to_nat (hd 0%Z k) + r) mod 2)%nat in
  (forall r k, (b r k < 2)%nat) /\
  let regs := fold_left (fun regs o => fst (fst (step 2 2 2 b (fun n => n / 2) regs o)))
                        [OAdd 0%uint63 [97%uint63] 5%uint63; OAdd 1%uint63 [98%uint63] 2%uint63; OMerge 0%uint63 1%uint63]
                        (init_regs 2) in
  hh_get 2 2 b (nth 0 regs (hh_empty 2)) [97] = 5 /\
  hh_get 2 2 b (eval 2 2 2 b (fun n => n / 2) (HMerge (HAdd HEmpty [97] 5) (HAdd HEmpty [98] 2))) [97] = 5.
Proof. split; [intros r k; apply Nat.mod_upper_bound; discriminate|]. vm_compute. split; reflexivity. Qed.
