(* C03 — heavy hitters never over-count and never report an absent key.
   Only theorem statements; every proof is `exact <lemma>` from theories/HHProofs.v. *)
From Coq Require Import ZArith List.
From Sketchnu Require Import Machine Consts HH.
Import ListNotations.
Open Scope Z_scope.

Example C03_model_runs :
  hh_get 1 4 (fun _ _ => O) (hh_add 1 4 (fun _ _ => O) (hh_add 1 4 (fun _ _ => O) (hh_empty 4) [97;0] 5) [97] 3) [97] = 0.
Proof. vm_compute. reflexivity. Qed.
