(* ShmProofs.v — C16: __init__ and attach_existing_shm compute the same layout; the views tile the
   block; read/write algebra of views; a sketch over views evolves like one over private arrays. *)
From Coq Require Import ZArith List Bool Lia.
From Sketchnu Require Import Machine Shm.
Import ListNotations.
Open Scope nat_scope.

(* ---------- layouts agree ---------- *)
Theorem layout_agree : forall p L, layout_init p L = layout_attach p L.
Proof.
  intros [isz w d|p|w d mkl] L; unfold layout_init, layout_attach.
  - replace (d * w * isz) with (isz * w * d) by lia. reflexivity.
  - reflexivity.
  - replace (d * w * mkl * 1) with (mkl * w * d) by lia.
    replace (d * w * 4) with (4 * w * d) by lia.
    replace (d * w * 1) with (1 * w * d) by lia. reflexivity.
Qed.

(* ---------- frombuffer on exact slices ---------- *)
Lemma frombuffer_exact L a n isz :
  isz <> 0 -> a + n * isz <= L -> frombuffer L a (a + n * isz) isz = Some (mkview a n isz).
Proof.
  intros Hz Hle. unfold frombuffer, py_slice.
  rewrite (Nat.min_l a L) by lia. rewrite (Nat.min_l (a + n * isz) L) by lia.
  replace (a + n * isz - a) with (n * isz) by lia.
  rewrite Nat.mod_mul by exact Hz. rewrite Nat.div_mul by exact Hz. reflexivity.
Qed.

Lemma frombuffer_tail L a n isz :
  isz <> 0 -> a + n * isz = L -> frombuffer L a L isz = Some (mkview a n isz).
Proof.
  intros Hz HL. rewrite <- HL at 2. apply frombuffer_exact; [exact Hz|lia].
Qed.

Lemma reshape_ok n a isz : reshape n (Some (mkview a n isz)) = Some (mkview a n isz).
Proof. unfold reshape. cbn [v_cnt]. rewrite Nat.eqb_refl. reflexivity. Qed.

(* the layouts in closed form, for a block of exactly the requested size *)
Lemma layout_cms isz w d : isz <> 0 ->
  layout_init (PCms isz w d) (request (PCms isz w d)) =
  Some [mkview 0 (d * w) isz; mkview (isz * w * d) 2 8].
Proof.
  intros Hz. unfold layout_init, request.
  set (c := isz * w * d).
  assert (frombuffer (c + 8 * 2) 0 c isz = Some (mkview 0 (d * w) isz)) as ->.
  { replace c with (0 + (d * w) * isz) at 2 by (unfold c; lia).
    apply frombuffer_exact; [exact Hz|unfold c; lia]. }
  rewrite reshape_ok.
  rewrite (frombuffer_tail (c + 8 * 2) c 2 8) by lia. reflexivity.
Qed.

Lemma layout_hll p : layout_init (PHll p) (request (PHll p)) = Some [mkview 0 (2 ^ p) 1].
Proof.
  unfold layout_init, request.
  rewrite (frombuffer_tail (2 ^ p) 0 (2 ^ p) 1) by lia. reflexivity.
Qed.

Lemma layout_hh w d mkl :
  layout_init (PHh w d mkl) (request (PHh w d mkl)) =
  Some [mkview 0 (d * w * mkl) 1; mkview (mkl * w * d) (d * w) 4;
        mkview (mkl * w * d + 4 * w * d) (d * w) 1; mkview (mkl * w * d + 4 * w * d + 1 * w * d) 2 8].
Proof.
  unfold layout_init, request.
  set (a := mkl * w * d). set (b := 4 * w * d). set (c := 1 * w * d).
  assert (frombuffer (a + b + c + 8 * 2) 0 a 1 = Some (mkview 0 (d * w * mkl) 1)) as ->.
  { replace a with (0 + (d * w * mkl) * 1) at 2 by (unfold a; lia).
    apply frombuffer_exact; [lia|unfold a; lia]. }
  rewrite reshape_ok.
  assert (frombuffer (a + b + c + 8 * 2) a (a + b) 4 = Some (mkview a (d * w) 4)) as ->.
  { replace (a + b) with (a + (d * w) * 4) at 2 by (unfold b; lia).
    apply frombuffer_exact; [lia|unfold b; lia]. }
  rewrite reshape_ok.
  assert (frombuffer (a + b + c + 8 * 2) (a + b) (a + b + c) 1 = Some (mkview (a + b) (d * w) 1)) as ->.
  { replace (a + b + c) with ((a + b) + (d * w) * 1) at 2 by (unfold c; lia).
    apply frombuffer_exact; [lia|unfold c; lia]. }
  rewrite reshape_ok.
  rewrite (frombuffer_tail (a + b + c + 8 * 2) (a + b + c) 2 8) by lia. reflexivity.
Qed.

(* ---------- contiguous => in order, pairwise disjoint, inside the block ---------- *)
Lemma contiguous_bounds : forall vs s t, contiguous s vs t ->
  s <= t /\ Forall (fun u => s <= v_off u /\ v_off u + vbytes u <= t) vs.
Proof.
  induction vs as [|v r IH]; intros s t H; cbn [contiguous] in H.
  - subst. split; [lia|constructor].
  - destruct H as [Ho H]. apply IH in H. destruct H as [Hle Hall]. split; [lia|].
    constructor; [lia|]. eapply Forall_impl; [|exact Hall]. cbn beta. intros u [? ?]. lia.
Qed.

Lemma contiguous_pairwise : forall vs s t, contiguous s vs t -> pairwise_disjoint vs.
Proof.
  induction vs as [|v r IH]; intros s t H; cbn [contiguous pairwise_disjoint] in *; [exact I|].
  destruct H as [Ho H]. split; [|eapply IH; exact H].
  apply contiguous_bounds in H. destruct H as [_ H].
  eapply Forall_impl; [|exact H]. cbn beta. intros u [? ?]. left. lia.
Qed.

Lemma contiguous_in_bounds vs m : contiguous 0 vs (length m) -> Forall (in_bounds m) vs.
Proof.
  intros H. apply contiguous_bounds in H. destruct H as [_ H].
  eapply Forall_impl; [|exact H]. cbn beta. intros u [? ?]. exact H1.
Qed.

Theorem disjoint_cover : forall p, wf p ->
  exists vs, layout_init p (request p) = Some vs /\
             contiguous 0 vs (request p) /\ pairwise_disjoint vs /\ counters_last p vs.
Proof.
  intros [isz w d|p|w d mkl] Hwf.
  - assert (isz <> 0) as Hz by (cbn [wf] in Hwf; lia).
    eexists. split; [apply layout_cms; exact Hz|].
    assert (contiguous 0 [mkview 0 (d * w) isz; mkview (isz * w * d) 2 8] (request (PCms isz w d))) as Hc.
    { cbn [contiguous v_off]. unfold vbytes, request. cbn [v_cnt v_isz]. repeat split; lia. }
    split; [exact Hc|]. split; [eapply contiguous_pairwise; exact Hc|].
    cbn [counters_last]. eexists. cbn [last]. repeat split.
  - eexists. split; [apply layout_hll|].
    assert (contiguous 0 [mkview 0 (2 ^ p) 1] (request (PHll p))) as Hc.
    { cbn [contiguous v_off]. unfold vbytes, request. cbn [v_cnt v_isz]. repeat split; lia. }
    split; [exact Hc|]. split; [eapply contiguous_pairwise; exact Hc|exact I].
  - eexists. split; [apply layout_hh|].
    match goal with |- contiguous 0 ?l ?t /\ _ => assert (contiguous 0 l t) as Hc end.
    { cbn [contiguous v_off]. unfold vbytes, request. cbn [v_cnt v_isz]. repeat split; lia. }
    split; [exact Hc|]. split; [eapply contiguous_pairwise; exact Hc|].
    cbn [counters_last]. eexists. cbn [last]. repeat split.
Qed.

(* ---------- byte-level read/write ---------- *)
Lemma skipn_skipn_add {A} (x y : nat) (l : list A) : skipn x (skipn y l) = skipn (y + x) l.
Proof.
  revert l. induction y as [|y IH]; intros l; [reflexivity|].
  destruct l as [|a l]; [rewrite !skipn_nil; reflexivity|]. cbn [skipn Nat.add]. apply IH.
Qed.

Lemma wr_bytes_length off bs m : off + length bs <= length m -> length (wr_bytes off bs m) = length m.
Proof.
  intros H. unfold wr_bytes. rewrite !app_length, firstn_length, skipn_length. lia.
Qed.

Lemma rd_wr_same off bs m : off + length bs <= length m -> rd_bytes off (length bs) (wr_bytes off bs m) = bs.
Proof.
  intros H. unfold rd_bytes, wr_bytes.
  rewrite skipn_app. rewrite firstn_length, (Nat.min_l off) by lia.
  rewrite skipn_all2 by (rewrite firstn_length; lia).
  rewrite Nat.sub_diag. cbn [skipn app].
  rewrite firstn_app, firstn_all, Nat.sub_diag. cbn [firstn]. apply app_nil_r.
Qed.

Lemma rd_wr_disjoint uo ub vo bs m :
  vo + length bs <= length m -> (uo + ub <= vo \/ vo + length bs <= uo) ->
  rd_bytes uo ub (wr_bytes vo bs m) = rd_bytes uo ub m.
Proof.
  intros Hb [H|H]; unfold rd_bytes, wr_bytes.
  - rewrite skipn_app. rewrite firstn_length, (Nat.min_l vo) by lia.
    replace (uo - vo) with 0 by lia. cbn [skipn].
    rewrite firstn_app. rewrite skipn_length, firstn_length, (Nat.min_l vo) by lia.
    replace (ub - (vo - uo)) with 0 by lia. cbn [firstn]. rewrite app_nil_r.
    rewrite skipn_firstn_comm, firstn_firstn. replace (Nat.min ub (vo - uo)) with ub by lia. reflexivity.
  - rewrite skipn_app. rewrite firstn_length, (Nat.min_l vo) by lia.
    rewrite skipn_all2 by (rewrite firstn_length; lia). cbn [app].
    rewrite skipn_app. rewrite skipn_all2 by lia. cbn [app].
    rewrite skipn_skipn_add. replace (vo + length bs + (uo - vo - length bs)) with uo by lia. reflexivity.
Qed.

(* ---------- element-level encoding ---------- *)
Lemma le_encode_length isz : forall x, length (le_encode isz x) = isz.
Proof. induction isz as [|k IH]; intros x; cbn [le_encode length]; [reflexivity|]. rewrite IH. reflexivity. Qed.

Lemma le_decode_encode isz : forall x, in_range isz x -> le_decode (le_encode isz x) = x.
Proof.
  unfold in_range. induction isz as [|k IH]; intros x Hx.
  - cbn [le_encode le_decode]. cbn in Hx. lia.
  - cbn [le_encode le_decode]. rewrite Nat2Z.inj_succ, Z.pow_succ_r in Hx by lia.
    rewrite IH.
    + pose proof (Z.div_mod x 256). lia.
    + split; [apply Z.div_pos; lia|]. apply Z.div_lt_upper_bound; lia.
Qed.

Lemma flat_map_length_const (isz : nat) (xs : list Z) :
  length (flat_map (le_encode isz) xs) = length xs * isz.
Proof.
  induction xs as [|x xs IH]; [reflexivity|]. cbn [flat_map length]. rewrite app_length, le_encode_length, IH. lia.
Qed.

Lemma firstn_app_exact {A} (a b : list A) n : length a = n -> firstn n (a ++ b) = a.
Proof. intros <-. rewrite firstn_app, firstn_all, Nat.sub_diag. cbn [firstn]. apply app_nil_r. Qed.
Lemma skipn_app_exact {A} (a b : list A) n : length a = n -> skipn n (a ++ b) = b.
Proof. intros <-. rewrite skipn_app, skipn_all, Nat.sub_diag. reflexivity. Qed.

Lemma chunks_encode isz xs :
  chunks isz (length xs) (flat_map (le_encode isz) xs) = map (le_encode isz) xs.
Proof.
  induction xs as [|x xs IH]; [reflexivity|]. cbn [length chunks flat_map map].
  rewrite firstn_app_exact by apply le_encode_length.
  rewrite skipn_app_exact by apply le_encode_length.
  rewrite IH. reflexivity.
Qed.

Lemma write_length v xs m : in_bounds m v -> length xs = v_cnt v -> length (write v xs m) = length m.
Proof.
  unfold in_bounds, vbytes, write. intros Hb Hl. apply wr_bytes_length. rewrite flat_map_length_const, Hl. exact Hb.
Qed.

(* ---------- view algebra ---------- *)
Theorem read_write_same : forall v xs m, in_bounds m v -> fits v xs -> read v (write v xs m) = xs.
Proof.
  intros v xs m Hb [Hl Hr]. unfold read, write.
  assert (vbytes v = length (flat_map (le_encode (v_isz v)) xs)) as Hvb
    by (rewrite flat_map_length_const, Hl; reflexivity).
  rewrite Hvb. rewrite rd_wr_same by (rewrite <- Hvb; exact Hb).
  rewrite <- Hl. rewrite chunks_encode. rewrite map_map.
  clear Hl Hvb. induction Hr as [|x xs Hx _ IH]; [reflexivity|].
  cbn [map]. rewrite le_decode_encode by exact Hx. rewrite IH. reflexivity.
Qed.

Theorem read_write_other : forall u v xs m,
  in_bounds m v -> length xs = v_cnt v -> disjoint u v -> read u (write v xs m) = read u m.
Proof.
  intros u v xs m Hb Hl Hd. unfold read, write. f_equal. f_equal.
  apply rd_wr_disjoint.
  - rewrite flat_map_length_const, Hl. exact Hb.
  - rewrite flat_map_length_const, Hl. exact Hd.
Qed.

(* two views with the same layout read the same values from the block: all views observe one state *)
Theorem same_layout_same_values : forall p L vs vs' m,
  layout_init p L = Some vs -> layout_attach p L = Some vs' -> load vs m = load vs' m.
Proof.
  intros p L vs vs' m H H'. rewrite layout_agree in H. rewrite H in H'. injection H' as ->. reflexivity.
Qed.

Theorem view_algebra :
  (forall v xs m, in_bounds m v -> fits v xs -> read v (write v xs m) = xs) /\
  (forall u v xs m, in_bounds m v -> length xs = v_cnt v -> disjoint u v -> read u (write v xs m) = read u m) /\
  (forall p L vs vs' m, layout_init p L = Some vs -> layout_attach p L = Some vs' -> load vs m = load vs' m).
Proof. split; [exact read_write_same|split; [exact read_write_other|exact same_layout_same_values]]. Qed.

(* ---------- several views at once ---------- *)
Lemma store_length : forall vs xss m,
  Forall (in_bounds m) vs -> Forall2 fits vs xss -> length (store vs xss m) = length m.
Proof.
  induction vs as [|v vs IH]; intros xss m Hb Hf; [reflexivity|].
  inversion Hf as [|? xs ? xss' [Hl Hr] Hf']; subst. inversion Hb as [|? ? Hbv Hb']; subst.
  cbn [store]. rewrite IH.
  - apply write_length; assumption.
  - eapply Forall_impl; [|exact Hb']. intros u Hu. unfold in_bounds in *. rewrite write_length by assumption. exact Hu.
  - exact Hf'.
Qed.

Lemma read_store_other : forall vs xss u m,
  Forall (disjoint u) vs -> Forall (in_bounds m) vs -> Forall2 fits vs xss ->
  read u (store vs xss m) = read u m.
Proof.
  induction vs as [|v vs IH]; intros xss u m Hd Hb Hf; [reflexivity|].
  inversion Hf as [|? xs ? xss' [Hl Hr] Hf']; subst. inversion Hb as [|? ? Hbv Hb']; subst.
  inversion Hd as [|? ? Hdv Hd']; subst.
  cbn [store]. rewrite IH.
  - apply read_write_other; assumption.
  - exact Hd'.
  - eapply Forall_impl; [|exact Hb']. intros w Hw. unfold in_bounds in *. rewrite write_length by assumption. exact Hw.
  - exact Hf'.
Qed.

Lemma load_store : forall vs xss m,
  pairwise_disjoint vs -> Forall (in_bounds m) vs -> Forall2 fits vs xss ->
  load vs (store vs xss m) = xss.
Proof.
  induction vs as [|v vs IH]; intros xss m Hp Hb Hf.
  - inversion Hf. reflexivity.
  - inversion Hf as [|? xs ? xss' Hfv Hf']; subst. inversion Hb as [|? ? Hbv Hb']; subst.
    destruct Hp as [Hdv Hp']. destruct Hfv as [Hl Hr].
    assert (Forall (in_bounds (write v xs m)) vs) as Hb''.
    { eapply Forall_impl; [|exact Hb']. intros w Hw. unfold in_bounds in *. rewrite write_length by assumption. exact Hw. }
    cbn [store load map]. f_equal.
    + rewrite read_store_other by assumption. apply read_write_same; [exact Hbv|split; assumption].
    + apply IH; assumption.
Qed.

(* ---------- a sketch over views evolves like one over private arrays ---------- *)
Theorem same_semantics : forall vs ops m,
  pairwise_disjoint vs -> Forall (in_bounds m) vs ->
  Forall (shape_preserving vs) ops -> Forall2 fits vs (load vs m) ->
  load vs (run_shared vs ops m) = run_private ops (load vs m) /\
  length (run_shared vs ops m) = length m.
Proof.
  intros vs ops. induction ops as [|k ops IH]; intros m Hp Hb Hk Hf; [split; reflexivity|].
  inversion Hk as [|? ? Hk1 Hk']; subst.
  unfold run_shared, run_private in *. cbn [fold_left].
  pose proof (Hk1 _ Hf) as Hf1.
  assert (length (shared_step vs m k) = length m) as Hlen by (apply store_length; assumption).
  assert (load vs (shared_step vs m k) = k (load vs m)) as Hload by (apply load_store; assumption).
  destruct (IH (shared_step vs m k)) as [E1 E2].
  - exact Hp.
  - eapply Forall_impl; [|exact Hb]. intros w Hw. unfold in_bounds in *. rewrite Hlen. exact Hw.
  - exact Hk'.
  - rewrite Hload. exact Hf1.
  - split; [rewrite E1, Hload; reflexivity|rewrite E2; exact Hlen].
Qed.

(* instantiated on the layouts of the three modules: owner (layout_init) and attached view
   (layout_attach) over one block of the requested size both track the private run *)
Corollary same_semantics_layout : forall p m vs vs' ops,
  wf p -> length m = request p ->
  layout_init p (request p) = Some vs -> layout_attach p (request p) = Some vs' ->
  Forall (shape_preserving vs) ops -> Forall2 fits vs (load vs m) ->
  load vs (run_shared vs ops m) = run_private ops (load vs m) /\
  load vs' (run_shared vs ops m) = run_private ops (load vs m).
Proof.
  intros p m vs vs' ops Hwf Hlen Hi Ha Hk Hf.
  destruct (disjoint_cover p Hwf) as (vs0 & H0 & Hc & Hp & _).
  rewrite Hi in H0. injection H0 as <-.
  assert (Forall (in_bounds m) vs) as Hb by (apply contiguous_in_bounds; rewrite Hlen; exact Hc).
  destruct (same_semantics vs ops m Hp Hb Hk Hf) as [E _].
  split; [exact E|].
  rewrite <- (same_layout_same_values p (request p) vs vs' _ Hi Ha). exact E.
Qed.

(* ---------- what a rounded-up block would do (not the case on this Linux; see the check) ---------- *)
Example rounded_block_effect :
  (* exact size: two counters *)
  show_layout (layout_init (PCms 4 4 3) 64) = [[0; 12; 4]; [48; 2; 8]]%Z /\
  (* a page-sized buffer: the trailing slice becomes 506 "counters" ... *)
  show_layout (layout_init (PCms 4 4 3) 4096) = [[0; 12; 4]; [48; 506; 8]]%Z /\
  (* ... and when the table size is not a multiple of 8 np.frombuffer raises
     (4096 - 60 and 4096 - 15 are not multiples of 8) *)
  show_layout (layout_init (PCms 4 5 3) 4096) = [[-1]]%Z /\
  show_layout (layout_init (PCms 1 5 3) 4096) = [[-1]]%Z /\
  show_layout (layout_init (PCms 1 5 3) 31) = [[0; 15; 1]; [15; 2; 8]]%Z /\
  (* hll: the register view would have 4096 entries instead of m = 128 *)
  show_layout (layout_init (PHll 7) 4096) = [[0; 4096; 1]]%Z.
Proof. vm_compute. repeat split. Qed.

(* ---------- non-vacuity ---------- *)
Definition ex_params : params := PHh 3 2 5.          (* key area 30 bytes: not a multiple of 4 *)
Definition ex_block : list Z := map Z.of_nat (seq 0 (request ex_params)).
(* a kernel on the four arrays: bump one byte of lhh, one count, one key length and n_added *)
Definition ex_kernel : kernel := fun xss =>
  match xss with
  | [lhh; cnt; kl; na] => [ (97 :: tl lhh)%Z; map (fun c => (c + 1) mod 2^32)%Z cnt; (1 :: tl kl)%Z;
                            map (fun c => (c + 1) mod 2^64)%Z na ]
  | other => other
  end.

Example layout_nonvacuous :
  wf ex_params /\ wf (PCms 1 5 3) /\ wf (PHll 7) /\
  show_layout (layout_init ex_params (request ex_params)) = [[0; 30; 1]; [30; 6; 4]; [54; 6; 1]; [60; 2; 8]]%Z /\
  show_layout (layout_attach ex_params (request ex_params)) = [[0; 30; 1]; [30; 6; 4]; [54; 6; 1]; [60; 2; 8]]%Z /\
  show_layout (layout_init (PCms 1 5 3) (request (PCms 1 5 3))) = [[0; 15; 1]; [15; 2; 8]]%Z /\
  show_layout (layout_init (PHll 7) (request (PHll 7))) = [[0; 128; 1]]%Z.
Proof. cbn [wf ex_params]. repeat split; try lia; try (right; right; reflexivity). Qed.

Example semantics_nonvacuous :
  match layout_init ex_params (request ex_params) with
  | Some vs =>
      load vs (run_shared vs [ex_kernel; ex_kernel] ex_block) = run_private [ex_kernel; ex_kernel] (load vs ex_block)
      /\ nth 3 (load vs (run_shared vs [ex_kernel; ex_kernel] ex_block)) [] <> nth 3 (load vs ex_block) []
  | None => False
  end.
Proof. vm_compute. split; [reflexivity|discriminate]. Qed.

(* the hypotheses of same_semantics are satisfiable with a kernel that changes every array *)
Lemma ex_kernel_shape : forall vs,
  layout_init ex_params (request ex_params) = Some vs -> shape_preserving vs ex_kernel.
Proof.
  intros vs H. vm_compute in H. injection H as <-.
  intros xss Hf.
  inversion Hf as [|v1 a ? r1 [La Ra] Hf1]; subst. inversion Hf1 as [|v2 b ? r2 [Lb Rb] Hf2]; subst.
  inversion Hf2 as [|v3 c ? r3 [Lc Rc] Hf3]; subst. inversion Hf3 as [|v4 d ? r4 [Ld Rd] Hf4]; subst.
  inversion Hf4; subst. cbn [ex_kernel]. cbn [v_cnt v_isz] in *.
  constructor; [|constructor; [|constructor; [|constructor; [|constructor]]]]; split; cbn [v_cnt v_isz].
  - destruct a; [discriminate La|exact La].
  - destruct a; [discriminate La|]. cbn [tl]. inversion Ra; subst. constructor; [|assumption].
    unfold in_range. cbn. lia.
  - rewrite map_length. exact Lb.
  - apply Forall_map. apply Forall_forall. intros x _. unfold in_range.
    change (256 ^ Z.of_nat 4)%Z with (2 ^ 32)%Z. apply Z.mod_pos_bound. lia.
  - destruct c; [discriminate Lc|exact Lc].
  - destruct c; [discriminate Lc|]. cbn [tl]. inversion Rc; subst. constructor; [|assumption].
    unfold in_range. cbn. lia.
  - rewrite map_length. exact Ld.
  - apply Forall_map. apply Forall_forall. intros x _. unfold in_range.
    change (256 ^ Z.of_nat 8)%Z with (2 ^ 64)%Z. apply Z.mod_pos_bound. lia.
Qed.

Fixpoint fitsb (vs : list view) (xss : arrays) : bool :=
  match vs, xss with
  | [], [] => true
  | v :: vs', xs :: xss' =>
      (length xs =? v_cnt v) && forallb (fun x => (0 <=? x)%Z && (x <? 256 ^ Z.of_nat (v_isz v))%Z) xs && fitsb vs' xss'
  | _, _ => false
  end.
Lemma fitsb_spec : forall vs xss, fitsb vs xss = true -> Forall2 fits vs xss.
Proof.
  induction vs as [|v vs IH]; intros [|xs xss] H; cbn [fitsb] in H; try discriminate; [constructor|].
  apply andb_true_iff in H. destruct H as [H H3]. apply andb_true_iff in H. destruct H as [H1 H2].
  constructor; [|apply IH; exact H3]. split; [apply Nat.eqb_eq; exact H1|].
  apply Forall_forall. intros x Hx. rewrite forallb_forall in H2. specialize (H2 x Hx).
  apply andb_true_iff in H2. unfold in_range. lia.
Qed.

Example semantics_hyps_nonvacuous : exists vs,
  layout_init ex_params (request ex_params) = Some vs /\ length ex_block = request ex_params /\
  pairwise_disjoint vs /\ Forall (in_bounds ex_block) vs /\
  Forall (shape_preserving vs) [ex_kernel; ex_kernel] /\ Forall2 fits vs (load vs ex_block).
Proof.
  destruct (disjoint_cover ex_params) as (vs & Hl & Hc & Hp & _).
  { cbn [wf ex_params]. lia. }
  exists vs. split; [exact Hl|]. split; [reflexivity|]. split; [exact Hp|].
  split; [apply contiguous_in_bounds; exact Hc|].
  split; [repeat constructor; apply ex_kernel_shape; exact Hl|].
  vm_compute in Hl. injection Hl as <-. apply fitsb_spec. vm_compute. reflexivity.
Qed.
