(* KernelTieHllQuery.v — the float kernels of HyperLogLog.query() as regenerated from hyperloglog.py's AST on every
   run (generated/KernelsHllQuery.v, harness/pytrans_hllq.py) are the pieces of the hand-written PrimFloat model
   HllQuery.v the C17 / C07 theorems are about:

     gen_linear_counting np_log          = linear_counting          for np_log := ln_model (and, for every np_log, the formula)
     gen_estimation_init / _step pow     : the fold over the registers is sum_pow2neg, for every pow that is exact at
                                           the 256 points the loop uses (pow 2.0 (-float64(r)) = 2^-r = pow2neg r)
     gen_estimation_final                = alpha * float64(m*m) / total
     gen_query                           = the value selected by `regime`, for EVERY choice of the functions it calls;
                                           with the generated pieces plugged in: query_model
     gen_alpha                           = alpha_model

   Readings that are stated, not proved: np.log is a parameter (instantiated with the model's ln_model, which the
   correspondence run compares with np.log); `2.0 ** x` is a parameter `pow` of which only pow 2 (-r) = pow2neg r,
   r = 0..255, is used (pow_model below is one such function, so the hypothesis is satisfiable); np.interp and
   np.count_nonzero are parameters instantiated with interp and count_nz; the loop header `for r in registers` is
   fold_left over the register list.  The integer registers of the generated code carry wrap64; the wraps are
   vacuous on the stated ranges (m <= 2^16, 0 <= count <= m). *)
From Coq Require Import ZArith List Lia Bool Floats.PrimFloat Uint63.
From Sketchnu Require Import Machine BitLemmas Consts HllTables HllQuery HllQueryProofs KernelsHllQuery.
Import ListNotations.
Open Scope Z_scope.

(* float64(<integer>) *)
Lemma tie_f64_of_int z : gen_f64_of_int z = f_of_Z z.
Proof. reflexivity. Qed.

(* ---------------------------------------------------------------- _linear_counting *)
Lemma tie_linear_counting_any (lg : float -> float) m nz :
  gen_linear_counting lg m nz = (f_of_Z m * lg (f_of_Z m / f_of_Z nz))%float.
Proof. reflexivity. Qed.

Lemma tie_linear_counting m nz : gen_linear_counting ln_model m nz = linear_counting m nz.
Proof. reflexivity. Qed.

(* ---------------------------------------------------------------- _estimation_function *)
Lemma tie_estimation_init : gen_estimation_init = 0%float.
Proof. reflexivity. Qed.

Section Estimation.
  Variable pow : float -> float -> float.
  Hypothesis pow_exact : forall r, 0 <= r < 256 -> pow 2%float (- f_of_Z r)%float = pow2neg r.

  Lemma tie_estimation_step total r : 0 <= r < 256 ->
    gen_estimation_step pow total r = (total + pow2neg r)%float.
  Proof.
    intros Hr. unfold gen_estimation_step. cbv zeta. change gen_f64_of_int with f_of_Z.
    rewrite (pow_exact r Hr). reflexivity.
  Qed.

  Lemma tie_estimation_fold regs : Forall (fun r => 0 <= r < 256) regs -> forall t,
    fold_left (gen_estimation_step pow) regs t = fold_left (fun t r => (t + pow2neg r)%float) regs t.
  Proof.
    induction 1 as [|r regs Hr _ IH]; intros t; [reflexivity|].
    cbn [fold_left]. rewrite (tie_estimation_step t r Hr). apply IH.
  Qed.

  Lemma tie_estimation_sum regs : Forall (fun r => 0 <= r < 256) regs ->
    fold_left (gen_estimation_step pow) regs gen_estimation_init = sum_pow2neg regs.
  Proof. intros H. unfold sum_pow2neg. rewrite tie_estimation_init. apply tie_estimation_fold. exact H. Qed.
End Estimation.

Lemma tie_estimation_final alpha m total : 0 <= m < 2^31 ->
  gen_estimation_final alpha m total = (alpha * f_of_Z (m * m) / total)%float.
Proof.
  intros Hm. unfold gen_estimation_final. change gen_f64_of_int with f_of_Z.
  rewrite Z.pow_2_r. rewrite wrap64_small; [reflexivity|].
  change (2^64) with (2^31 * 2^31 * 4). change (2^31) with 2147483648 in *. nia.
Qed.

(* _estimation_function as a whole: the generated result expression applied to the fold of the generated loop body
   over the registers, from the generated initial value *)
Definition gen_estimation_function (pow : float -> float -> float) (registers : list Z) (m : Z) (alpha : float) : float :=
  gen_estimation_final alpha m (fold_left (gen_estimation_step pow) registers gen_estimation_init).

Lemma tie_estimation_function pow regs m alpha :
  (forall r, 0 <= r < 256 -> pow 2%float (- f_of_Z r)%float = pow2neg r) ->
  Forall (fun r => 0 <= r < 256) regs -> 0 <= m < 2^31 ->
  gen_estimation_function pow regs m alpha = estimation_function regs m alpha.
Proof.
  intros Hp Hr Hm. unfold gen_estimation_function, estimation_function.
  rewrite (tie_estimation_sum pow Hp regs Hr). apply tie_estimation_final. exact Hm.
Qed.

(* a function that satisfies the hypothesis: 2^-r at the 256 arguments -float64(r) of base 2.0, NaN elsewhere *)
Definition pow_model (b e : float) : float :=
  match find (fun r => (e =? - f_of_Z r)%float) (map Z.of_nat (seq 0 256)) with
  | Some r => if (b =? 2)%float then pow2neg r else nan
  | None => nan
  end.

Lemma pow_model_exact : forall r, 0 <= r < 256 -> pow_model 2%float (- f_of_Z r)%float = pow2neg r.
Proof.
  intros r Hr. rewrite <- (Z2Nat.id r) by lia.
  assert (Hk : (Z.to_nat r < 256)%nat) by lia. revert Hk. generalize (Z.to_nat r). clear r Hr. intros k Hk.
  do 256 (destruct k as [|k]; [vm_compute; reflexivity|]). exfalso. lia.
Qed.

(* ---------------------------------------------------------------- _query *)
(* for EVERY array type and every function the body calls: the branch structure is `regime` *)
Lemma tie_query_regime (A8 AF : Type) (cnz : A8 -> Z) (ip : float -> AF -> AF -> float)
      (lcf : Z -> Z -> float) (ef : A8 -> Z -> float -> float)
      (registers : A8) (m thr : Z) (alpha : float) (raw bias : AF) :
  0 <= cnz registers <= m -> m <= 2^60 ->
  gen_query A8 AF cnz ip lcf ef registers m thr alpha raw bias =
  let nz := m - cnz registers in
  let lc := lcf m nz in
  let est := ef registers m alpha in
  match regime m thr nz lc est with
  | LC => lc
  | Corrected => (est - ip est raw bias)%float
  | Raw => est
  end.
Proof.
  intros Hc Hm. unfold gen_query, regime, hll_zero_cmp, hll_raw_mult. cbv zeta.
  change gen_f64_of_int with f_of_Z. change (2^60) with 1152921504606846976 in Hm.
  (* the wraps are vacuous on the stated range (whichever of them the source writes) *)
  repeat match goal with
         | |- context [wrap64 ?x] => rewrite (wrap64_small x) by (change (2^64) with 18446744073709551616; lia)
         end.
  try replace (m * 5) with (5 * m) by lia.
  destruct (m - cnz registers >? 0).
  - destruct (PrimFloat.ltb (f_of_Z thr) (lcf m (m - cnz registers))); reflexivity.
  - destruct (PrimFloat.leb (ef registers m alpha) (f_of_Z (5 * m))); reflexivity.
Qed.

Lemma hllq_m_bounds p : 7 <= p <= 16 -> 128 <= hllq_m p <= 65536.
Proof.
  intros Hp. unfold hllq_m. change 128 with (2^7). change 65536 with (2^16).
  split; apply Z.pow_le_mono_r; lia.
Qed.

Lemma regs_okb_spec p regs : regs_okb p regs = true ->
  Z.of_nat (length regs) = hllq_m p /\ Forall (fun r => 0 <= r < 256) regs.
Proof.
  unfold regs_okb. intros H. apply andb_true_iff in H. destruct H as [H1 H2]. split; [apply Z.eqb_eq; exact H1|].
  apply Forall_forall. intros r Hr. rewrite forallb_forall in H2. specialize (H2 r Hr).
  apply andb_true_iff in H2. destruct H2 as [Ha Hb]. apply Z.leb_le in Ha. apply Z.ltb_lt in Hb. lia.
Qed.

(* the model's query_full is the generated body applied to the model's pieces *)
Lemma tie_query_full p regs : 7 <= p <= 16 -> Z.of_nat (length regs) = hllq_m p ->
  gen_query (list Z) (list float) count_nz interp linear_counting estimation_function
            regs (hllq_m p) (hll_threshold p) (alpha_model (hllq_m p)) (hll_raw p) (hll_bias p) = query_model p regs.
Proof.
  intros Hp Hl. pose proof (hllq_m_bounds p Hp) as Hm. pose proof (n_zero_nonneg p regs Hl) as Hn.
  rewrite tie_query_regime by (change (2^60) with 1152921504606846976; lia).
  reflexivity.
Qed.

(* ---------------------------------------------------------------- HyperLogLog.__init__: alpha *)
Lemma tie_alpha m : gen_alpha m = alpha_model m.
Proof. reflexivity. Qed.

(* ---------------------------------------------------------------- everything plugged together *)
(* query() of a sketch of precision p, from the generated pieces only: the generated _query body calling the generated
   _linear_counting (np.log := ln_model) and the generated _estimation_function (loop := fold_left), on the constants
   the constructor stores (m = 2^p, threshold[p-7], the generated alpha, the two table rows) *)
Definition gen_query_p (pow : float -> float -> float) (p : Z) (regs : list Z) : float :=
  gen_query (list Z) (list float) count_nz interp (gen_linear_counting ln_model) (gen_estimation_function pow)
            regs (hllq_m p) (hll_threshold p) (gen_alpha (hllq_m p)) (hll_raw p) (hll_bias p).

Lemma tie_query_model pow p regs :
  (forall r, 0 <= r < 256 -> pow 2%float (- f_of_Z r)%float = pow2neg r) ->
  7 <= p <= 16 -> regs_okb p regs = true ->
  gen_query_p pow p regs = query_model p regs.
Proof.
  intros Hpow Hp Hok. destruct (regs_okb_spec p regs Hok) as [Hl Hr].
  pose proof (hllq_m_bounds p Hp) as Hm. pose proof (n_zero_nonneg p regs Hl) as Hn.
  unfold gen_query_p. rewrite tie_query_regime by (change (2^60) with 1152921504606846976; lia).
  cbv zeta. rewrite tie_alpha.
  rewrite (tie_estimation_function pow regs (hllq_m p) (alpha_model (hllq_m p)) Hpow Hr)
    by (change (2^31) with 2147483648; lia).
  reflexivity.
Qed.

(* the empty sketch (C07): every register zero -> exactly +0.0 *)
Lemma tie_query_empty pow p :
  (forall r, 0 <= r < 256 -> pow 2%float (- f_of_Z r)%float = pow2neg r) ->
  7 <= p <= 16 -> gen_query_p pow p (zeros (hllq_m p)) = 0%float.
Proof.
  intros Hpow Hp. destruct (query_empty p Hp) as (Hok & _ & Hq).
  rewrite (tie_query_model pow p _ Hpow Hp Hok). exact Hq.
Qed.

(* ---------------------------------------------------------------- the statements quoted by props/C17.v, C07.v *)
Lemma tie_hllq_linear_counting_all :
  (forall (np_log : float -> float) (m n_zero : Z),
     gen_linear_counting np_log m n_zero = (f_of_Z m * np_log (f_of_Z m / f_of_Z n_zero))%float) /\
  (forall m n_zero : Z, gen_linear_counting ln_model m n_zero = linear_counting m n_zero).
Proof. exact (conj tie_linear_counting_any tie_linear_counting). Qed.

Lemma tie_hllq_estimation_all : forall pow : float -> float -> float,
  (forall r, 0 <= r < 256 -> pow 2%float (- f_of_Z r)%float = pow2neg r) ->
  gen_estimation_init = 0%float /\
  (forall (total : float) (r : Z), 0 <= r < 256 -> gen_estimation_step pow total r = (total + pow2neg r)%float) /\
  (forall regs : list Z, Forall (fun r => 0 <= r < 256) regs ->
     fold_left (gen_estimation_step pow) regs gen_estimation_init = sum_pow2neg regs) /\
  (forall (alpha : float) (m : Z) (total : float), 0 <= m < 2^31 ->
     gen_estimation_final alpha m total = (alpha * f_of_Z (m * m) / total)%float) /\
  (forall (regs : list Z) (m : Z) (alpha : float), Forall (fun r => 0 <= r < 256) regs -> 0 <= m < 2^31 ->
     gen_estimation_final alpha m (fold_left (gen_estimation_step pow) regs gen_estimation_init)
     = estimation_function regs m alpha).
Proof.
  intros pow Hpow. split; [exact tie_estimation_init|]. split; [exact (tie_estimation_step pow Hpow)|].
  split; [exact (tie_estimation_sum pow Hpow)|]. split; [exact tie_estimation_final|].
  intros regs m alpha Hr Hm. exact (tie_estimation_function pow regs m alpha Hpow Hr Hm).
Qed.

Lemma tie_hllq_pow_satisfiable :
  forall r, 0 <= r < 256 -> pow_model 2%float (- f_of_Z r)%float = pow2neg r.
Proof. exact pow_model_exact. Qed.

Lemma tie_hllq_query_all :
  (forall (A8 AF : Type) (np_count_nonzero : A8 -> Z) (np_interp : float -> AF -> AF -> float)
          (f_linear_counting : Z -> Z -> float) (f_estimation_function : A8 -> Z -> float -> float)
          (registers : A8) (m threshold : Z) (alpha : float) (raw_estimate bias_data : AF),
     0 <= np_count_nonzero registers <= m -> m <= 2^60 ->
     gen_query A8 AF np_count_nonzero np_interp f_linear_counting f_estimation_function
               registers m threshold alpha raw_estimate bias_data =
     let n_zero := m - np_count_nonzero registers in
     let lc := f_linear_counting m n_zero in
     let est := f_estimation_function registers m alpha in
     match regime m threshold n_zero lc est with
     | LC => lc
     | Corrected => (est - np_interp est raw_estimate bias_data)%float
     | Raw => est
     end) /\
  (forall p regs, 7 <= p <= 16 -> Z.of_nat (length regs) = hllq_m p ->
     gen_query (list Z) (list float) count_nz interp linear_counting estimation_function
               regs (hllq_m p) (hll_threshold p) (alpha_model (hllq_m p)) (hll_raw p) (hll_bias p) = query_model p regs).
Proof. exact (conj tie_query_regime tie_query_full). Qed.

Lemma tie_hllq_alpha : forall m, gen_alpha m = alpha_model m.
Proof. exact tie_alpha. Qed.

Lemma tie_hllq_query_model : forall pow : float -> float -> float,
  (forall r, 0 <= r < 256 -> pow 2%float (- f_of_Z r)%float = pow2neg r) ->
  forall p regs, 7 <= p <= 16 -> regs_okb p regs = true ->
  gen_query (list Z) (list float) count_nz interp (gen_linear_counting ln_model)
            (fun registers m alpha =>
               gen_estimation_final alpha m (fold_left (gen_estimation_step pow) registers gen_estimation_init))
            regs (hllq_m p) (hll_threshold p) (gen_alpha (hllq_m p)) (hll_raw p) (hll_bias p)
  = query_model p regs.
Proof. intros pow Hpow p regs Hp Hok. exact (tie_query_model pow p regs Hpow Hp Hok). Qed.

Lemma tie_hllq_query_empty : forall pow : float -> float -> float,
  (forall r, 0 <= r < 256 -> pow 2%float (- f_of_Z r)%float = pow2neg r) ->
  forall p, 7 <= p <= 16 ->
  gen_query (list Z) (list float) count_nz interp (gen_linear_counting ln_model)
            (fun registers m alpha =>
               gen_estimation_final alpha m (fold_left (gen_estimation_step pow) registers gen_estimation_init))
            (zeros (hllq_m p)) (hllq_m p) (hll_threshold p) (gen_alpha (hllq_m p)) (hll_raw p) (hll_bias p)
  = 0%float.
Proof. intros pow Hpow p Hp. exact (tie_query_empty pow p Hpow Hp). Qed.
