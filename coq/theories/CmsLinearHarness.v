(* CmsLinearHarness.v — executable glue used by the generated case files of the
   cms-linear correspondence suite (C01, C05, C09, C12, C18).  Definitions only. *)
From Coq Require Import ZArith List Bool.
From Sketchnu Require Import Machine Harness Ngram CmsLinear.
Import ListNotations.
Open Scope Z_scope.

(* bucket map observed on the implementation: key -> column per row *)
Fixpoint assoc_cols (k : key) (bm : list (key * list nat)) : list nat :=
  match bm with
  | [] => []
  | (k', cols) :: r => if keqb k k' then cols else assoc_cols k r
  end.
Definition mk_bucket (bm : list (key * list nat)) : nat -> key -> nat :=
  fun r k => nth r (assoc_cols k bm) 0%nat.

(* expected public state of one sketch: table rows, n_added, n_records, queries *)
Definition expect := (list (list Z) * Z * Z * list (key * Z))%type.

Definition check_state (w d : nat) (b : nat -> key -> nat) (s : sk) (e : expect) : bool :=
  let '(tab, na, nr, qs) := e in
  zlist2_eqb (tabulate w d (cms s)) tab && (n_added s =? na) && (n_records s =? nr) &&
  forallb (fun kq => query d b s (fst kq) =? snd kq) qs.

(* a case: shape, bucket map, and a list of (history, expected state) *)
Definition lin_case := (nat * nat * list (key * list nat) * list (ahist * expect))%type.

Definition check_lin_case (c : lin_case) : bool :=
  let '(w, d, bm, hs) := c in
  let b := mk_bucket bm in
  forallb (fun he => check_state w d b (aeval w d b (fst he)) (snd he)) hs.

(* states given directly as tables (for merge / single-add suites) *)
Definition sk_of (rows : list (list Z)) (na nr : Z) : sk :=
  {| cms := of_rows rows; n_added := na; n_records := nr |}.

(* merge suite: operands given directly as tables *)
Definition tstate := (list (list Z) * Z * Z)%type.
Definition merge_case := (nat * nat * tstate * tstate * tstate)%type.
Definition check_merge_case (c : merge_case) : bool :=
  let '(w, d, (ra, naa, nra), (rb, nab, nrb), (re, nae, nre)) := c in
  let m := merge (sk_of ra naa nra) (sk_of rb nab nrb) in
  zlist2_eqb (tabulate w d (cms m)) re && (n_added m =? nae) && (n_records m =? nre).
