(* HashProofsMurmur.v — the transcription of hashes.py equals the published algorithms: MurmurHash3_x86_32. *)
From Coq Require Import ZArith List Lia Bool.
From Sketchnu Require Import Machine Consts Hashes HashSpec BitLemmas HashProofs.
Import ListNotations.
Open Scope Z_scope.
Ltac Zify.zify_post_hook ::= Z.to_euclidean_division_equations.

Lemma consts_murmur :
  mm_c1 = 0xcc9e2d51 /\ mm_c2 = 0x1b873593 /\ mm_c3 = 0xe6546b64 /\ mm_r1 = 15 /\ mm_r2 = 13 /\
  mm_mul5 = 5 /\ mm_rotw = 32 /\ mm_f1 = 16 /\ mm_f2 = 13 /\ mm_f3 = 16 /\
  mm_fc1 = 0x85ebca6b /\ mm_fc2 = 0xc2b2ae35.
Proof. repeat split; reflexivity. Qed.

(* ---------------- MurmurHash3_x86_32 ---------------- *)
Lemma xor32_spec x y : xor32 x y = Z.lxor (wrap32 x) (wrap32 y).
Proof.
  unfold xor32. apply wrap32_small. apply lxor_range; [lia|apply wrap32_range|apply wrap32_range].
Qed.

Lemma shift32r_spec x y : 0 <= y < 32 -> shift32r x y = wrap32 x / 2^y.
Proof.
  intros Hy. unfold shift32r. rewrite (wrap32_small y) by lia. rewrite shiftr_div by lia.
  pose proof (wrap32_range x) as Hx. apply wrap32_small.
  assert (0 < 2^y) by (apply Z.pow_pos_nonneg; lia).
  split; [apply Z.div_pos; lia|]. apply Z.div_lt_upper_bound; nia.
Qed.

Lemma shift32l_spec x y : 0 <= y < 32 -> shift32l x y = (wrap32 x * 2^y) mod 2^32.
Proof.
  intros Hy. unfold shift32l. rewrite (wrap32_small y) by lia.
  rewrite Z.shiftl_mul_pow2 by lia. apply wrap32_mod.
Qed.

Lemma rotl32_spec x r : 0 < r < 32 -> mm_rotw = 32 -> rotl32 x r = rotl32s (wrap32 x) r.
Proof.
  intros Hr Hw. unfold rotl32, rotl32s, M32. rewrite Hw. rewrite ?wrap32_idem.
  rewrite (wrap32_small r) by lia.
  rewrite shift32l_spec, shift32r_spec by lia. rewrite ?wrap32_idem.
  pose proof (wrap32_range x) as Hx. set (w := wrap32 x) in *.
  assert (0 < 2^r) by (apply Z.pow_pos_nonneg; lia).
  assert (0 < 2^(32 - r)) by (apply Z.pow_pos_nonneg; lia).
  assert (2^32 = 2^(32 - r) * 2^r) as E by (rewrite <- Z.pow_add_r by lia; f_equal; lia).
  assert ((w * 2^r) mod 2^32 = (w mod 2^(32 - r)) * 2^r) as Em.
  { rewrite E. apply Z.mul_mod_distr_r; lia. }
  rewrite Em.
  assert (0 <= w / 2^(32 - r) < 2^r) as Hlo.
  { split; [apply Z.div_pos; lia|]. apply Z.div_lt_upper_bound; lia. }
  rewrite Z.lor_comm. rewrite lor_disjoint_add by lia. rewrite Z.add_comm.
  apply wrap32_small.
  pose proof (Z.mod_pos_bound w (2^(32 - r)) ltac:(lia)). nia.
Qed.

Lemma mm_k1_spec k1 : wrap32 (mm_k1 k1) = mm_scramble k1.
Proof.
  unfold mm_k1, mm_scramble, M32.
  destruct consts_murmur as (-> & -> & _ & -> & _ & _ & Hw & _).
  rewrite wrap32_wrap64, rotl32_spec by (lia || assumption).
  rewrite wrap32_wrap64, !wrap32_mod. reflexivity.
Qed.

Lemma le4_decode b0 b1 b2 b3 :
  bytes [b0; b1; b2; b3] -> le4 b0 b1 b2 b3 = le_decode [b0; b1; b2; b3].
Proof.
  intros Hb. rewrite <- le_lor_decode by assumption.
  unfold le4. cbn [le_lor].
  rewrite !Z.shiftl_lor, !Z.shiftl_shiftl, Z.shiftl_0_l, Z.lor_0_r by lia.
  reflexivity.
Qed.

Lemma mm_blocks_spec n : forall k h, bytes k -> (4 * n <= length k)%nat ->
  wrap32 (fst (mm_blocks n k h)) = fold_left mm_body (chunks 4 (firstn (4 * n) k)) (wrap32 h)
  /\ snd (mm_blocks n k h) = skipn (4 * n) k.
Proof.
  induction n as [|n IH]; intros k h Hb Hl.
  - simpl. split; reflexivity.
  - destruct k as [|b0 [|b1 [|b2 [|b3 r]]]]; simpl in Hl; try (exfalso; lia).
    cbn [mm_blocks].
    replace (4 * S n)%nat with (4 + 4 * n)%nat by lia.
    assert (bytes [b0; b1; b2; b3] /\ bytes r) as [Hc Hr]
      by (apply (bytes_app [b0; b1; b2; b3] r); exact Hb).
    cbn [Nat.add firstn skipn].
    change (b0 :: b1 :: b2 :: b3 :: firstn (4 * n) r) with ([b0; b1; b2; b3] ++ firstn (4 * n) r).
    rewrite chunks_app by (simpl; lia). cbn [fold_left].
    specialize (IH r (wrap64
             (rotl32 (xor32 h (mm_k1 (le4 b0 b1 b2 b3))) mm_r2 * mm_mul5 + mm_c3)) Hr ltac:(lia)).
    destruct IH as [IH1 IH2]. split; [|exact IH2].
    rewrite IH1. f_equal.
    unfold mm_body. cbn [length Nat.eqb].
    destruct consts_murmur as (_ & _ & -> & _ & -> & -> & Hw & _).
    rewrite wrap32_wrap64, rotl32_spec by (lia || assumption).
    rewrite xor32_spec, mm_k1_spec, le4_decode by assumption.
    assert (wrap32 (Z.lxor (wrap32 h) (mm_scramble (le_decode [b0; b1; b2; b3]))) =
            Z.lxor (wrap32 h) (mm_scramble (le_decode [b0; b1; b2; b3]))) as ->.
    { apply wrap32_small. apply lxor_range; [lia|apply wrap32_range|].
      unfold mm_scramble, M32. apply Z.mod_pos_bound. lia. }
    rewrite wrap32_mod. reflexivity.
Qed.

Lemma byte_wrap32 t : 0 <= t < 256 -> wrap32 t = t.
Proof. intros. apply wrap32_small. lia. Qed.

Lemma mm_tail_spec tail h :
  bytes tail -> (1 <= length tail <= 3)%nat ->
  wrap32 (mm_tail (zlen tail) tail h) = Z.lxor (wrap32 h) (mm_scramble (le_decode tail)).
Proof.
  intros Hb Hl. unfold zlen.
  destruct tail as [|t0 [|t1 [|t2 [|t3 r]]]]; simpl in Hl; try (exfalso; lia);
  repeat match goal with H : bytes (_ :: _) |- _ => apply bytes_cons in H; destruct H as [? H] end;
  unfold is_byte in *;
  unfold mm_tail; cbn [length Z.of_nat Pos.of_succ_nat Pos.succ Z.eqb Pos.eqb nth];
  rewrite ?xor32_spec, ?wrap32_idem, mm_k1_spec;
  (rewrite (wrap32_small (Z.lxor (wrap32 h) _))
     by (apply lxor_range; [lia|apply wrap32_range|unfold mm_scramble, M32; apply Z.mod_pos_bound; lia]));
  f_equal; f_equal; cbn [le_decode];
  rewrite ?shift32l_spec by lia;
  change (wrap32 0) with 0; rewrite ?Z.lxor_0_l, ?wrap32_idem;
  rewrite ?(byte_wrap32 t0), ?(byte_wrap32 t1), ?(byte_wrap32 t2) by lia.
  - lia.
  - assert ((t1 * 2^8) mod 2^32 = t1 * 2^8) as -> by (apply Z.mod_small; norm_pows; lia).
    rewrite (wrap32_small (t1 * 2^8)) by (norm_pows; lia).
    rewrite lxor_disjoint_add by lia. norm_pows. lia.
  - assert ((t1 * 2^8) mod 2^32 = t1 * 2^8) as -> by (apply Z.mod_small; norm_pows; lia).
    assert ((t2 * 2^16) mod 2^32 = t2 * 2^16) as -> by (apply Z.mod_small; norm_pows; lia).
    rewrite (wrap32_small (t1 * 2^8)), (wrap32_small (t2 * 2^16)) by (norm_pows; lia).
    rewrite lxor_disjoint_add by (norm_pows; lia).
    rewrite (wrap32_small (t2 * 2^16 + t1 * 2^8)) by (norm_pows; lia).
    replace (t2 * 2^16 + t1 * 2^8) with ((t2 * 256 + t1) * 2^8) by (norm_pows; lia).
    rewrite lxor_disjoint_add by lia. norm_pows. lia.
Qed.

Lemma fmix32_spec h : fmix32 h = mm_fmix (wrap32 h).
Proof.
  unfold fmix32, mm_fmix, M32.
  destruct consts_murmur as (_ & _ & _ & _ & _ & _ & _ & -> & -> & -> & -> & ->).
  rewrite !xor32_spec, !shift32r_spec, !wrap32_wrap64, !wrap32_idem by lia.
  set (w := wrap32 h). pose proof (wrap32_range h) as Hw. fold w in Hw.
  assert (forall a n, 0 <= a < 2^32 -> 0 < n -> 0 <= a / 2^n < 2^32) as Hdiv.
  { intros a n Ha Hn. assert (0 < 2^n) by (apply Z.pow_pos_nonneg; lia).
    split; [apply Z.div_pos; lia|]. apply Z.div_lt_upper_bound; nia. }
  assert (forall a n, 0 <= a < 2^32 -> 0 < n -> wrap32 (a / 2^n) = a / 2^n) as Hwd
    by (intros; apply wrap32_small; apply Hdiv; assumption).
  rewrite (Hwd w 16) by lia.
  set (x1 := Z.lxor w (w / 2^16)).
  rewrite (wrap32_mod (x1 * 2246822507)). set (a := (x1 * 2246822507) mod 2^32).
  assert (0 <= a < 2^32) by (apply Z.mod_pos_bound; lia).
  rewrite (Hwd a 13) by lia.
  set (x2 := Z.lxor a (a / 2^13)).
  rewrite (wrap32_mod (x2 * 3266489909)). set (b := (x2 * 3266489909) mod 2^32).
  assert (0 <= b < 2^32) by (apply Z.mod_pos_bound; lia).
  rewrite (Hwd b 16) by lia. apply wrap32_small.
  apply lxor_range; [lia|assumption|apply Hdiv; [assumption|lia]].
Qed.

Theorem murmur3_correct k seed :
  bytes k -> zlen k < 2^32 -> 0 <= seed < 2^32 -> murmur3 k seed = spec_murmur3 k seed.
Proof.
  intros Hb Hlen Hs. unfold murmur3, spec_murmur3.
  assert (0 <= zlen k) as Hz by (unfold zlen; lia).
  rewrite (wrap32_small (zlen k)) by lia.
  set (n := Z.to_nat (zlen k / 4)).
  assert (zlen k = 4 * Z.of_nat n + Z.land (zlen k) 3 /\ 0 <= Z.land (zlen k) 3 < 4) as [Hdec Hsw].
  { change 3 with (Z.ones 2). rewrite Z.land_ones by lia. change (2^2) with 4.
    subst n. rewrite Z2Nat.id by (apply Z.div_pos; lia). pose proof (Z.div_mod (zlen k) 4). pose proof (Z.mod_pos_bound (zlen k) 4). lia. }
  assert (4 * n <= length k)%nat as Hn by (unfold zlen in *; lia).
  pose proof (mm_blocks_spec n k seed Hb Hn) as [Hb1 Hb2].
  destruct (mm_blocks n k seed) as [h1 tail]. cbn [fst snd] in Hb1, Hb2.
  rewrite fmix32_spec. f_equal.
  rewrite xor32_spec. rewrite (wrap32_small (zlen k)) by lia.
  rewrite (wrap32_small (Z.lxor _ _))
    by (apply lxor_range; [lia|apply wrap32_range|lia]).
  f_equal.
  rewrite (wrap32_small seed) in Hb1 by lia.
  set (hd := firstn (4 * n) k) in *. set (tl := skipn (4 * n) k) in *.
  assert (length hd = (4 * n)%nat) as Hhd by (subst hd; rewrite firstn_length; lia).
  assert (zlen tl = Z.land (zlen k) 3) as Htl.
  { subst tl. unfold zlen in *. rewrite skipn_length. lia. }
  assert (bytes tl) as Hbt by (subst tl; apply bytes_skipn; assumption).
  replace (chunks 4 k) with (chunks 4 (hd ++ tl)) by (subst hd tl; rewrite firstn_skipn; reflexivity).
  assert (forall m (a : key) , length a = (4 * m)%nat ->
          chunks 4 (a ++ tl) = chunks 4 a ++ chunks 4 tl) as Happ.
  { induction m as [|m IHm]; intros a Ha.
    - destruct a; [reflexivity|exfalso; simpl in Ha; lia].
    - pose proof (firstn_skipn 4 a) as Hsplit.
      assert (length (firstn 4 a) = 4%nat) as Hc by (rewrite firstn_length; lia).
      assert (length (skipn 4 a) = (4 * m)%nat) as Hr' by (rewrite skipn_length; lia).
      set (c := firstn 4 a) in *. set (r := skipn 4 a) in *. rewrite <- Hsplit.
      rewrite <- app_assoc. rewrite (chunks_app 4 c (r ++ tl)), (chunks_app 4 c r) by lia.
      rewrite IHm by exact Hr'. reflexivity. }
  rewrite (Happ n hd Hhd). rewrite fold_left_app. rewrite <- Hb1.
  rewrite <- Htl. subst tail.
  destruct (Nat.eq_dec (length tl) 0) as [E0|E0].
  - destruct tl; [|exfalso; simpl in E0; lia]. cbn [chunks zlen length Z.of_nat]. unfold mm_tail. simpl. reflexivity.
  - assert (tl <> []) as Hne by (destruct tl; [exfalso; simpl in E0; lia|congruence]).
    assert (length tl <= 4)%nat as Hle by (unfold zlen in *; lia).
    rewrite (chunks_short 4 tl) by (assumption || lia).
    cbn [fold_left]. unfold mm_body.
    assert (Nat.eqb (length tl) 4 = false) as -> by (apply Nat.eqb_neq; unfold zlen in *; lia).
    apply mm_tail_spec; [assumption|unfold zlen in *; lia].
Qed.

Theorem murmur3_range k seed : 0 <= murmur3 k seed < 2^32.
Proof. unfold murmur3. destruct (mm_blocks _ _ _). unfold fmix32. apply wrap32_range. Qed.

