(* MergingProofs.v — lemmas about Merging.v (parallel_merging rounds, worker loop, the
   HyperLogLog and linear count-min instances of parallel_add, the monitor loop). *)
From Coq Require Import ZArith List Bool Lia Permutation.
From Sketchnu Require Import Machine Consts Hashes Ngram Hll HllProofs CmsLinear CmsLinearProofs Merging.
Import ListNotations.
Open Scope Z_scope.

(* ---------------------------------------------------------------------- *)
(* small list facts                                                         *)
(* ---------------------------------------------------------------------- *)
Lemma list_ind2 {A} (P : list A -> Prop) :
  P [] -> (forall a, P [a]) -> (forall a b l, P l -> P (a :: b :: l)) -> forall l, P l.
Proof.
  intros H0 H1 H2 l. assert (P l /\ forall a, P (a :: l)) as [H _]; [|exact H].
  induction l as [|x l [IH1 IH2]]; split; auto.
Qed.

Lemma div2_SS n : (S (S n) / 2 = S (n / 2))%nat.
Proof.
  replace (S (S n)) with (n + 1 * 2)%nat by lia. rewrite Nat.div_add by lia. lia.
Qed.

Lemma flat_map_map {A B C} (f : B -> list C) (g : A -> B) l :
  flat_map f (map g l) = flat_map (fun x => f (g x)) l.
Proof. induction l as [|a l IH]; cbn [map flat_map]; [reflexivity|]. rewrite IH. reflexivity. Qed.

Lemma zsum_app a b : zsum (a ++ b) = zsum a + zsum b.
Proof. unfold zsum. induction a as [|x a IH]; cbn [app fold_right]; lia. Qed.

Lemma fold_add_zsum l : forall x, fold_left Z.add l x = x + zsum l.
Proof. unfold zsum. induction l as [|y l IH]; intros x; cbn [fold_left fold_right]; [lia|]. rewrite IH. lia. Qed.

Lemma fold_app_concat {A} (L : list (list A)) : forall x, fold_left (@app A) L x = x ++ concat L.
Proof.
  induction L as [|y L IH]; intros x; cbn [fold_left concat]; [rewrite app_nil_r; reflexivity|].
  rewrite IH, app_assoc. reflexivity.
Qed.

Lemma zsum_perm a b : Permutation a b -> zsum a = zsum b.
Proof. unfold zsum. induction 1; cbn [fold_right]; lia. Qed.

Lemma zsum_nonneg l : Forall (fun x => 0 <= x) l -> 0 <= zsum l.
Proof. unfold zsum. induction 1; cbn [fold_right]; lia. Qed.

Lemma zsum_in_le l x : Forall (fun y => 0 <= y) l -> In x l -> x <= zsum l.
Proof.
  unfold zsum. induction 1 as [|y l Hy Hl IH]; cbn [fold_right In]; [tauto|].
  pose proof (zsum_nonneg l Hl) as Hn. unfold zsum in Hn. intros [->|Hin]; [lia|]. specialize (IH Hin). lia.
Qed.

Lemma zsum_concat (L : list (list Z)) : zsum (concat L) = zsum (map zsum L).
Proof. induction L as [|a L IH]; cbn [concat map]; [reflexivity|]. rewrite zsum_app, IH. reflexivity. Qed.

Lemma concat_map_map {A B} (f : A -> B) (L : list (list A)) : concat (map (map f) L) = map f (concat L).
Proof. induction L as [|a L IH]; cbn [concat map]; [reflexivity|]. rewrite IH, map_app. reflexivity. Qed.

Lemma concat_map_flat_map {A B} (f : A -> list B) (L : list (list A)) :
  concat (map (flat_map f) L) = flat_map f (concat L).
Proof. induction L as [|a L IH]; cbn [concat map]; [reflexivity|]. rewrite IH, flat_map_app. reflexivity. Qed.

(* the items listed by position are the items *)
Lemma map_nth_seq {A B} (f : A -> B) (d : A) (l : list A) :
  map (fun i => f (nth i l d)) (seq 0 (length l)) = map f l.
Proof.
  induction l as [|a l IH]; cbn [length seq map]; [reflexivity|].
  rewrite <- seq_shift, map_map. cbn [nth]. rewrite IH. reflexivity.
Qed.

(* ====================================================================== *)
(* parallel_merging                                                         *)
(* ====================================================================== *)
Section PMProofs.
Variable Sk : Type.
Variable merge : Sk -> Sk -> Sk.
Notation merge_at := (merge_at Sk merge).
Notation merge_phase := (merge_phase Sk merge).
Notation select_phase := (select_phase Sk).
Notation pm_round := (pm_round Sk merge).
Notation pm_round_s := (pm_round_s Sk merge).
Notation pm_loop := (pm_loop Sk merge).
Notation pm := (pm Sk merge).
Notation eval_tree := (eval_tree Sk merge).

Lemma merge_at_SS x y r i : merge_at (x :: y :: r) (S i) = x :: y :: merge_at r i.
Proof.
  unfold Merging.merge_at. replace (2 * S i)%nat with (S (S (2 * i))) by lia.
  replace (S (S (2 * i)) + 1)%nat with (S (S (2 * i + 1))) by lia. cbn [nth_error].
  destruct (nth_error r (2 * i)); [|reflexivity]. destruct (nth_error r (2 * i + 1)); reflexivity.
Qed.

Lemma fold_merge_at_shift is_ : forall x y r,
  fold_left merge_at (map S is_) (x :: y :: r) = x :: y :: fold_left merge_at is_ r.
Proof.
  induction is_ as [|i is_ IH]; intros x y r; cbn [map fold_left]; [reflexivity|].
  rewrite merge_at_SS. apply IH.
Qed.

Lemma merge_phase_cons2 a b rest n :
  merge_phase (a :: b :: rest) (S (S n)) = merge a b :: b :: merge_phase rest n.
Proof.
  unfold Merging.merge_phase. rewrite div2_SS. cbn [seq fold_left].
  rewrite <- seq_shift. unfold Merging.merge_at at 2. cbn [Nat.mul Nat.add nth_error set_nth].
  apply fold_merge_at_shift.
Qed.

Lemma select_phase_cons2 x y r n :
  select_phase (x :: y :: r) (S (S n)) = x :: select_phase r n.
Proof.
  unfold Merging.select_phase. replace (S (S n) + 1)%nat with (S (S (n + 1))) by lia.
  rewrite div2_SS. cbn [seq map flat_map]. change (2 * 0)%nat with 0%nat. cbn [nth_error app]. f_equal.
  rewrite <- seq_shift, map_map, !flat_map_map. apply flat_map_ext. intros j.
  replace (2 * S j)%nat with (S (S (2 * j))) by lia. reflexivity.
Qed.

Lemma pm_round_cons2 a b rest : pm_round (a :: b :: rest) = merge a b :: pm_round rest.
Proof. unfold Merging.pm_round. cbn [length]. rewrite merge_phase_cons2, select_phase_cons2. reflexivity. Qed.

(* the index transcription of one round is the structural one *)
Theorem pm_round_eq l : pm_round l = pm_round_s l.
Proof.
  induction l as [|a|a b l IH] using list_ind2; [reflexivity|reflexivity|].
  rewrite pm_round_cons2, IH. reflexivity.
Qed.

Lemma pm_round_s_length2 l :
  (length l <= 2 * length (pm_round_s l) <= length l + 1)%nat.
Proof. induction l as [|a|a b l IH] using list_ind2; cbn [Merging.pm_round_s length]; lia. Qed.

(* a round leaves ceil(n/2) sketches; n//2 merger processes ran *)
Theorem pm_round_length l : length (pm_round l) = ((length l + 1) / 2)%nat.
Proof.
  rewrite pm_round_eq. induction l as [|a|a b l IH] using list_ind2; [reflexivity|reflexivity|].
  cbn [Merging.pm_round_s length]. rewrite IH. replace (S (S (length l)) + 1)%nat with (S (S (length l + 1))) by lia.
  rewrite div2_SS. reflexivity.
Qed.

Lemma pm_loop_total fuel : forall l, (1 <= length l <= fuel)%nat -> pm_loop fuel l <> None.
Proof.
  induction fuel as [|f IH]; intros l Hl; [lia|]. cbn [Merging.pm_loop].
  destruct (1 <? length l)%nat eqn:E.
  - apply Nat.ltb_lt in E. apply IH. rewrite pm_round_eq. pose proof (pm_round_s_length2 l). lia.
  - destruct l; [cbn [length] in Hl; lia|]. discriminate.
Qed.

(* the fuel is never exhausted *)
Theorem pm_total l : l <> [] -> pm l <> None.
Proof.
  intros H. unfold Merging.pm. apply pm_loop_total. destruct l; [congruence|]. cbn [length]. lia.
Qed.

(* ---------- the result is a binary merge tree over the inputs, in order ---------- *)
Fixpoint round_t (ts : list (tree Sk)) : list (tree Sk) :=
  match ts with a :: b :: r => Node a b :: round_t r | _ => ts end.

Lemma round_t_eval ts : pm_round_s (map eval_tree ts) = map eval_tree (round_t ts).
Proof.
  induction ts as [|a|a b l IH] using list_ind2; [reflexivity|reflexivity|].
  cbn [map Merging.pm_round_s round_t Merging.eval_tree]. rewrite IH. reflexivity.
Qed.

Lemma round_t_leaves ts : flat_map leaves (round_t ts) = flat_map leaves ts.
Proof.
  induction ts as [|a|a b l IH] using list_ind2; [reflexivity|reflexivity|].
  cbn [round_t flat_map leaves]. rewrite IH, app_assoc. reflexivity.
Qed.

Lemma pm_loop_forest fuel : forall ts s, pm_loop fuel (map eval_tree ts) = Some s ->
  exists t, leaves t = flat_map leaves ts /\ s = eval_tree t.
Proof.
  induction fuel as [|f IH]; intros ts s H; [discriminate|]. cbn [Merging.pm_loop] in H.
  destruct (1 <? length (map eval_tree ts))%nat eqn:E.
  - rewrite pm_round_eq, round_t_eval in H. destruct (IH _ _ H) as (t & Hl & Hs).
    exists t. rewrite Hl, round_t_leaves. auto.
  - apply Nat.ltb_ge in E. rewrite map_length in E.
    destruct ts as [|t [|t' ts]]; [discriminate| |cbn [length] in E; lia].
    cbn in H. injection H as <-. exists t. cbn [flat_map]. rewrite app_nil_r. auto.
Qed.

Theorem pm_tree l s : pm l = Some s -> exists t, leaves t = l /\ s = eval_tree t.
Proof.
  intros H. unfold Merging.pm in H.
  assert (E : l = map eval_tree (map Leaf l)) by (rewrite map_map; cbn [Merging.eval_tree]; symmetry; apply map_id).
  rewrite E in H at 2. apply pm_loop_forest in H. destruct H as (t & Hl & Hs). exists t. split; [|exact Hs].
  rewrite Hl. clear. induction l as [|a l IH]; cbn [map flat_map leaves app]; [reflexivity|]. rewrite IH. reflexivity.
Qed.

(* ---------- anything that adds up over merge adds up over the whole array ---------- *)
Section Measure.
Variable M : Type.
Variable op : M -> M -> M.
Hypothesis op_assoc : forall a b c, op (op a b) c = op a (op b c).
Variable mu : Sk -> M.
Hypothesis mu_merge : forall a b, mu (merge a b) = op (mu a) (mu b).

Lemma op_fold l : forall x y, op x (fold_left op l y) = fold_left op l (op x y).
Proof. induction l as [|z l IH]; intros x y; cbn [fold_left]; [reflexivity|]. rewrite IH, op_assoc. reflexivity. Qed.

Lemma tree_measure t : exists h tl, leaves t = h :: tl /\ mu (eval_tree t) = fold_left op (map mu tl) (mu h).
Proof.
  induction t as [s|a (ha & ta & La & Ma) b (hb & tb & Lb & Mb)].
  - exists s, []. split; reflexivity.
  - exists ha, (ta ++ hb :: tb). cbn [leaves Merging.eval_tree]. rewrite La, Lb. split; [reflexivity|].
    rewrite mu_merge, Ma, Mb, map_app, fold_left_app. cbn [map fold_left]. apply op_fold.
Qed.

Theorem pm_measure a l s : pm (a :: l) = Some s -> mu s = fold_left op (map mu l) (mu a).
Proof.
  intros H. apply pm_tree in H. destruct H as (t & Hl & ->).
  destruct (tree_measure t) as (h & tl & Hl' & Hm). rewrite Hl in Hl'. injection Hl' as <- <-. exact Hm.
Qed.
End Measure.

(* with an associative merge the rounds compute the left fold *)
Theorem pm_fold : (forall a b c, merge (merge a b) c = merge a (merge b c)) ->
  forall a l, pm (a :: l) = Some (fold_left merge l a).
Proof.
  intros Hassoc a l. destruct (pm (a :: l)) as [s|] eqn:E.
  - f_equal. pose proof (pm_measure Sk merge Hassoc (fun x => x) (fun _ _ => eq_refl) a l s E) as H.
    rewrite map_id in H. exact H.
  - exfalso. revert E. apply pm_total. discriminate.
Qed.

(* enough rounds: n <= 2^rounds *)
Lemma pm_rounds_loop_ge fuel : forall n, (1 <= n <= fuel)%nat -> (n <= 2 ^ pm_rounds_loop fuel n)%nat.
Proof.
  induction fuel as [|f IH]; intros n Hn; [lia|]. cbn [Merging.pm_rounds_loop].
  destruct (1 <? n)%nat eqn:E; [|apply Nat.ltb_ge in E; cbn; lia].
  apply Nat.ltb_lt in E. rewrite Nat.pow_succ_r'.
  assert (D : (n <= 2 * ((n + 1) / 2) <= n + 1)%nat).
  { pose proof (Nat.div_mod_eq (n + 1) 2). pose proof (Nat.mod_upper_bound (n + 1) 2). lia. }
  specialize (IH ((n + 1) / 2)%nat). lia.
Qed.
Theorem pm_rounds_ge n : (1 <= n)%nat -> (n <= 2 ^ pm_rounds n)%nat.
Proof. intros H. apply pm_rounds_loop_ge. lia. Qed.
End PMProofs.

(* the rounds commute with any map that commutes with merge *)
Section PMMap.
Variables (A B : Type) (mergeA : A -> A -> A) (mergeB : B -> B -> B) (f : A -> B).
Hypothesis f_merge : forall a b, f (mergeA a b) = mergeB (f a) (f b).

Lemma pm_round_s_map l : pm_round_s B mergeB (map f l) = map f (pm_round_s A mergeA l).
Proof.
  induction l as [|a|a b l IH] using list_ind2; [reflexivity|reflexivity|].
  cbn [map Merging.pm_round_s]. rewrite IH, f_merge. reflexivity.
Qed.

Lemma pm_loop_map fuel : forall l, pm_loop B mergeB fuel (map f l) = option_map f (pm_loop A mergeA fuel l).
Proof.
  induction fuel as [|n IH]; intros l; [reflexivity|]. cbn [Merging.pm_loop]. rewrite map_length.
  destruct (1 <? length l)%nat.
  - rewrite !pm_round_eq, pm_round_s_map, <- IH. reflexivity.
  - apply nth_error_map.
Qed.

Theorem pm_map l : pm B mergeB (map f l) = option_map f (pm A mergeA l).
Proof. unfold Merging.pm. rewrite map_length. apply pm_loop_map. Qed.
End PMMap.

(* ====================================================================== *)
(* the worker loop                                                          *)
(* ====================================================================== *)
Lemma zsum_cons x l : zsum (x :: l) = x + zsum l.
Proof. reflexivity. Qed.

Section WorkerProofs.
Variables St Ops : Type.
Variable apply : St -> Ops -> St.
Variable add_records : St -> Z -> St.
Notation worker_loop := (worker_loop St Ops apply add_records).
Notation worker := (worker St Ops apply add_records).
Notation worker_final := (worker_final St Ops apply add_records).

(* the loop consumes exactly the items in front of its pill, leaves the rest of the queue
   alone, returns, and has added n_records exactly once *)
Theorem worker_loop_items items : forall rest st n,
  worker_loop (map Item items ++ Pill :: rest) st n =
  Some (add_records (fold_left apply (flat_map (effect Ops) items) st) (n + zsum (map (recs Ops) items)), rest).
Proof.
  induction items as [|o items IH]; intros rest st n.
  - cbn [map app Merging.worker_loop flat_map fold_left]. unfold zsum. cbn [fold_right]. rewrite Z.add_0_r. reflexivity.
  - cbn [map app Merging.worker_loop flat_map]. rewrite fold_left_app, zsum_cons, Z.add_assoc.
    destruct o; cbn [Merging.handle Merging.effect Merging.recs fold_left]; apply IH.
Qed.

(* without a pill it never returns *)
Theorem worker_loop_blocks items : forall st n, worker_loop (map Item items) st n = None.
Proof.
  induction items as [|o items IH]; intros st n; cbn [map Merging.worker_loop]; [reflexivity|].
  destruct (Merging.handle St Ops apply st o). apply IH.
Qed.

Theorem worker_queue_final outs order st0 :
  worker (worker_queue Ops outs order) st0 = Some (worker_final outs order st0, []).
Proof. unfold Merging.worker, Merging.worker_queue, Merging.worker_final. rewrite worker_loop_items. reflexivity. Qed.

(* every successful item's ops are applied, whole and in order *)
Theorem ok_ops_applied items o ops n : In o items -> o = Ok ops n -> In ops (flat_map (effect Ops) items).
Proof. intros Hin ->. apply in_flat_map. exists (Ok ops n). split; [exact Hin|left; reflexivity]. Qed.
End WorkerProofs.

(* only the successful items count *)
Theorem recs_ok_only {Ops} (items : list (outcome Ops)) :
  zsum (map (recs Ops) items) = zsum (map (recs Ops) (filter (is_ok Ops) items)).
Proof.
  induction items as [|o items IH]; [reflexivity|]. cbn [map filter]. rewrite zsum_cons, IH.
  destruct o; cbn [Merging.is_ok Merging.recs map]; rewrite ?zsum_cons; lia.
Qed.

(* when an item's ops are a list of steps, the worker sketch is the fold of the steps of
   its items as they took effect *)
Section ListOps.
Variables St X : Type.
Variable step : St -> X -> St.
Variable apply : St -> list X -> St.
Hypothesis apply_fold : forall st ops, apply st ops = fold_left step ops st.

Lemma eff_nth (outs : list (outcome (list X))) i : eff1 (nth i outs RaiseBefore) = nth i (eff_items outs) [].
Proof. unfold eff_items. pose proof (map_nth (@eff1 X) outs RaiseBefore i) as E. cbn [eff1] in E. symmetry. exact E. Qed.

Lemma eff_fold outs order : forall st,
  fold_left apply (flat_map (effect (list X)) (sched_items (list X) outs order)) st =
  fold_left step (flat_map (fun i => nth i (eff_items outs) []) order) st.
Proof.
  unfold sched_items. induction order as [|i order IH]; intros st; cbn [map flat_map]; [reflexivity|].
  rewrite !fold_left_app, <- eff_nth, <- IH. f_equal.
  destruct (nth i outs RaiseBefore); cbn [Merging.effect eff1 fold_left]; rewrite ?apply_fold; reflexivity.
Qed.
End ListOps.

Lemma eff_ok_outs {X} (items : list (list X * Z)) : eff_items (ok_outs items) = map fst items.
Proof. unfold eff_items, ok_outs. rewrite map_map. apply map_ext. reflexivity. Qed.
Lemma ok_ok_outs {X} (items : list (list X * Z)) : ok_items (ok_outs items) = map fst items.
Proof. unfold ok_items, ok_outs. rewrite map_map. apply map_ext. reflexivity. Qed.
Lemma recs_ok_outs {Ops} (items : list (Ops * Z)) : map (recs Ops) (ok_outs items) = map snd items.
Proof. unfold ok_outs. rewrite map_map. apply map_ext. reflexivity. Qed.
Lemma length_ok_outs {Ops} (items : list (Ops * Z)) : length (ok_outs items) = length items.
Proof. apply map_length. Qed.

(* sums over a valid schedule are sums over the items *)
Lemma sched_sum {A} (F : A -> Z) (d : A) (l : list A) sched :
  valid_sched (length l) sched ->
  zsum (map (fun order => zsum (map (fun i => F (nth i l d)) order)) sched) = zsum (map F l).
Proof.
  intros [_ HP]. rewrite <- (map_map (map (fun i => F (nth i l d))) zsum), <- zsum_concat, concat_map_map.
  rewrite (zsum_perm _ _ (Permutation_map _ HP)). rewrite map_nth_seq. reflexivity.
Qed.

(* membership in what the workers saw, all together = membership in the items *)
Lemma sched_in {A} (l : list (list A)) sched k :
  valid_sched (length l) sched ->
  (In k (flat_map (fun i => nth i l []) (concat sched)) <-> In k (concat l)).
Proof.
  intros [_ HP]. rewrite !in_flat_map.
  assert (E : concat l = flat_map (fun i => nth i l []) (seq 0 (length l))).
  { rewrite flat_map_concat_map. rewrite (map_nth_seq (fun x => x) [] l), map_id. reflexivity. }
  rewrite E, in_flat_map. split; intros (i & Hi & Hk); exists i; split; try exact Hk.
  - apply (Permutation_in _ HP). exact Hi.
  - apply (Permutation_in _ (Permutation_sym HP)). exact Hi.
Qed.

(* ====================================================================== *)
(* HyperLogLog instance                                                     *)
(* ====================================================================== *)
Lemma hll_worker_eval_gen p seed E order : forall h,
  hll_eval p seed (fold_left (fun h i => hl_adds h (nth i E [])) order h) =
  fold_left (fun s k => Hll.cls_add s k 1) (flat_map (fun i => nth i E []) order) (hll_eval p seed h).
Proof.
  induction order as [|i order IH]; intros h; cbn [fold_left flat_map]; [reflexivity|].
  rewrite IH, hl_adds_eval, fold_left_app. reflexivity.
Qed.

Lemma hll_worker_keys_gen E order : forall h,
  hll_keys_raw (fold_left (fun h i => hl_adds h (nth i E [])) order h) =
  hll_keys_raw h ++ flat_map (fun i => nth i E []) order.
Proof.
  induction order as [|i order IH]; intros h; cbn [fold_left flat_map]; [rewrite app_nil_r; reflexivity|].
  rewrite IH, hl_adds_keys_raw, app_assoc. reflexivity.
Qed.

Lemma hll_seq_keys_gen E : forall h, hll_keys_raw (fold_left hl_adds E h) = hll_keys_raw h ++ concat E.
Proof.
  induction E as [|it E IH]; intros h; cbn [fold_left concat]; [rewrite app_nil_r; reflexivity|].
  rewrite IH, hl_adds_keys_raw, app_assoc. reflexivity.
Qed.

(* the keys of the sequential sketch are the keys of all items *)
Theorem hll_seq_keys E : hll_keys_raw (hll_seq_hist E) = concat E.
Proof. unfold hll_seq_hist. rewrite hll_seq_keys_gen. reflexivity. Qed.

Lemma hll_worker_final p seed outs order :
  worker_final hll (list key) hll_apply hll_add_records outs order (hll_new p seed) =
  hll_eval p seed (hll_worker_hist (eff_items outs) order).
Proof.
  unfold Merging.worker_final, hll_add_records, hll_worker_hist.
  rewrite (eff_fold hll key (fun s k => Hll.cls_add s k 1) hll_apply (fun _ _ => eq_refl)).
  rewrite hll_worker_eval_gen. reflexivity.
Qed.

(* parallel_add over HyperLogLog, any outcomes, any schedule: the merged sketch has, register
   for register, the state of one sketch fed everything that took effect, in stream order *)
Theorem hll_pa_registers p seed (outs : list (outcome (list key))) sched :
  hll_params_ok p seed -> valid_sched (length outs) sched ->
  exists s, hll_pa p seed outs sched = Some s /\
    forall i, hll_registers s i = hll_reg p seed (hll_seq_hist (eff_items outs)) i.
Proof.
  intros Hp HV. set (E := eff_items outs).
  assert (HW : map (fun order => worker_final hll (list key) hll_apply hll_add_records outs order (hll_new p seed)) sched
               = map (hll_eval p seed) (map (hll_worker_hist E) sched)).
  { rewrite map_map. apply map_ext. intros order. apply hll_worker_final. }
  unfold hll_pa, pa_model. rewrite HW.
  rewrite (pm_map hll_hist hll HlMerge hll_merge_cls (hll_eval p seed) (fun _ _ => eq_refl)).
  destruct (pm hll_hist HlMerge (map (hll_worker_hist E) sched)) as [T|] eqn:ET.
  2:{ exfalso. revert ET. apply pm_total. destruct HV as [Hne _]. destruct sched; [congruence|discriminate]. }
  exists (hll_eval p seed T). split; [reflexivity|]. intros i.
  change (hll_reg p seed T i = hll_reg p seed (hll_seq_hist E) i). apply set_only_raw; [exact Hp|].
  intros k. rewrite hll_seq_keys.
  assert (HK : hll_keys_raw T = flat_map (fun i => nth i E []) (concat sched)).
  { destruct sched as [|o0 sched']; [destruct HV; congruence|]. cbn [map] in ET.
    rewrite (pm_measure hll_hist HlMerge (list key) (@app key) (fun a b c => eq_sym (app_assoc a b c))
               hll_keys_raw (fun _ _ => eq_refl) _ _ _ ET).
    rewrite fold_app_concat. rewrite map_map. cbn [concat]. rewrite flat_map_app, <- concat_map_flat_map.
    unfold hll_worker_hist. rewrite hll_worker_keys_gen. cbn [hll_keys_raw app]. f_equal. f_equal.
    apply map_ext. intros order. rewrite hll_worker_keys_gen. reflexivity. }
  rewrite HK. unfold E in *. rewrite <- (map_length (@eff1 key) outs) in HV. apply sched_in. exact HV.
Qed.

(* fault-free special case: the sequential sketch over the whole stream *)
Theorem C08_hll_thm p seed (items : list (list key * Z)) sched :
  hll_params_ok p seed -> valid_sched (length items) sched ->
  exists s, hll_pa p seed (ok_outs items) sched = Some s /\
    forall i, hll_registers s i = hll_reg p seed (hll_seq_hist (map fst items)) i.
Proof.
  intros Hp HV. rewrite <- (length_ok_outs items) in HV.
  destruct (hll_pa_registers p seed (ok_outs items) sched Hp HV) as (s & E & R).
  exists s. split; [exact E|]. intros i. rewrite R, eff_ok_outs. reflexivity.
Qed.

(* merge() between the worker sketches never raises (the None branch of hll_merge_cls is dead) *)
Theorem hll_pa_merge_never_raises p seed h1 h2 : hll_params_ok p seed ->
  cls_merge (hll_eval p seed h1) (hll_eval p seed h2) = Some (hll_merge_cls (hll_eval p seed h1) (hll_eval p seed h2)).
Proof.
  intros Hp. destruct (hist_merge_never_raises p seed h1 h2 Hp) as (s & E). unfold hll_merge_cls. rewrite E. reflexivity.
Qed.

(* ====================================================================== *)
(* linear count-min instance                                                *)
(* ====================================================================== *)
Lemma wf_eval_tree (t : tree hist) : wf (eval_tree hist HMerge t) <-> Forall wf (leaves t).
Proof.
  induction t as [h|a IHa b IHb]; cbn [eval_tree leaves].
  - split; [intros H; constructor; [exact H|constructor]|intros H; inversion H; assumption].
  - cbn [wf]. rewrite Forall_app. tauto.
Qed.

Lemma wf_cadds it : forall h, wf h -> item_wf it -> wf (cadds h it).
Proof.
  unfold cadds, item_wf. induction it as [|kv it IH]; intros h Hh Hit; cbn [fold_left]; [exact Hh|].
  inversion Hit; subst. apply IH; [|assumption]. cbn [wf]. auto.
Qed.

Lemma wf_worker_hist E order : Forall item_wf E -> wf (cms_worker_hist E order).
Proof.
  intros HE. unfold cms_worker_hist. assert (G : wf HEmpty) by exact I. revert G. generalize HEmpty.
  induction order as [|i order IH]; intros h Hh; cbn [fold_left]; [exact Hh|].
  apply IH. apply wf_cadds; [exact Hh|].
  destruct (nth_in_or_default i E []) as [Hin| ->]; [|constructor].
  rewrite Forall_forall in HE. apply HE. exact Hin.
Qed.

Lemma wf_seq_hist E : Forall item_wf E -> wf (cms_seq_hist E).
Proof.
  unfold cms_seq_hist. assert (G : wf HEmpty) by exact I. revert G. generalize HEmpty.
  induction E as [|it E IH]; intros h Hh HE; cbn [fold_left]; [exact Hh|].
  inversion HE; subst. apply IH; [|assumption]. apply wf_cadds; assumption.
Qed.

(* anything that adds up over add and merge: truth of a key, mass of a cell, total *)
Section Additive.
Variable mu : hist -> Z.
Variable g : key -> Z -> Z.
Hypothesis mu_empty : mu HEmpty = 0.
Hypothesis mu_add : forall h k v, mu (HAdd h k v) = mu h + g k v.
Hypothesis mu_merge : forall a b, mu (HMerge a b) = mu a + mu b.
Definition isum (it : cms_item) : Z := zsum (map (fun kv => g (fst kv) (snd kv)) it).

Lemma mu_cadds it : forall h, mu (cadds h it) = mu h + isum it.
Proof.
  unfold cadds, isum. induction it as [|kv it IH]; intros h; cbn [fold_left map].
  - unfold zsum. cbn [fold_right]. lia.
  - rewrite IH, mu_add, zsum_cons. lia.
Qed.

Lemma mu_worker_gen E order : forall h,
  mu (fold_left (fun h i => cadds h (nth i E [])) order h) = mu h + zsum (map (fun i => isum (nth i E [])) order).
Proof.
  induction order as [|i order IH]; intros h; cbn [fold_left map].
  - unfold zsum. cbn [fold_right]. lia.
  - rewrite IH, mu_cadds, zsum_cons. lia.
Qed.

Lemma mu_worker E order : mu (cms_worker_hist E order) = zsum (map (fun i => isum (nth i E [])) order).
Proof. unfold cms_worker_hist. rewrite mu_worker_gen, mu_empty. apply Z.add_0_l. Qed.

Lemma mu_seq_gen E : forall h, mu (fold_left cadds E h) = mu h + zsum (map isum E).
Proof.
  induction E as [|it E IH]; intros h; cbn [fold_left map].
  - unfold zsum. cbn [fold_right]. lia.
  - rewrite IH, mu_cadds, zsum_cons. lia.
Qed.

Lemma mu_seq E : mu (cms_seq_hist E) = zsum (map isum E).
Proof. unfold cms_seq_hist. rewrite mu_seq_gen, mu_empty. apply Z.add_0_l. Qed.

Lemma mu_workers_sum E sched : valid_sched (length E) sched ->
  zsum (map mu (map (cms_worker_hist E) sched)) = mu (cms_seq_hist E).
Proof.
  intros HV. rewrite map_map, mu_seq, <- (sched_sum isum [] E sched HV). f_equal.
  apply map_ext. intros order. apply mu_worker.
Qed.

(* the merge tree built by the rounds has the measure of the whole stream *)
Theorem mu_pm E sched T : valid_sched (length E) sched ->
  pm hist HMerge (map (cms_worker_hist E) sched) = Some T -> mu T = mu (cms_seq_hist E).
Proof.
  intros HV HT. rewrite <- (mu_workers_sum E sched HV).
  destruct sched as [|o0 sched']; [destruct HV; congruence|]. cbn [map] in HT |- *.
  rewrite (pm_measure hist HMerge Z Z.add (fun a b c => eq_sym (Z.add_assoc a b c)) mu mu_merge _ _ _ HT).
  rewrite fold_add_zsum, zsum_cons. reflexivity.
Qed.
End Additive.

Section CmsPAProofs.
Variable width depth : nat.
Variable bucket : nat -> key -> nat.
Notation eval := (CmsLinear.eval width depth bucket).
Notation step := (fun (s : sk) (kv : key * Z) => CmsLinear.cls_add depth bucket s (fst kv) (snd kv)).
Notation cms_pa := (cms_pa depth bucket).
Notation uncut := (uncut width depth bucket).

Lemma eval_cadds it : forall h, eval (cadds h it) = fold_left step it (eval h).
Proof.
  unfold cadds. induction it as [|kv it IH]; intros h; cbn [fold_left]; [reflexivity|]. rewrite IH. reflexivity.
Qed.

Lemma cms_worker_eval_gen E order : forall h,
  eval (fold_left (fun h i => cadds h (nth i E [])) order h) =
  fold_left step (flat_map (fun i => nth i E []) order) (eval h).
Proof.
  induction order as [|i order IH]; intros h; cbn [fold_left flat_map]; [reflexivity|].
  rewrite IH, eval_cadds, fold_left_app. reflexivity.
Qed.

Definition wrecs (outs : list (outcome cms_item)) (order : list nat) : Z :=
  zsum (map (recs cms_item) (sched_items cms_item outs order)).

Lemma cms_worker_final outs order :
  worker_final sk cms_item (cms_apply depth bucket) cms_add_records outs order empty =
  cms_add_records (eval (cms_worker_hist (eff_items outs) order)) (wrecs outs order).
Proof.
  unfold Merging.worker_final, cms_worker_hist, wrecs.
  rewrite (eff_fold sk (key * Z)%type step (cms_apply depth bucket) (fun _ _ => eq_refl)).
  rewrite cms_worker_eval_gen. reflexivity.
Qed.

(* the pairs (history, records) with the obvious merge map homomorphically to sketches *)
Definition mergeP (a b : hist * Z) : hist * Z := (HMerge (fst a) (fst b), snd a + snd b).
Definition realize (a : hist * Z) : sk := with_records (eval (fst a)) (snd a).

Lemma realize_merge a b : realize (mergeP a b) = CmsLinear.merge (realize a) (realize b).
Proof.
  unfold realize, mergeP, with_records, CmsLinear.merge. cbn [fst snd CmsLinear.eval cms n_added n_records].
  unfold CmsLinear.merge. cbn [cms n_added n_records]. f_equal. lia.
Qed.

Lemma wrecs_sum outs sched : valid_sched (length outs) sched ->
  zsum (map (wrecs outs) sched) = zsum (map (recs cms_item) outs).
Proof.
  intros HV. rewrite <- (sched_sum (recs cms_item) RaiseBefore outs sched HV). f_equal.
  apply map_ext. intros order. unfold wrecs, sched_items. rewrite map_map. reflexivity.
Qed.

Lemma wrecs_nonneg outs order : Forall (fun o => 0 <= recs cms_item o) outs -> 0 <= wrecs outs order.
Proof.
  intros H. unfold wrecs, sched_items. apply zsum_nonneg. rewrite map_map. apply Forall_forall.
  intros x Hx. apply in_map_iff in Hx. destruct Hx as (i & <- & _).
  destruct (nth_in_or_default i outs RaiseBefore) as [Hin| ->]; [|cbn; lia].
  rewrite Forall_forall in H. apply H. exact Hin.
Qed.

Lemma wrecs_range outs sched order : valid_sched (length outs) sched ->
  Forall (fun o => 0 <= recs cms_item o) outs -> zsum (map (recs cms_item) outs) < 2^64 ->
  In order sched -> 0 <= wrecs outs order < 2^64.
Proof.
  intros HV Hn Hs Hin. split; [apply wrecs_nonneg; exact Hn|].
  rewrite <- (wrecs_sum outs sched HV) in Hs.
  assert (wrecs outs order <= zsum (map (wrecs outs) sched)); [|lia].
  apply zsum_in_le; [|apply in_map; exact Hin].
  apply Forall_forall. intros x Hx. apply in_map_iff in Hx. destruct Hx as (o & <- & _). apply wrecs_nonneg. exact Hn.
Qed.

(* parallel_add over linear count-min, any outcomes, any schedule: the result is eval of the
   merge tree T the rounds build over the workers' histories, with n_records = the sum of the
   callback's return values over the successful items *)
Theorem cms_pa_spec (outs : list (outcome cms_item)) sched :
  valid_sched (length outs) sched ->
  Forall (fun o => 0 <= recs cms_item o) outs -> zsum (map (recs cms_item) outs) < 2^64 ->
  exists T, pm hist HMerge (map (cms_worker_hist (eff_items outs)) sched) = Some T /\
            cms_pa outs sched = Some (with_records (eval T) (zsum (map (recs cms_item) outs))).
Proof.
  intros HV Hn Hs. set (E := eff_items outs).
  set (L := map (fun order => (cms_worker_hist E order, wrecs outs order)) sched).
  assert (HW : map (fun order => worker_final sk cms_item (cms_apply depth bucket) cms_add_records outs order empty) sched
               = map realize L).
  { unfold L. rewrite map_map. apply map_ext_in. intros order Hin. rewrite cms_worker_final.
    pose proof (wrecs_range outs sched order HV Hn Hs Hin) as R. unfold cms_add_records, realize. cbn [fst snd].
    change two64m with (2^64). destruct (0 <=? wrecs outs order) eqn:E1; [|lia].
    destruct (wrecs outs order <? 2^64) eqn:E2; [|lia]. reflexivity. }
  unfold Merging.cms_pa, pa_model. rewrite HW. rewrite (pm_map _ _ mergeP CmsLinear.merge realize realize_merge).
  destruct (pm (hist * Z) mergeP L) as [[T N]|] eqn:EL.
  2:{ exfalso. revert EL. apply pm_total. unfold L. destruct HV as [Hne _]. destruct sched; [congruence|discriminate]. }
  pose proof (pm_map _ _ mergeP HMerge fst (fun _ _ => eq_refl) L) as H1. rewrite EL in H1. cbn [option_map fst] in H1.
  pose proof (pm_map _ _ mergeP Z.add snd (fun _ _ => eq_refl) L) as H2. rewrite EL in H2. cbn [option_map snd] in H2.
  unfold L in H1, H2. rewrite map_map in H1, H2. cbn [fst snd] in H1, H2.
  exists T. split; [exact H1|]. cbn [option_map]. unfold realize. cbn [fst snd]. do 2 f_equal.
  rewrite <- (wrecs_sum outs sched HV).
  destruct sched as [|o0 sched']; [destruct HV; congruence|]. cbn [map] in H2 |- *.
  rewrite (pm_fold Z Z.add (fun a b c => eq_sym (Z.add_assoc a b c))) in H2. injection H2 as <-.
  rewrite fold_add_zsum, zsum_cons. reflexivity.
Qed.

(* truth, mass and total of that tree are those of the whole stream of effective items *)
Theorem cms_tree_facts E sched T : valid_sched (length E) sched ->
  pm hist HMerge (map (cms_worker_hist E) sched) = Some T ->
  (forall k, truth T k = truth (cms_seq_hist E) k) /\
  (forall r c, mass bucket T r c = mass bucket (cms_seq_hist E) r c) /\
  total T = total (cms_seq_hist E) /\
  (Forall item_wf E -> wf T).
Proof.
  intros HV HT. repeat split.
  - intros k. exact (mu_pm (fun h => truth h k) (fun j v => if keqb k j then v else 0) eq_refl
                       (fun _ _ _ => eq_refl) (fun _ _ => eq_refl) E sched T HV HT).
  - intros r c. exact (mu_pm (fun h => mass bucket h r c) (fun j v => if (bucket r j =? c)%nat then v else 0) eq_refl
                         (fun _ _ _ => eq_refl) (fun _ _ => eq_refl) E sched T HV HT).
  - exact (mu_pm total (fun _ v => v) eq_refl (fun _ _ _ => eq_refl) (fun _ _ => eq_refl) E sched T HV HT).
  - intros HE. apply pm_tree in HT. destruct HT as (t & Hl & ->). apply wf_eval_tree. rewrite Hl.
    apply Forall_forall. intros h Hh. apply in_map_iff in Hh. destruct Hh as (order & <- & _).
    apply wf_worker_hist. exact HE.
Qed.

(* ---------- n_added ---------- *)
Lemma total_nonneg h : wf h -> 0 <= total h.
Proof. induction h; cbn [wf total]; intros; try lia; intuition lia. Qed.

Lemma mass_le_total h r c : wf h -> mass bucket h r c <= total h.
Proof.
  induction h as [|h IH k v|h1 IH1 h2 IH2|h IH]; cbn [wf mass total]; intros W; [lia| | |auto].
  - destruct W as [W Hv]. specialize (IH W). destruct (bucket r k =? c)%nat; lia.
  - destruct W as [W1 W2]. specialize (IH1 W1). specialize (IH2 W2). lia.
Qed.

Lemma nadded_uncut h : uncut h -> n_added (eval h) = total h.
Proof.
  induction h as [|h IH k v|h1 IH1 h2 IH2|h IH]; cbn [Merging.uncut CmsLinear.eval total]; intros U.
  - reflexivity.
  - destruct U as (U & Hv & Hq). rewrite C05_lin_nadded_uncut; [rewrite IH by exact U; reflexivity|apply Rng_eval|exact Hv|exact Hq].
  - destruct U as [U1 U2]. cbn [CmsLinear.merge n_added]. rewrite IH1, IH2 by assumption. reflexivity.
  - cbn [CmsLinear.saveload n_added]. apply IH. exact U.
Qed.

(* a concrete sufficient condition: the whole history adds no more than the ceiling *)
Lemma uncut_of_total h : (0 < depth)%nat -> wf h -> total h <= cap -> uncut h.
Proof.
  intros Hd. induction h as [|h IH k v|h1 IH1 h2 IH2|h IH]; cbn [wf total Merging.uncut]; intros W Ht.
  - exact I.
  - destruct W as [W Hv]. pose proof (total_nonneg h W). split; [apply IH; [exact W|lia]|]. split; [exact Hv|].
    pose proof (C01_upper width depth bucket h k 0%nat W Hd). pose proof (mass_le_total h 0%nat (bucket 0 k) W). lia.
  - destruct W as [W1 W2]. pose proof (total_nonneg h1 W1). pose proof (total_nonneg h2 W2).
    split; [apply IH1|apply IH2]; try assumption; lia.
  - apply IH; assumption.
Qed.

Theorem nadded_pm E sched T : valid_sched (length E) sched ->
  pm hist HMerge (map (cms_worker_hist E) sched) = Some T ->
  (forall order, In order sched -> uncut (cms_worker_hist E order)) ->
  n_added (eval T) = total (cms_seq_hist E).
Proof.
  intros HV HT HU.
  rewrite <- (mu_workers_sum total (fun _ v => v) eq_refl (fun _ _ _ => eq_refl) (fun _ _ => eq_refl) E sched HV).
  destruct sched as [|o0 sched']; [destruct HV; congruence|]. cbn [map] in HT.
  rewrite (pm_measure hist HMerge Z Z.add (fun a b c => eq_sym (Z.add_assoc a b c))
             (fun h => n_added (eval h)) (fun _ _ => eq_refl) _ _ _ HT).
  rewrite fold_add_zsum, map_map. cbn [map]. rewrite zsum_cons, map_map. f_equal.
  - apply nadded_uncut. apply HU. left. reflexivity.
  - f_equal. apply map_ext_in. intros order Hin. apply nadded_uncut. apply HU. right. exact Hin.
Qed.

Lemma workers_uncut_small E sched : valid_sched (length E) sched -> (0 < depth)%nat ->
  Forall item_wf E -> total (cms_seq_hist E) <= cap ->
  forall order, In order sched -> uncut (cms_worker_hist E order).
Proof.
  intros HV Hd HE Ht order Hin. apply uncut_of_total; [exact Hd|apply wf_worker_hist; exact HE|].
  rewrite <- (mu_workers_sum total (fun _ v => v) eq_refl (fun _ _ _ => eq_refl) (fun _ _ => eq_refl) E sched HV) in Ht.
  assert (total (cms_worker_hist E order) <= zsum (map total (map (cms_worker_hist E) sched))); [|lia].
  apply zsum_in_le; [|apply in_map, in_map; exact Hin].
  apply Forall_forall. intros x Hx. apply in_map_iff in Hx. destruct Hx as (h & <- & Hh).
  apply in_map_iff in Hh. destruct Hh as (o & <- & _). apply total_nonneg, wf_worker_hist. exact HE.
Qed.

(* ---------- the theorems of C08 (fault-free) ---------- *)
Theorem C08_inherits_thm (items : list (cms_item * Z)) sched :
  valid_sched (length items) sched ->
  Forall (fun it => 0 <= snd it) items -> zsum (map snd items) < 2^64 ->
  exists T : hist,
    pm hist HMerge (map (cms_worker_hist (map fst items)) sched) = Some T /\
    cms_pa (ok_outs items) sched = Some (with_records (eval T) (zsum (map snd items))) /\
    (forall k, truth T k = truth (cms_seq_hist (map fst items)) k) /\
    (forall r c, mass bucket T r c = mass bucket (cms_seq_hist (map fst items)) r c) /\
    total T = total (cms_seq_hist (map fst items)) /\
    (Forall item_wf (map fst items) -> wf T).
Proof.
  intros HV Hn Hs.
  assert (HV' : valid_sched (length (ok_outs items)) sched) by (rewrite length_ok_outs; exact HV).
  destruct (cms_pa_spec (ok_outs items) sched HV') as (T & HT & HP).
  - rewrite Forall_forall in Hn |- *. intros o Ho. apply in_map_iff in Ho. destruct Ho as (it & <- & Hit). apply Hn. exact Hit.
  - rewrite recs_ok_outs. exact Hs.
  - unfold cms_item in *. rewrite eff_ok_outs in HT. rewrite recs_ok_outs in HP. exists T. split; [exact HT|]. split; [exact HP|].
    apply (cms_tree_facts (map fst items) sched T); [rewrite map_length; exact HV|exact HT].
Qed.

Lemma query_with_records s n k : query depth bucket (with_records s n) k = query depth bucket s k.
Proof. reflexivity. Qed.

Theorem C08_sandwich_thm (items : list (cms_item * Z)) sched :
  (forall r k, (bucket r k < width)%nat) ->
  valid_sched (length items) sched ->
  Forall (fun it => 0 <= snd it) items -> zsum (map snd items) < 2^64 ->
  Forall item_wf (map fst items) ->
  exists s, cms_pa (ok_outs items) sched = Some s /\
    forall k, Z.min (truth (cms_seq_hist (map fst items)) k) cap <= query depth bucket s k /\
      forall r, (r < depth)%nat ->
        query depth bucket s k <= Z.min cap (mass bucket (cms_seq_hist (map fst items)) r (bucket r k)).
Proof.
  intros Hb HV Hn Hs HE. destruct (C08_inherits_thm items sched HV Hn Hs) as (T & _ & HP & Ht & Hm & _ & Hw).
  eexists. split; [exact HP|]. intros k. rewrite query_with_records. specialize (Hw HE). split.
  - rewrite <- Ht. apply C01_lower; assumption.
  - intros r Hr. rewrite <- Hm. apply C01_upper; assumption.
Qed.

Theorem C08_nrecords_thm (items : list (cms_item * Z)) sched :
  valid_sched (length items) sched ->
  Forall (fun it => 0 <= snd it) items -> zsum (map snd items) < 2^64 ->
  exists s, cms_pa (ok_outs items) sched = Some s /\ n_records s = zsum (map snd items).
Proof.
  intros HV Hn Hs. destruct (C08_inherits_thm items sched HV Hn Hs) as (T & _ & HP & _).
  eexists. split; [exact HP|]. cbn [with_records n_records].
  assert (Z0 : forall h, n_records (eval h) = 0).
  { induction h as [|h IH k v|h1 IH1 h2 IH2|h IH]; cbn [CmsLinear.eval]; [reflexivity| | |exact IH].
    - unfold CmsLinear.cls_add. rewrite add_linear_nrecords. exact IH.
    - cbn [CmsLinear.merge n_records]. rewrite IH1, IH2. reflexivity. }
  rewrite Z0. lia.
Qed.

Theorem C08_nadded_thm (items : list (cms_item * Z)) sched :
  valid_sched (length items) sched ->
  Forall (fun it => 0 <= snd it) items -> zsum (map snd items) < 2^64 ->
  (forall order, In order sched -> uncut (cms_worker_hist (map fst items) order)) ->
  exists s, cms_pa (ok_outs items) sched = Some s /\ n_added s = total (cms_seq_hist (map fst items)).
Proof.
  intros HV Hn Hs HU. destruct (C08_inherits_thm items sched HV Hn Hs) as (T & HT & HP & _).
  eexists. split; [exact HP|]. cbn [with_records n_added].
  apply (nadded_pm (map fst items) sched T); [rewrite map_length; exact HV|exact HT|exact HU].
Qed.

Theorem C08_nadded_small_thm (items : list (cms_item * Z)) sched :
  valid_sched (length items) sched ->
  Forall (fun it => 0 <= snd it) items -> zsum (map snd items) < 2^64 ->
  (0 < depth)%nat -> Forall item_wf (map fst items) -> total (cms_seq_hist (map fst items)) <= cap ->
  exists s, cms_pa (ok_outs items) sched = Some s /\ n_added s = total (cms_seq_hist (map fst items)).
Proof.
  intros HV Hn Hs Hd HE Ht. apply C08_nadded_thm; try assumption.
  apply workers_uncut_small; try assumption. rewrite map_length. exact HV.
Qed.

(* the total of the sequential history is the sum of all multiplicities *)
Theorem total_seq_hist E : total (cms_seq_hist E) = zsum (map item_total E).
Proof. exact (mu_seq total (fun _ v => v) eq_refl (fun _ _ _ => eq_refl) (fun _ _ => eq_refl) E). Qed.

(* ---------- C19: callback faults ---------- *)
Lemma isum_nonneg (g : key -> Z -> Z) it : (forall k v, 0 <= v -> 0 <= g k v) -> item_wf it -> 0 <= isum g it.
Proof.
  intros Hg H. unfold isum. apply zsum_nonneg. apply Forall_forall. intros x Hx. apply in_map_iff in Hx.
  destruct Hx as (kv & <- & Hkv). unfold item_wf in H. rewrite Forall_forall in H. apply Hg, H, Hkv.
Qed.

Lemma ok_le_eff (g : key -> Z -> Z) (outs : list (outcome cms_item)) :
  (forall k v, 0 <= v -> 0 <= g k v) -> Forall item_wf (eff_items outs) ->
  zsum (map (isum g) (ok_items outs)) <= zsum (map (isum g) (eff_items outs)).
Proof.
  intros Hg. unfold ok_items, eff_items. induction outs as [|o outs IH]; cbn [map]; intros H; [lia|].
  inversion H; subst. rewrite !zsum_cons. specialize (IH H3).
  destruct o; cbn [ok1 eff1] in *; try lia.
  pose proof (isum_nonneg g ops Hg H2). unfold isum at 1. cbn [map]. unfold zsum at 1. cbn [fold_right]. lia.
Qed.

Theorem C19_cms_thm (outs : list (outcome cms_item)) sched :
  (forall r k, (bucket r k < width)%nat) ->
  valid_sched (length outs) sched ->
  Forall (fun o => 0 <= recs cms_item o) outs -> zsum (map (recs cms_item) outs) < 2^64 ->
  Forall item_wf (eff_items outs) ->
  exists s, cms_pa outs sched = Some s /\
    n_records s = zsum (map (recs cms_item) (filter (is_ok cms_item) outs)) /\
    forall k,
      truth (cms_seq_hist (ok_items outs)) k <= truth (cms_seq_hist (eff_items outs)) k /\
      Z.min (truth (cms_seq_hist (ok_items outs)) k) cap <= query depth bucket s k /\
      forall r, (r < depth)%nat ->
        query depth bucket s k <= Z.min cap (mass bucket (cms_seq_hist (eff_items outs)) r (bucket r k)).
Proof.
  intros Hb HV Hn Hs HE. destruct (cms_pa_spec outs sched HV Hn Hs) as (T & HT & HP).
  assert (HV' : valid_sched (length (eff_items outs)) sched) by (unfold eff_items; rewrite map_length; exact HV).
  destruct (cms_tree_facts (eff_items outs) sched T HV' HT) as (Ht & Hm & _ & Hw). specialize (Hw HE).
  eexists. split; [exact HP|]. split.
  - cbn [with_records n_records]. rewrite <- recs_ok_only.
    assert (Z0 : forall h, n_records (eval h) = 0).
    { induction h as [|h IH k v|h1 IH1 h2 IH2|h IH]; cbn [CmsLinear.eval]; [reflexivity| | |exact IH].
      - unfold CmsLinear.cls_add. rewrite add_linear_nrecords. exact IH.
      - cbn [CmsLinear.merge n_records]. rewrite IH1, IH2. reflexivity. }
    rewrite Z0. lia.
  - intros k. rewrite query_with_records.
    assert (Hle : truth (cms_seq_hist (ok_items outs)) k <= truth (cms_seq_hist (eff_items outs)) k).
    { rewrite (mu_seq (fun h => truth h k) (fun j v => if keqb k j then v else 0) eq_refl (fun _ _ _ => eq_refl) (fun _ _ => eq_refl)).
      rewrite (mu_seq (fun h => truth h k) (fun j v => if keqb k j then v else 0) eq_refl (fun _ _ _ => eq_refl) (fun _ _ => eq_refl)).
      apply ok_le_eff; [|exact HE]. intros j v Hv. destruct (keqb k j); lia. }
    split; [exact Hle|]. split.
    + pose proof (C01_lower width depth bucket Hb T k Hw) as L. rewrite Ht in L. lia.
    + intros r Hr. rewrite <- Hm. apply C01_upper; assumption.
Qed.
End CmsPAProofs.

(* ====================================================================== *)
(* monitor loop and tail of parallel_add                                    *)
(* ====================================================================== *)
Lemma is_bad_spec c : is_bad c = true <-> c <> None /\ c <> Some 0.
Proof.
  destruct c as [z|]; cbn [is_bad].
  - rewrite negb_true_iff, Z.eqb_neq. split.
    + intros H. split; [discriminate|]. intros E. injection E as E. exact (H E).
    + intros [_ H] E. apply H. f_equal. exact E.
  - split; [discriminate|]. intros [H _]. congruence.
Qed.

Theorem monitor_decision_abort codes :
  monitor_decision codes = Abort <-> exists c, In c codes /\ c <> None /\ c <> Some 0.
Proof.
  unfold monitor_decision. destruct (existsb is_bad codes) eqn:E.
  - split; [intros _|reflexivity]. apply existsb_exists in E. destruct E as (c & Hin & Hb).
    exists c. split; [exact Hin|]. apply is_bad_spec. exact Hb.
  - split.
    + destruct (existsb is_none codes); discriminate.
    + intros (c & Hin & Hc). assert (H : existsb is_bad codes = true).
      { apply existsb_exists. exists c. split; [exact Hin|]. apply is_bad_spec. exact Hc. }
      congruence.
Qed.

Theorem monitor_decision_done codes :
  monitor_decision codes = Done <-> forall c, In c codes -> c = Some 0.
Proof.
  unfold monitor_decision. split.
  - intros H c Hin. destruct (existsb is_bad codes) eqn:E1; [discriminate|].
    destruct (existsb is_none codes) eqn:E2; [discriminate|].
    destruct c as [z|].
    + destruct (Z.eq_dec z 0) as [->|Hz]; [reflexivity|]. exfalso.
      assert (existsb is_bad codes = true); [|congruence]. apply existsb_exists. exists (Some z). split; [exact Hin|].
      cbn [is_bad]. apply negb_true_iff, Z.eqb_neq. exact Hz.
    + exfalso. assert (existsb is_none codes = true); [|congruence]. apply existsb_exists. exists None. auto.
  - intros H. destruct (existsb is_bad codes) eqn:E1.
    + apply existsb_exists in E1. destruct E1 as (c & Hin & Hb). rewrite (H c Hin) in Hb. discriminate.
    + destruct (existsb is_none codes) eqn:E2; [|reflexivity].
      apply existsb_exists in E2. destruct E2 as (c & Hin & Hb). rewrite (H c Hin) in Hb. discriminate.
Qed.

Definition no_merge (st : pa_state) : Prop := forall k, ~ In (EvMerge k) (trace st).
(* no merge was started; and if the log queue is closed then so is the work queue and both
   close events are on the trace *)
Definition Inv (st : pa_state) : Prop :=
  no_merge st /\
  (log_closed st = true ->
   queue_closed st = true /\ In EvCloseQueue (trace st) /\ In EvCloseLogQueue (trace st)).

Lemma Inv_start : Inv pa_start.
Proof. split; [intros k H; exact H|discriminate]. Qed.

Lemma abort_seq_inv n fa st : Inv st -> Inv (abort_seq n fa st) /\ log_closed (abort_seq n fa st) = true.
Proof.
  intros [Hm _]. split; [|reflexivity]. split.
  - intros k H. unfold abort_seq in H. cbn [trace] in H.
    apply in_app_or in H. destruct H as [H|H]; [exact (Hm k H)|].
    apply in_app_or in H. destruct H as [H|H].
    + apply in_map_iff in H. destruct H as (i & E & _). discriminate.
    + apply in_app_or in H. destruct H as [H|H].
      * destruct fa; cbn in H; intuition discriminate.
      * cbn in H. intuition discriminate.
  - intros _. unfold abort_seq. cbn [queue_closed trace]. split; [reflexivity|].
    split; apply in_or_app; right; apply in_or_app; right; apply in_or_app; right; cbn; auto.
Qed.

Lemma scan_facts n fa codes : forall a st, Inv st ->
  Inv (snd (monitor_scan n fa codes a st)) /\
  (log_closed st = true -> log_closed (snd (monitor_scan n fa codes a st)) = true) /\
  (existsb is_bad codes = true -> log_closed (snd (monitor_scan n fa codes a st)) = true) /\
  (existsb is_bad codes = false -> snd (monitor_scan n fa codes a st) = st) /\
  fst (monitor_scan n fa codes a st) = a || existsb is_none codes.
Proof.
  induction codes as [|c codes IH]; intros a st HI; cbn [monitor_scan existsb].
  - rewrite orb_false_r. cbn [fst snd]. split; [exact HI|]. split; [auto|]. split; [discriminate|]. split; auto.
  - destruct (is_none c) eqn:En.
    + assert (is_bad c = false) as -> by (destruct c; [discriminate|reflexivity]). cbn [orb].
      destruct (IH true st HI) as (I1 & I2 & I3 & I4 & I5). rewrite I5.
      split; [exact I1|]. split; [exact I2|]. split; [exact I3|]. split; [exact I4|cbn [orb]; rewrite ?orb_true_r; reflexivity].
    + destruct (is_bad c) eqn:Eb; cbn [orb].
      * destruct (abort_seq_inv n fa st HI) as [HI' Hc].
        destruct (IH a (abort_seq n fa st) HI') as (I1 & I2 & I3 & I4 & I5). rewrite I5.
        split; [exact I1|]. split; [auto|]. split; [auto|]. split; [discriminate|cbn [orb]; reflexivity].
      * destruct (IH a st HI) as (I1 & I2 & I3 & I4 & I5). rewrite I5.
        split; [exact I1|]. split; [exact I2|]. split; [exact I3|]. split; [exact I4|cbn [orb]; rewrite ?orb_true_r; reflexivity].
Qed.

Lemma monitor_inv n polls : forall st st', Inv st -> monitor n polls st = Some st' ->
  Inv st' /\ (log_closed st = true -> log_closed st' = true).
Proof.
  induction polls as [|[codes fa] polls IH]; intros st st' HI H; cbn [monitor] in H; [discriminate|].
  destruct (scan_facts n fa codes false st HI) as (I1 & I2 & _ & _ & _).
  destruct (monitor_scan n fa codes false st) as [an st1]. cbn [snd] in *.
  destruct an.
  - destruct (IH st1 st' I1 H) as [J1 J2]. auto.
  - injection H as <-. auto.
Qed.

(* while some worker is still running the loop goes on *)
Theorem monitor_waits n polls : forall st,
  Forall (fun p => existsb is_none (fst p) = true) polls -> Inv st -> monitor n polls st = None.
Proof.
  induction polls as [|[codes fa] polls IH]; intros st HF HI; cbn [monitor]; [reflexivity|].
  inversion HF; subst. cbn [fst] in *.
  destruct (scan_facts n fa codes false st HI) as (I1 & _ & _ & _ & I5).
  destruct (monitor_scan n fa codes false st) as [an st1]. cbn [fst snd] in *. rewrite H1 in I5. subst an.
  apply IH; assumption.
Qed.

(* a pass that sees a bad exit code closes both queues, and they stay closed *)
Theorem monitor_abort n pre codes fa post : forall st st',
  Forall (fun p => existsb is_none (fst p) = true) pre -> monitor_decision codes = Abort -> Inv st ->
  monitor n (pre ++ (codes, fa) :: post) st = Some st' -> Inv st' /\ log_closed st' = true.
Proof.
  induction pre as [|[c0 f0] pre IH]; intros st st' HF HA HI H; cbn [app monitor] in H.
  - assert (Eb : existsb is_bad codes = true).
    { unfold monitor_decision in HA. destruct (existsb is_bad codes); [reflexivity|].
      destruct (existsb is_none codes); discriminate. }
    destruct (scan_facts n fa codes false st HI) as (I1 & _ & I3 & _ & _). specialize (I3 Eb).
    destruct (monitor_scan n fa codes false st) as [an st1]. cbn [snd] in *.
    destruct an.
    + destruct (monitor_inv n post st1 st' I1 H) as [J1 J2]. auto.
    + injection H as <-. auto.
  - inversion HF; subst. cbn [fst] in *.
    destruct (scan_facts n f0 c0 false st HI) as (I1 & _ & _ & _ & I5).
    destruct (monitor_scan n f0 c0 false st) as [an st1]. cbn [fst snd] in *. rewrite H2 in I5. subst an.
    apply (IH st1 st'); assumption.
Qed.

(* no bad exit code ever seen: nothing is killed or closed *)
Theorem monitor_no_abort n polls : forall st st',
  Forall (fun p => existsb is_bad (fst p) = false) polls -> Inv st ->
  monitor n polls st = Some st' -> st' = st.
Proof.
  induction polls as [|[codes fa] polls IH]; intros st st' HF HI H; cbn [monitor] in H; [discriminate|].
  inversion HF; subst. cbn [fst] in *.
  destruct (scan_facts n fa codes false st HI) as (_ & _ & _ & I4 & _). specialize (I4 H2).
  destruct (monitor_scan n fa codes false st) as [an st1]. cbn [snd] in *. subst st1.
  destruct an; [apply IH; assumption|injection H as <-; reflexivity].
Qed.

Lemma merges_closed kinds st : log_closed st = true -> kinds <> [] -> merges kinds st = inl st.
Proof. intros H Hk. destruct kinds; [congruence|]. cbn [merges]. unfold log_put. rewrite H. reflexivity. Qed.

Lemma merges_open kinds : forall st, log_closed st = false ->
  exists st', merges kinds st = inr st' /\ log_closed st' = false /\ queue_closed st' = queue_closed st /\
              trace st' = trace st ++ flat_map (fun k => [EvLogPut; EvMerge k]) kinds.
Proof.
  induction kinds as [|k kinds IH]; intros st H; cbn [merges flat_map].
  - exists st. rewrite app_nil_r. auto.
  - unfold log_put. rewrite H.
    destruct (IH (emit [EvMerge k] (emit [EvLogPut] st)) H) as (st' & E & C & Q & T).
    exists st'. split; [exact E|]. split; [exact C|]. split; [exact Q|]. rewrite T. cbn [emit trace app].
    rewrite <- !app_assoc. reflexivity.
Qed.

(* with the log queue closed the very next log_queue.put raises: before any merge *)
Theorem pa_tail_closed n kinds st : log_closed st = true -> kinds <> [] ->
  pa_tail n kinds st = Raised (emit (EvJoinFill :: map EvJoinWorker (seq 0 n)) st).
Proof. intros H Hk. unfold pa_tail. rewrite merges_closed; [reflexivity|exact H|exact Hk]. Qed.

Theorem abort_raises_before_merge n kinds pre codes fa post res :
  kinds <> [] ->
  Forall (fun p => existsb is_none (fst p) = true) pre -> monitor_decision codes = Abort ->
  pa_run n kinds (pre ++ (codes, fa) :: post) = Some res ->
  exists st, res = Raised st /\ queue_closed st = true /\ log_closed st = true /\
             In EvCloseQueue (trace st) /\ In EvCloseLogQueue (trace st) /\
             forall k, ~ In (EvMerge k) (trace st).
Proof.
  intros Hk HF HA H. unfold pa_run in H.
  destruct (monitor n (pre ++ (codes, fa) :: post) pa_start) as [st|] eqn:EM; [|discriminate].
  injection H as <-. destruct (monitor_abort n pre codes fa post _ _ HF HA Inv_start EM) as [[Hm HI] Hc].
  destruct (HI Hc) as (Hq & H1 & H2). rewrite pa_tail_closed by assumption.
  eexists. split; [reflexivity|]. cbn [emit queue_closed log_closed trace].
  repeat split; try assumption; try (apply in_or_app; left; assumption).
  intros k Hin. apply in_app_or in Hin. destruct Hin as [Hin|Hin]; [exact (Hm k Hin)|].
  destruct Hin as [Hin|Hin]; [discriminate|]. apply in_map_iff in Hin. destruct Hin as (i & E & _). discriminate.
Qed.

Lemma filter_merge_joins l : filter is_merge_ev (map EvJoinWorker l) = [].
Proof. induction l as [|i l IH]; cbn [map filter is_merge_ev]; auto. Qed.

Lemma filter_merge_kinds kinds : filter is_merge_ev (flat_map (fun k => [EvLogPut; EvMerge k]) kinds) = map EvMerge kinds.
Proof. induction kinds as [|k kinds IH]; cbn [flat_map app filter is_merge_ev map]; [reflexivity|]. rewrite IH. reflexivity. Qed.

(* every worker exits with code 0: nothing is closed, every requested kind is merged, in order,
   and parallel_add returns *)
Theorem no_fault_returns n kinds polls res :
  Forall (fun p => existsb is_bad (fst p) = false) polls ->
  pa_run n kinds polls = Some res ->
  exists st, res = Returned st /\ log_closed st = false /\ queue_closed st = false /\
             filter is_merge_ev (trace st) = map EvMerge kinds.
Proof.
  intros HF H. unfold pa_run in H. destruct (monitor n polls pa_start) as [st|] eqn:EM; [|discriminate].
  injection H as <-. rewrite (monitor_no_abort n polls _ _ HF Inv_start EM). unfold pa_tail.
  destruct (merges_open kinds (emit (EvJoinFill :: map EvJoinWorker (seq 0 n)) pa_start) eq_refl) as (st2 & E & C & Q & T).
  rewrite E. unfold log_put. rewrite C. eexists. split; [reflexivity|]. cbn [emit log_closed queue_closed trace].
  split; [exact C|]. split; [rewrite Q; reflexivity|]. rewrite T. cbn [emit trace pa_start app].
  cbn [filter is_merge_ev]. rewrite !filter_app, filter_merge_kinds, filter_merge_joins.
  cbn [filter is_merge_ev app]. rewrite ?app_nil_r. reflexivity.
Qed.

(* ====================================================================== *)
(* corollaries in the form used by props/C19.v                              *)
(* ====================================================================== *)
Theorem worker_nrecords_ok_only (St Ops : Type) (apply : St -> Ops -> St) (add_records : St -> Z -> St)
        (outs : list (outcome Ops)) (order : list nat) (st0 : St) :
  worker St Ops apply add_records (worker_queue Ops outs order) st0 =
  Some (add_records (fold_left apply (flat_map (effect Ops) (sched_items Ops outs order)) st0)
                    (zsum (map (recs Ops) (filter (is_ok Ops) (sched_items Ops outs order)))), []).
Proof. rewrite worker_queue_final. unfold Merging.worker_final. rewrite <- recs_ok_only. reflexivity. Qed.

Lemma ok_in_eff {X} (outs : list (outcome (list X))) k :
  In k (concat (ok_items outs)) -> In k (concat (eff_items outs)).
Proof.
  unfold ok_items, eff_items. induction outs as [|o outs IH]; cbn [map concat]; [auto|].
  intros H. apply in_app_or in H. apply in_or_app. destruct H as [H|H]; [left|right; auto].
  destruct o; cbn [ok1 eff1] in *; auto. destruct H.
Qed.

(* HyperLogLog under callback faults: every key of every successful item is in the result *)
Theorem hll_pa_ok_items p seed (outs : list (outcome (list key))) sched :
  hll_params_ok p seed -> valid_sched (length outs) sched ->
  exists s, hll_pa p seed outs sched = Some s /\
    (forall i, hll_registers s i = hll_reg p seed (hll_seq_hist (eff_items outs)) i) /\
    (forall i, hll_reg p seed (hll_seq_hist (ok_items outs)) i <= hll_registers s i).
Proof.
  intros Hp HV. destruct (hll_pa_registers p seed outs sched Hp HV) as (s & E & R).
  exists s. split; [exact E|]. split; [exact R|]. intros i. rewrite R, !registers_raw by exact Hp.
  apply spec_reg_incl. intros k. rewrite !hll_seq_keys. apply ok_in_eff.
Qed.
