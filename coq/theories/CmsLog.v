(* CmsLog.v — model of the log-counter count-min sketches CountMinLog16 / CountMinLog8
   (countmin.py l.130-237 helpers, l.848-1133 log16 kernels, l.1136-1442 class,
    l.1445-1731 log8 kernels, l.1734-2018 class).
   Definitions only.  The row hash is a Section variable (DESIGN 3.3); libm pow enters only through
   the two input tables powneg / decode (DESIGN 3.4); the random draws are an explicit argument. *)
From Coq Require Import ZArith List Bool.
From Coq Require Import Floats.PrimFloat.
From Coq Require Uint63 Floats.FloatOps Floats.SpecFloat.
From Sketchnu Require Import Machine Consts Ngram.
Import ListNotations.
Open Scope Z_scope.

(* ------------------------------------------------------------------ floats <-> integers *)
(* float64(x) for an integer below 2^63 (uint8/uint16 counters, num_reserved): exact below 2^53 *)
Definition z2f (z : Z) : float := of_uint63 (Uint63.of_Z z).
(* float64(max_count), max_count : uint64 (LLVM uitofp, round to nearest even).  Above 2^63 the
   value does not fit Coq's 63-bit integers: halve with a sticky bit, convert, double (exact). *)
Definition u64_to_float (z : Z) : float :=
  if z <? 9223372036854775808 then z2f z
  else (z2f (Z.lor (Z.shiftr z 1) (Z.land z 1)) * 2)%float.
(* uintN(v) for a float v: truncation toward zero (LLVM fptoui) *)
Definition f2z_trunc (x : float) : Z :=
  match FloatOps.Prim2SF x with
  | SpecFloat.S754_finite s m e =>
      let a := if 0 <=? e then Zpos m * 2 ^ e else Zpos m / 2 ^ (- e) in
      if s then - a else a
  | _ => 0
  end.
Definition f_half : float := (0x1p-1)%float.
Definition f_one : float := (0x1p+0)%float.
Definition f_zero : float := (0x0p+0)%float.

(* ------------------------------------------------------------------ random source *)
(* rand_nums (current batch), rand_ptr, and the batches np.random.rand will return at the
   future refills (an input: DESIGN 3.4 "Randomness") *)
Record rsrc := { rbatch : list float; rptr : Z; rfuture : list (list float) }.

(* _rand l.157-184:
     if rand_ptr == uint64(2048): rand_batch[:] = np.random.rand(2048); rand_ptr = uint64(1)
     else: rand_ptr += uint64(1)
     return rand_batch[rand_ptr - uint64(1)], rand_ptr
   2048 in the test is Consts.rand_batch_cmp; the length of a refilled batch (Consts.rand_batch_gen)
   is a property of the stream (rs_wf in CmsLogProofs). *)
Definition rand (rs : rsrc) : float * rsrc :=
  if rptr rs =? rand_batch_cmp then
    let nb := hd [] (rfuture rs) in
    let p := 1 in
    (znth nb (p - 1) f_zero, {| rbatch := nb; rptr := p; rfuture := tl (rfuture rs) |})
  else
    let p := rptr rs + 1 in
    (znth (rbatch rs) (p - 1) f_zero, {| rbatch := rbatch rs; rptr := p; rfuture := rfuture rs |}).

(* n successive calls *)
Fixpoint draws (n : nat) (rs : rsrc) : list float * rsrc :=
  match n with
  | O => ([], rs)
  | S n' => let '(x, rs1) := rand rs in let '(xs, rs2) := draws n' rs1 in (x :: xs, rs2)
  end.

(* everything not yet consumed, in consumption order *)
Definition pending (rs : rsrc) : list float :=
  skipn (Z.to_nat (rptr rs)) (rbatch rs) ++ concat (rfuture rs).

(* ------------------------------------------------------------------ sketch state *)
Definition ltable := nat -> nat -> Z.          (* row -> column -> uint8/uint16 counter *)
Record lsk := { lcms : ltable; ln_added : Z; ln_records : Z; lrs : rsrc }.

Definition lempty (rs : rsrc) : lsk :=
  {| lcms := fun _ _ => 0; ln_added := 0; ln_records := 0; lrs := rs |}.

Section CmsLog.
Variable width depth : nat.
Variable bucket : nat -> key -> nat.
Variable nr umax : Z.            (* num_reserved; uint_maxval = 255 | 65535 *)
Variable max_count : Z.
Variable powneg : Z -> float.    (* powneg c' = base ** (-c'), c' = counter - num_reserved >= 0 *)
Variable decode : Z -> float.    (* decode c = _counter2value(c, num_reserved, base) *)
Variable castc : Z -> Z.         (* store into the counter array: wrap8 (log8) | wrap16 (log16) *)

(* ---------------- _log_counter l.192-237 ----------------
     for i in range(value):
         if counter >= uint_maxval: return counter, rand_ptr
         cprime = float64(counter) - float64(num_reserved)
         if cprime < 0: counter += one
         else:
             rand, rand_ptr = _rand(rand_nums, rand_ptr)
             if rand < base ** (-cprime): counter += one
     return counter, rand_ptr
   counter and num_reserved are below 2^16, so the float subtraction is exact and `cprime < 0`
   is the integer comparison; base ** (-cprime) is the table entry powneg (counter - nr).
   One loop iteration: None = the early return. *)
Definition lc_step (st : Z * rsrc) : option (Z * rsrc) :=
  let '(counter, rs) := st in
  if counter >=? umax then None
  else
    let cprime := counter - nr in
    if cprime <? 0 then Some (counter + 1, rs)
    else
      let '(r, rs') := rand rs in
      if PrimFloat.ltb r (powneg cprime) then Some (counter + 1, rs') else Some (counter, rs').

(* `for i in range(value)` with early return, by recursion on the binary numeral of value:
   the second half is skipped once the loop has returned, so value = 2^40 costs 40 steps after
   the ceiling is reached.  (true, st) = returned early. *)
Fixpoint lc_iter_pos (p : positive) (st : Z * rsrc) : bool * (Z * rsrc) :=
  match p with
  | xH => match lc_step st with None => (true, st) | Some st' => (false, st') end
  | xO q =>
      let '(stop, st1) := lc_iter_pos q st in
      if stop then (true, st1) else lc_iter_pos q st1
  | xI q =>
      match lc_step st with
      | None => (true, st)
      | Some st0 =>
          let '(stop, st1) := lc_iter_pos q st0 in
          if stop then (true, st1) else lc_iter_pos q st1
      end
  end.

Definition log_counter (counter : Z) (rs : rsrc) (value : Z) : Z * rsrc :=
  match value with
  | Zpos p => snd (lc_iter_pos p (counter, rs))
  | _ => (counter, rs)
  end.

(* the same loop by recursion on a unary count (used by the proofs; log_counter_nat_eq) *)
Fixpoint lc_iter_nat (n : nat) (st : Z * rsrc) : Z * rsrc :=
  match n with
  | O => st
  | S n' => match lc_step st with None => st | Some st' => lc_iter_nat n' st' end
  end.

(* ---------------- _query_log16 l.858-865 / _query_log8 l.1455-1462 ---------------- *)
Fixpoint lqrows (t : ltable) (k : key) (rows : list nat) (acc : Z) : Z :=
  match rows with
  | [] => acc
  | r :: rs => let c := t r (bucket r k) in lqrows t k rs (if c <? acc then c else acc)
  end.
Definition lquery_t (t : ltable) (k : key) : Z := lqrows t k (seq 0 depth) umax.
Definition lquery (s : lsk) (k : key) : Z := lquery_t (lcms s) k.
(* query() l.1267-1285 / l.1866-1884; __getitem__ l.809-813 *)
Definition lestimate (s : lsk) (k : key) : float := decode (lquery s k).
Definition lgetitem (s : lsk) (k : key) : float := lestimate s k.

(* ---------------- _add_log16 l.937-955 / _add_log8 l.1534-1555 ----------------
     n_added_records[0] += uint64(value)
     min_count = _query_log*(...)
     new_count, rand_ptr = _log_counter(min_count, ..., value)
     [log8 only: new_count = uint8(new_count)]
     if new_count == min_count: return rand_ptr
     for row in range(depth): if cms[row, buckets[row]] < new_count: cms[row, buckets[row]] = new_count *)
Definition add_log (s : lsk) (k : key) (value : Z) : lsk :=
  let na := ln_added s + value in
  let min_count := lquery s k in
  let '(new_count, rs') := log_counter min_count (lrs s) value in
  let new_count := castc new_count in
  if new_count =? min_count then
    {| lcms := lcms s; ln_added := na; ln_records := ln_records s; lrs := rs' |}
  else
    {| lcms := fun r c =>
         let old := lcms s r c in      (* one evaluation of the closure chain per cell *)
         if (r <? depth)%nat && (c =? bucket r k)%nat && (old <? new_count)
         then new_count else old;
       ln_added := na; ln_records := ln_records s; lrs := rs' |}.

(* CountMinLog16.add l.1287-1316 / CountMinLog8.add l.1886-1915: value is passed on unchanged *)
Definition lcls_add (s : lsk) (k : key) (value : Z) : lsk := add_log s k value.

(* update l.591-610 (inherited) *)
Definition lupdate_list (s : lsk) (ks : list key) : lsk := fold_left (fun s k => lcls_add s k 1) ks s.
Definition lupdate_dict (s : lsk) (kvs : list (key * Z)) : lsk :=
  fold_left (fun s kv => lcls_add s (fst kv) (snd kv)) kvs s.

(* _add_ngram_log16 l.1025-1057 / _add_ngram_log8 l.1624-1656: unit adds over the windows,
   rand_ptr threaded through *)
Definition ladd_ngram (s : lsk) (k : key) (n : Z) : lsk :=
  fold_left (fun s w => add_log s w 1) (ngram_windows k n) s.
(* update_ngram l.643-667 (inherited) *)
Definition lupdate_ngram (s : lsk) (ks : list key) (n : Z) : lsk :=
  fold_left (fun s k => ladd_ngram s k n) ks s.

(* ---------------- _merge_log16 l.1108-1133 / _merge_log8 l.1707-1731 ----------------
     v = _counter2value(cms[row,col]) + _counter2value(other_cms[row,col])
     if v <= num_reserved: cms = uintN(v)
     elif v >= max_count: cms = uint_maxval
     else:
         cprime = uintN(np.log((v - num_reserved) * (base - 1.0) + 1.0) / np.log(base))
         clower = cprime + num_reserved
         vlower = _counter2value(clower); vhigher = _counter2value(clower + uintN(1))
         delta = v - vlower
         if delta / (vhigher - vlower) <= 0.5: cms = clower else: cms = clower + uintN(1)
   DESIGN 3.4: the logarithm is only used to find the lower neighbour; the model finds the
   greatest counter c in [nr, umax] with decode c <= v by bisection over the table.
   clower + 1 is a 64-bit value: it is truncated to uint16 when passed to _counter2value and to
   uintN when stored. *)
Fixpoint find_lower (fuel : nat) (lo hi : Z) (v : float) : Z :=
  match fuel with
  | O => lo
  | S f =>
      if hi - lo <=? 1 then lo
      else let mid := (lo + hi) / 2 in
           if PrimFloat.leb (decode mid) v then find_lower f mid hi v else find_lower f lo mid v
  end.
Definition search_fuel : nat := 20.
Definition clower_of (v : float) : Z := find_lower search_fuel nr (umax + 1) v.

Definition merge_cell (mine other : Z) : Z :=
  let v := (decode mine + decode other)%float in
  if PrimFloat.leb v (z2f nr) then castc (f2z_trunc v)
  else if PrimFloat.leb (u64_to_float max_count) v then umax
  else
    let clower := clower_of v in
    let vlower := decode (wrap16 clower) in
    let vhigher := decode (wrap16 (clower + 1)) in
    let delta := (v - vlower)%float in
    if PrimFloat.leb (delta / (vhigher - vlower))%float f_half then castc clower
    else castc (clower + 1).

(* merge() l.1351-1392 / l.1950-1991 after its parameter guard; other is not written *)
Definition merge_log (a b : lsk) : lsk :=
  {| lcms := fun r c => merge_cell (lcms a r c) (lcms b r c);
     ln_added := ln_added a + ln_added b;
     ln_records := ln_records a + ln_records b;
     lrs := lrs a |}.

(* save l.1394-1414 / load l.1416-1442: a new object (fresh batch, rand_ptr = 0), table and
   special counters copied *)
Definition ltabulate (t : ltable) : list (list Z) :=
  map (fun r => map (fun c => t r c) (seq 0 width)) (seq 0 depth).
Definition lof_rows (rows : list (list Z)) : ltable :=
  fun r c => nth c (nth r rows []) 0.
Definition lsaveload (s : lsk) (rs : rsrc) : lsk :=
  {| lcms := lof_rows (ltabulate (lcms s)); ln_added := ln_added s; ln_records := ln_records s; lrs := rs |}.

(* ---------------- histories ----------------
   Every object owns its random source; a constructor call (LEmpty, and the load half of
   LSaveLoad) brings a new one.  Quantifying over histories quantifies over all draw streams. *)
Inductive lhist :=
| LEmpty (rs : rsrc)
| LAdd (h : lhist) (k : key) (v : Z)
| LNgram (h : lhist) (k : key) (n : Z)
| LMerge (h1 h2 : lhist)
| LSaveLoad (h : lhist) (rs : rsrc).

Fixpoint leval (h : lhist) : lsk :=
  match h with
  | LEmpty rs => lempty rs
  | LAdd h k v => lcls_add (leval h) k v
  | LNgram h k n => ladd_ngram (leval h) k n
  | LMerge h1 h2 => merge_log (leval h1) (leval h2)
  | LSaveLoad h rs => lsaveload (leval h) rs
  end.

Fixpoint count_key (k : key) (ws : list key) : Z :=
  match ws with
  | [] => 0
  | w :: ws' => (if keqb k w then 1 else 0) + count_key k ws'
  end.

(* true count of k: total multiplicity over all leaves (uncapped) *)
Fixpoint ltruth (h : lhist) (k : key) : Z :=
  match h with
  | LEmpty _ => 0
  | LAdd h j v => ltruth h k + (if keqb k j then v else 0)
  | LNgram h j n => ltruth h k + count_key k (ngram_windows j n)
  | LMerge h1 h2 => ltruth h1 k + ltruth h2 k
  | LSaveLoad h _ => ltruth h k
  end.

Fixpoint ltotal (h : lhist) : Z :=
  match h with
  | LEmpty _ => 0
  | LAdd h _ v => ltotal h + v
  | LNgram h j n => ltotal h + Z.of_nat (length (ngram_windows j n))
  | LMerge h1 h2 => ltotal h1 + ltotal h2
  | LSaveLoad h _ => ltotal h
  end.

(* keys added anywhere in the history *)
Fixpoint lkeys (h : lhist) : list key :=
  match h with
  | LEmpty _ => []
  | LAdd h j _ => j :: lkeys h
  | LNgram h j n => ngram_windows j n ++ lkeys h
  | LMerge h1 h2 => lkeys h1 ++ lkeys h2
  | LSaveLoad h _ => lkeys h
  end.

Fixpoint lmerge_free (h : lhist) : Prop :=
  match h with
  | LEmpty _ => True
  | LAdd h _ _ => lmerge_free h
  | LNgram h _ _ => lmerge_free h
  | LMerge _ _ => False
  | LSaveLoad h _ => lmerge_free h
  end.

(* every draw of the source is < 1.0 (it is >= 0 as well; only < 1 matters to the counters) *)
Definition draw_ok (x : float) : Prop := PrimFloat.ltb x f_one = true.
Definition rs_draws_ok (rs : rsrc) : Prop :=
  Forall draw_ok (rbatch rs) /\ Forall (Forall draw_ok) (rfuture rs).

(* well-formed: multiplicities are non-negative (uint64), all draws < 1 *)
Fixpoint lwf (h : lhist) : Prop :=
  match h with
  | LEmpty rs => rs_draws_ok rs
  | LAdd h _ v => lwf h /\ 0 <= v
  | LNgram h _ _ => lwf h
  | LMerge h1 h2 => lwf h1 /\ lwf h2
  | LSaveLoad h rs => lwf h /\ rs_draws_ok rs
  end.

(* API-level history: every public entry point *)
Inductive lahist :=
| LAEmpty (rs : rsrc)
| LAAdd (h : lahist) (k : key) (v : Z)
| LAUpdateList (h : lahist) (ks : list key)
| LAUpdateDict (h : lahist) (kvs : list (key * Z))
| LANgram (h : lahist) (k : key) (n : Z)
| LAUpdateNgram (h : lahist) (ks : list key) (n : Z)
| LAMerge (h1 h2 : lahist)
| LASaveLoad (h : lahist) (rs : rsrc).

Fixpoint laeval (h : lahist) : lsk :=
  match h with
  | LAEmpty rs => lempty rs
  | LAAdd h k v => lcls_add (laeval h) k v
  | LAUpdateList h ks => lupdate_list (laeval h) ks
  | LAUpdateDict h kvs => lupdate_dict (laeval h) kvs
  | LANgram h k n => ladd_ngram (laeval h) k n
  | LAUpdateNgram h ks n => lupdate_ngram (laeval h) ks n
  | LAMerge h1 h2 => merge_log (laeval h1) (laeval h2)
  | LASaveLoad h rs => lsaveload (laeval h) rs
  end.

Fixpoint ldesugar (h : lahist) : lhist :=
  match h with
  | LAEmpty rs => LEmpty rs
  | LAAdd h k v => LAdd (ldesugar h) k v
  | LAUpdateList h ks => fold_left (fun h k => LAdd h k 1) ks (ldesugar h)
  | LAUpdateDict h kvs => fold_left (fun h kv => LAdd h (fst kv) (snd kv)) kvs (ldesugar h)
  | LANgram h k n => LNgram (ldesugar h) k n
  | LAUpdateNgram h ks n => fold_left (fun h k => LNgram h k n) ks (ldesugar h)
  | LAMerge h1 h2 => LMerge (ldesugar h1) (ldesugar h2)
  | LASaveLoad h rs => LSaveLoad (ldesugar h) rs
  end.

End CmsLog.

(* the two classes: only the store cast differs (log16: the uint16 array; log8: uint8(new_count)) *)
Definition add_log16 depth bucket nr umax powneg := add_log depth bucket nr umax powneg wrap16.
Definition add_log8 depth bucket nr umax powneg := add_log depth bucket nr umax powneg wrap8.
Definition merge_cell16 nr umax max_count decode := merge_cell nr umax max_count decode wrap16.
Definition merge_cell8 nr umax max_count decode := merge_cell nr umax max_count decode wrap8.

(* ------------------------------------------------------------------ table hypotheses (DESIGN 3.4),
   as boolean checks evaluated on the concrete tables read from the implementation *)
Definition f_eqb (x y : float) : bool := PrimFloat.eqb x y.
(* [lo; lo+1; ...; lo+n-1], linear time under vm_compute *)
Fixpoint zrange_aux (n : nat) (lo : Z) : list Z :=
  match n with O => [] | S n' => lo :: zrange_aux n' (lo + 1) end.
Definition zrange (lo n : Z) : list Z := zrange_aux (Z.to_nat n) lo.

Definition decode_reserved_b (nr : Z) (decode : Z -> float) : bool :=
  forallb (fun c => f_eqb (decode c) (z2f c)) (zrange 0 (nr + 2)).
Definition decode_increasing_b (umax : Z) (decode : Z -> float) : bool :=
  forallb (fun c => PrimFloat.ltb (decode c) (decode (c + 1))) (zrange 0 umax).
Definition powneg_ok_b (nr umax : Z) (powneg : Z -> float) : bool :=
  f_eqb (powneg 0) f_one &&
  forallb (fun c => PrimFloat.ltb (powneg (c + 1)) (powneg c) && PrimFloat.ltb f_zero (powneg (c + 1)))
          (zrange 0 (umax - nr)).

(* exact dyadic value of a finite float: (m, e) with value m * 2^e.
   f2me_spec reads it off the standard library's Prim2SF; f2me computes the same pair straight from
   the primitives frshiftexp / normfr_mantissa (20x faster under vm_compute; the harness compares
   the two on a sample of every table). *)
Definition f2me_spec (x : float) : Z * Z :=
  match FloatOps.Prim2SF x with
  | SpecFloat.S754_finite s m e => (if s then Zneg m else Zpos m, e)
  | _ => (0, 0)
  end.
Definition is_finite_b (x : float) : bool := PrimFloat.eqb (x - x)%float f_zero.
Definition f2me (x : float) : Z * Z :=
  let '(r, ex) := frshiftexp (PrimFloat.abs x) in
  let m := Uint63.to_Z (normfr_mantissa r) in
  ((if PrimFloat.ltb x f_zero then - m else m), Uint63.to_Z ex - 2101 - 53).
(* same value: m1 * 2^e1 = m2 * 2^e2 *)
Definition dy_eqb (a b : Z * Z) : bool :=
  let e := Z.min (snd a) (snd b) in
  Z.shiftl (fst a) (snd a - e) =? Z.shiftl (fst b) (snd b - e).
Definition f2me_agree_b (tab : Z -> float) (cs : list Z) : bool :=
  forallb (fun c => dy_eqb (f2me (tab c)) (f2me_spec (tab c))) cs.
(* |a - b| <= 2^(-k) * |b| for dyadic a = (ma,ea), b = (mb,eb), exactly *)
Definition dy_close (k : Z) (a b : Z * Z) : bool :=
  let '(ma, ea) := a in let '(mb, eb) := b in
  let e := Z.min ea eb in
  let xa := Z.shiftl ma (ea - e) in let xb := Z.shiftl mb (eb - e) in
  Z.shiftl (Z.abs (xa - xb)) k <=? Z.abs xb.
Definition dy_mul (a b : Z * Z) : Z * Z := (fst a * fst b, snd a + snd b).
Definition dy_add (a b : Z * Z) : Z * Z :=
  let e := Z.min (snd a) (snd b) in (Z.shiftl (fst a) (snd a - e) + Z.shiftl (fst b) (snd b - e), e).
Definition dy_of_Z (z : Z) : Z * Z := (z, 0).
(* powneg (c+1) * base = powneg c   within 2^-k relative, in exact arithmetic *)
Definition powneg_recurrence_b (k : Z) (base : float) (powneg : Z -> float) (cs : list Z) : bool :=
  forallb (fun c => is_finite_b (powneg c) && is_finite_b (powneg (c + 1)) &&
                    dy_close k (dy_mul (f2me (powneg (c + 1))) (f2me base)) (f2me (powneg c))) cs.
(* decode (c+1) = base * (decode c - nr) + 1 + nr  up to  2^-k * (2 * decode (c+1) - nr + 1 / (base - 1)):
   the two error sources of _counter2value are the rounding at the magnitude of the value and the
   cancellation in base**c' - 1, which is amplified by 1 / (base - 1).  Multiplied through by
   base - 1 the test is division free:  |diff| * (base - 1) * 2^k <= (2 * decode (c+1) - nr) * (base - 1) + 1 *)
Definition dy_neg (a : Z * Z) : Z * Z := (- fst a, snd a).
Definition decode_recurrence_b (k nr : Z) (base : float) (decode : Z -> float) (cs : list Z) : bool :=
  let bm1 := dy_add (f2me base) (dy_of_Z (-1)) in
  forallb (fun c =>
     is_finite_b (decode c) && is_finite_b (decode (c + 1)) &&
     let d1 := f2me (decode (c + 1)) in
     let rhs := dy_add (dy_add (dy_mul (f2me base) (dy_add (f2me (decode c)) (dy_of_Z (- nr)))) (dy_of_Z 1))
                       (dy_of_Z nr) in
     let diff := dy_add d1 (dy_neg rhs) in
     let T := dy_add (dy_mul (dy_add (dy_add d1 d1) (dy_of_Z (- nr))) bm1) (dy_of_Z 1) in
     dy_close k (dy_add (dy_mul diff bm1) T) T) cs.

(* ------------------------------------------------------------------ the conditions on a decode table under
   which CmsLogFloat.v proves the merge cell rule for every pair of counters (one evaluation per
   configuration, linear in the table) *)
Definition fin_b (x : float) : bool :=
  match FloatOps.Prim2SF x with SpecFloat.S754_zero _ | SpecFloat.S754_finite _ _ _ => true | _ => false end.
Definition f_big : float := (0x1p+900)%float.
Definition f_mone : float := (-0x1p+0)%float.

Definition float_tables_ok_b (nr umax max_count : Z) (decode : Z -> float) : bool :=
  let mcf := u64_to_float max_count in
  let nextf := decode (wrap16 (umax + 1)) in
  let topf := decode umax in
  (0 <=? nr) && (nr <? umax) && (umax <? 2 ^ 16) &&
  forallb (fun c => fin_b (decode c) && PrimFloat.ltb (decode c) (decode (c + 1))) (zrange 0 umax) &&
  fin_b topf &&
  forallb (fun c => PrimFloat.eqb (decode c) (z2f c)) (zrange 0 (nr + 2)) &&
  PrimFloat.leb topf f_big &&
  fin_b mcf && PrimFloat.leb f_zero mcf && PrimFloat.leb mcf f_big &&
  fin_b nextf && PrimFloat.leb f_zero nextf && PrimFloat.leb nextf f_big &&
  (PrimFloat.leb mcf topf ||
   (PrimFloat.leb f_one (nextf - topf) && PrimFloat.leb ((mcf - topf) / (nextf - topf)) f_half) ||
   PrimFloat.leb (nextf - topf) f_mone).

(* the two extra conditions of C09_log_empty (CmsLogFloat.v) as a boolean *)
Definition float_tables_empty_ok_b (nr umax max_count : Z) (decode : Z -> float) : bool :=
  forallb (fun c => PrimFloat.ltb f_zero (decode (c + 1) - decode c)) (zrange nr (umax - nr)) &&
  PrimFloat.ltb (decode (umax - 1)) (u64_to_float max_count).


(* ------------------------------------------------------------------ per-configuration reflection for
   the merge cell rule: every pair of counters of one concrete configuration, by evaluation *)
Definition merge_pair_ok_b (nr umax max_count : Z) (decode : Z -> float) (castc : Z -> Z) (a b : Z) : bool :=
  let m := merge_cell nr umax max_count decode castc a b in
  (Z.max a b <=? m) && (m <=? umax) && (Z.min (a + b) (nr + 1) <=? m) &&
  (m =? merge_cell nr umax max_count decode castc b a) &&
  (if a + b <=? nr then m =? a + b else true) &&
  (if b =? 0 then m =? a else true).
Definition merge_grid_b (nr umax max_count : Z) (decode : Z -> float) (castc : Z -> Z) : bool :=
  forallb (fun a => forallb (fun b => merge_pair_ok_b nr umax max_count decode castc a b)
                            (zrange 0 (umax + 1))) (zrange 0 (umax + 1)).
(* "nearest": the chosen counter is at least as close to v as every other counter, in binary64
   (|decode m - v| <= |decode c - v|), whenever the pair falls in the rounding branch *)
Definition merge_nearest_pair_b (nr umax max_count : Z) (decode : Z -> float) (castc : Z -> Z) (a b : Z) : bool :=
  let v := (decode a + decode b)%float in
  if PrimFloat.leb v (z2f nr) then true
  else if PrimFloat.leb (u64_to_float max_count) v then true
  else
    let m := merge_cell nr umax max_count decode castc a b in
    let dm := PrimFloat.abs (decode m - v)%float in
    forallb (fun c => PrimFloat.leb dm (PrimFloat.abs (decode c - v)%float)) (zrange 0 (umax + 1)).
Definition merge_nearest_grid_b (nr umax max_count : Z) (decode : Z -> float) (castc : Z -> Z) : bool :=
  forallb (fun a => forallb (fun b => merge_nearest_pair_b nr umax max_count decode castc a b)
                            (zrange 0 (umax + 1))) (zrange 0 (umax + 1)).

(* ------------------------------------------------------------------ helpers for generated case files *)
Definition tab_of (l : list float) : Z -> float := fun z => if z <? 0 then f_zero else znth l z f_zero.
(* a long table given in chunks of 2048 entries (a 65536-element list literal overflows coqc's stack) *)
Definition tab2_of (chunks : list (list float)) : Z -> float :=
  fun z => if z <? 0 then f_zero else znth (znth chunks (z / 2048) []) (z mod 2048) f_zero.
Fixpoint assoc_f (l : list (Z * float)) (z : Z) : float :=
  match l with
  | [] => f_zero
  | (a, x) :: l' => if a =? z then x else assoc_f l' z
  end.
(* a table as a binary trie over the index (O(log n) lookup under vm_compute); index z lives at
   the positive z + 1 *)
Inductive ftree := FLeaf | FNode (l : ftree) (x : float) (r : ftree).
Fixpoint ft_get (t : ftree) (p : positive) : float :=
  match t with
  | FLeaf => f_zero
  | FNode l x r => match p with xH => x | xO q => ft_get l q | xI q => ft_get r q end
  end.
Fixpoint ft_set (t : ftree) (p : positive) (v : float) : ftree :=
  match p with
  | xH => match t with FLeaf => FNode FLeaf v FLeaf | FNode l _ r => FNode l v r end
  | xO q => match t with FLeaf => FNode (ft_set FLeaf q v) f_zero FLeaf | FNode l x r => FNode (ft_set l q v) x r end
  | xI q => match t with FLeaf => FNode FLeaf f_zero (ft_set FLeaf q v) | FNode l x r => FNode l x (ft_set r q v) end
  end.
Definition ft_of_list (l : list float) : ftree :=
  snd (fold_left (fun it x => (Pos.succ (fst it), ft_set (snd it) (fst it) x)) l (1%positive, FLeaf)).
Definition ft_of_chunks (chunks : list (list float)) : ftree :=
  snd (fold_left (fun it ch => fold_left (fun it x => (Pos.succ (fst it), ft_set (snd it) (fst it) x)) ch it)
                 chunks (1%positive, FLeaf)).
Definition tabt_of (t : ftree) : Z -> float :=
  fun z => if z <? 0 then f_zero else ft_get t (Z.to_pos (z + 1)).

(* bucket map observed on the implementation: key -> column per row *)
Fixpoint bucket_of (al : list (key * list Z)) (r : nat) (k : key) : nat :=
  match al with
  | [] => O
  | (j, cols) :: al' => if keqb j k then Z.to_nat (nth r cols 0) else bucket_of al' r k
  end.
(* a batch of rand_batch_gen values given by a short explicit stretch starting at position pre,
   zero elsewhere (the harness writes the same array into rand_nums) *)
Definition mk_batch (pre : Z) (vals : list float) : list float :=
  repeat f_zero (Z.to_nat pre) ++ vals ++
  repeat f_zero (Z.to_nat (rand_batch_gen - pre - Z.of_nat (length vals))).
Definition mk_rs (pre : Z) (vals : list float) (ptr : Z) (fut : list (list float)) : rsrc :=
  {| rbatch := mk_batch pre vals; rptr := ptr; rfuture := map (mk_batch 0) fut |}.

Fixpoint flist_eqb (a b : list float) : bool :=
  match a, b with
  | [], [] => true
  | x :: a', y :: b' => f_eqb x y && flist_eqb a' b'
  | _, _ => false
  end.

(* operations of the correspondence cases *)
Inductive lop :=
| OAdd (k : key) (v : Z)
| ONgram (k : key) (n : Z)
| OUpdList (ks : list key)
| OUpdDict (kvs : list (key * Z))
| OUpdNgram (ks : list key) (n : Z)
| OMerge (rows : list (list Z)) (na nrec : Z)      (* merge with another sketch given by its state *)
| OSetTable (rows : list (list Z))                 (* harness writes the counter array *)
| OSetRand (pre : Z) (vals : list float) (ptr : Z) (fut : list (list float))
| OSaveLoad (pre : Z) (vals : list float) (ptr : Z) (fut : list (list float)).

Section Run.
Variable width depth : nat.
Variable bucket : nat -> key -> nat.
Variable nr umax max_count : Z.
Variable powneg decode : Z -> float.
Variable castc : Z -> Z.

Definition run_op (s : lsk) (o : lop) : lsk :=
  match o with
  | OAdd k v => lcls_add depth bucket nr umax powneg castc s k v
  | ONgram k n => ladd_ngram depth bucket nr umax powneg castc s k n
  | OUpdList ks => lupdate_list depth bucket nr umax powneg castc s ks
  | OUpdDict kvs => lupdate_dict depth bucket nr umax powneg castc s kvs
  | OUpdNgram ks n => lupdate_ngram depth bucket nr umax powneg castc s ks n
  | OMerge rows na nrec =>
      merge_log nr umax max_count decode castc s
        {| lcms := lof_rows rows; ln_added := na; ln_records := nrec; lrs := lrs s |}
  | OSetTable rows =>
      {| lcms := lof_rows rows; ln_added := ln_added s; ln_records := ln_records s; lrs := lrs s |}
  | OSetRand pre vals ptr fut =>
      {| lcms := lcms s; ln_added := ln_added s; ln_records := ln_records s; lrs := mk_rs pre vals ptr fut |}
  | OSaveLoad pre vals ptr fut => lsaveload width depth s (mk_rs pre vals ptr fut)
  end.

(* observable snapshot: table rows, n_added, n_records, rand_ptr *)
Definition snapshot (s : lsk) : list (list Z) * Z * Z * Z :=
  (ltabulate width depth (lcms s), ln_added s, ln_records s, rptr (lrs s)).

Fixpoint run_ops (s : lsk) (ops : list lop) : list (list (list Z) * Z * Z * Z) :=
  match ops with
  | [] => []
  | o :: ops' => let s' := run_op s o in
                 (* force the table so that closure chains stay short *)
                 let s'' := {| lcms := lof_rows (ltabulate width depth (lcms s')); ln_added := ln_added s';
                               ln_records := ln_records s'; lrs := lrs s' |} in
                 snapshot s' :: run_ops s'' ops'
  end.
End Run.

Fixpoint zrows_eqb (a b : list (list Z)) : bool :=
  match a, b with
  | [], [] => true
  | x :: a', y :: b' =>
      (fix eqb (u v : list Z) : bool :=
         match u, v with
         | [], [] => true
         | p :: u', q :: v' => (p =? q) && eqb u' v'
         | _, _ => false
         end) x y && zrows_eqb a' b'
  | _, _ => false
  end.
Definition snap_eqb (a b : list (list Z) * Z * Z * Z) : bool :=
  let '(ra, na, ca, pa) := a in let '(rb, nb, cb, pb) := b in
  zrows_eqb ra rb && (na =? nb) && (ca =? cb) && (pa =? pb).
Fixpoint snaps_eqb (a b : list (list (list Z) * Z * Z * Z)) : bool :=
  match a, b with
  | [], [] => true
  | x :: a', y :: b' => snap_eqb x y && snaps_eqb a' b'
  | _, _ => false
  end.

(* ---- single-step grid (C06): one add(key, 1) on a 1 x 1 sketch holding c, for five draws placed
   around t = base ** (-(c - nr)); the row carries the implementation's outcome as bit masks *)
Definition fix_draw (d : float) : float := if PrimFloat.ltb d f_one then d else f_half.
Definition placements (t : float) : list float :=
  [f_zero; fix_draw (next_down t); fix_draw t; fix_draw (next_up t); (0x1.fffffffffffffp-1)%float].
Definition bit (m j : Z) : Z := Z.land (Z.shiftr m j) 1.
Definition step_row_ok (nr umax : Z) (castc : Z -> Z) (row : Z * float * Z * Z) : bool :=
  let '(c, t, dmask, pmask) := row in
  let pn := fun z => if z =? c - nr then t else nan in
  forallb (fun jd : Z * float =>
     let '(j, d) := jd in
     let s := {| lcms := fun _ _ => c; ln_added := 0; ln_records := 0;
                 lrs := {| rbatch := [d]; rptr := 0; rfuture := [] |} |} in
     let s' := lcls_add 1 (fun _ _ => O) nr umax pn castc s [] 1 in
     (lcms s' O O =? c + bit dmask j) && (rptr (lrs s') =? bit pmask j) && (ln_added s' =? 1))
    (combine [0; 1; 2; 3; 4] (placements t)).

(* ---- history cases: (width, depth, bucket map, ops, snapshots after every op) *)
Definition hist_case_ok (nr umax max_count : Z) (pn dc : Z -> float) (castc : Z -> Z)
  (case : Z * Z * list (key * list Z) * list lop * list (list (list Z) * Z * Z * Z)) : bool :=
  let '(w, d, bk, ops, expected) := case in
  snaps_eqb (run_ops (Z.to_nat w) (Z.to_nat d) (bucket_of bk) nr umax max_count pn dc castc
                     (lempty (mk_rs 0 [] 0 [])) ops) expected.
