(* Shm.v — C16: byte layout of the shared-memory blocks and the arrays viewed inside them.
   Definitions only (no proofs that could block execution).

   A block is a `list Z` of byte values.  An array view is (byte offset, element count, item size).
   Transcribed: the offset arithmetic of
     countmin.py     __init__ l.531-538 (linear, itemsize 4), l.1255-1262 (log16, 2), l.1854-1861 (log8, 1);
                     attach_existing_shm l.771-778 (inherited by all three classes)
     hyperloglog.py  __init__ l.330-332; attach_existing_shm l.508-509
     heavyhitters.py __init__ l.387-418; attach_existing_shm l.674-697
   Modelled at their interface (not verified): memoryview slicing `buf[a:b]` (clipped to the buffer),
   np.frombuffer (ValueError unless the byte count is a multiple of the item size; unaligned data is
   accepted), ndarray.reshape (ValueError unless the element count matches), ndarray.nbytes,
   SharedMemory(create=True, size=n).size = n (observed on this Linux; the model keeps the actual
   buffer length L as a separate argument so that the effect of a rounded-up block can be computed). *)
From Coq Require Import ZArith List Bool.
From Sketchnu Require Import Machine.
Import ListNotations.
Open Scope nat_scope.

Record view := mkview { v_off : nat; v_cnt : nat; v_isz : nat }.
Definition vbytes (v : view) : nat := v_cnt v * v_isz v.

(* memoryview slicing buf[a:b] on a buffer of L bytes: (start, number of bytes) *)
Definition py_slice (L a b : nat) : nat * nat := (Nat.min a L, Nat.min b L - Nat.min a L).

(* np.frombuffer(buf[a:b], dtype) for a dtype of isz bytes *)
Definition frombuffer (L a b isz : nat) : option view :=
  let '(s, nb) := py_slice L a b in
  if nb mod isz =? 0 then Some (mkview s (nb / isz) isz) else None.

(* .reshape(shape), prod(shape) = n *)
Definition reshape (n : nat) (v : option view) : option view :=
  match v with
  | Some w => if v_cnt w =? n then Some w else None
  | None => None
  end.

Fixpoint all_some (l : list (option view)) : option (list view) :=
  match l with
  | [] => Some []
  | Some v :: r => match all_some r with Some vs => Some (v :: vs) | None => None end
  | None :: _ => None
  end.

Inductive params :=
| PCms (isz w d : nat)     (* isz: 4 = CountMinLinear, 2 = CountMinLog16, 1 = CountMinLog8 *)
| PHll (p : nat)
| PHh (w d mkl : nat).

Definition wf (p : params) : Prop :=
  match p with
  | PCms isz w d => (isz = 4 \/ isz = 2 \/ isz = 1) /\ 0 < w /\ 0 < d
  | PHll p => 7 <= p <= 16
  | PHh w d mkl => 0 < w /\ 0 < d /\ 1 <= mkl <= 255
  end.

(* the size passed to SharedMemory(create=True, size=...) *)
Definition request (p : params) : nat :=
  match p with
  | PCms isz w d => isz * w * d + 8 * 2                              (* cms_size + n_added_size *)
  | PHll p => 2 ^ p                                                  (* int(self.m), m = 1 << p *)
  | PHh w d mkl => mkl * w * d + 4 * w * d + 1 * w * d + 8 * 2      (* heavyhitters.py l.387-395 *)
  end.

(* __init__ with shared_memory=True; L = len(self.shm.buf).  Views in the order they are created:
   cms: [cms; n_added_records]   hll: [registers]   hh: [lhh; lhh_count; key_lens; n_added_records] *)
Definition layout_init (p : params) (L : nat) : option (list view) :=
  match p with
  | PCms isz w d =>
      let cms_size := isz * w * d in                                  (* int(4 * width * depth) *)
      all_some [ reshape (d * w) (frombuffer L 0 cms_size isz);       (* buf[:cms_size] .reshape(depth, width) *)
                 frombuffer L cms_size L 8 ]                          (* buf[cms_size:], np.uint64 *)
  | PHll _ =>
      all_some [ frombuffer L 0 L 1 ]                                 (* np.frombuffer(self.shm.buf, np.uint8) *)
  | PHh w d mkl =>
      let lhh_nbytes := mkl * w * d in                                (* int(max_key_len * width * depth) *)
      let lhh_count_nbytes := 4 * w * d in
      let key_lens_nbytes := 1 * w * d in
      let start := 0 in
      let end_ := lhh_nbytes in
      let lhh := reshape (d * w * mkl) (frombuffer L start end_ 1) in
      let start := end_ in
      let end_ := end_ + lhh_count_nbytes in
      let lhh_count := reshape (d * w) (frombuffer L start end_ 4) in
      let start := end_ in
      let end_ := end_ + key_lens_nbytes in
      let key_lens := reshape (d * w) (frombuffer L start end_ 1) in
      let start := end_ in
      let n_added := frombuffer L start L 8 in                        (* buf[start:] *)
      all_some [lhh; lhh_count; key_lens; n_added]
  end.

(* attach_existing_shm on a freshly constructed private sketch: the sizes come from `.nbytes` of
   the private arrays np.zeros(shape, dtype), i.e. prod(shape) * itemsize *)
Definition layout_attach (p : params) (L : nat) : option (list view) :=
  match p with
  | PCms isz w d =>
      let cms_nbytes := d * w * isz in                                (* np.zeros((depth, width), dtype).nbytes *)
      all_some [ reshape (d * w) (frombuffer L 0 cms_nbytes isz);     (* buf[: self.cms.nbytes] .reshape(depth, width) *)
                 frombuffer L cms_nbytes L 8 ]                        (* buf[self.cms.nbytes :] *)
  | PHll _ =>
      all_some [ frombuffer L 0 L 1 ]
  | PHh w d mkl =>
      let lhh_nbytes := d * w * mkl * 1 in                            (* zeros((depth, width, max_key_len), uint8).nbytes *)
      let lhh_count_nbytes := d * w * 4 in                            (* zeros((depth, width), uint32).nbytes *)
      let key_lens_nbytes := d * w * 1 in                             (* zeros((depth, width), uint8).nbytes *)
      let start := 0 in
      let end_ := lhh_nbytes in
      let lhh := reshape (d * w * mkl) (frombuffer L start end_ 1) in
      let start := end_ in
      let end_ := end_ + lhh_count_nbytes in
      let lhh_count := reshape (d * w) (frombuffer L start end_ 4) in
      let start := end_ in
      let end_ := end_ + key_lens_nbytes in
      let key_lens := reshape (d * w) (frombuffer L start end_ 1) in
      let start := end_ in
      let n_added := frombuffer L start L 8 in
      all_some [lhh; lhh_count; key_lens; n_added]
  end.

(* ---- geometry of a list of views ---- *)
Definition disjoint (u v : view) : Prop :=
  v_off u + vbytes u <= v_off v \/ v_off v + vbytes v <= v_off u.
Fixpoint pairwise_disjoint (vs : list view) : Prop :=
  match vs with
  | [] => True
  | v :: r => Forall (disjoint v) r /\ pairwise_disjoint r
  end.
(* the views tile [start, total): each begins where the previous one ended *)
Fixpoint contiguous (start : nat) (vs : list view) (total : nat) : Prop :=
  match vs with
  | [] => start = total
  | v :: r => v_off v = start /\ contiguous (start + vbytes v) r total
  end.
(* sketches with bookkeeping counters end in a view of exactly two uint64 *)
Definition counters_last (p : params) (vs : list view) : Prop :=
  match p with
  | PHll _ => True
  | _ => exists v, last vs (mkview 0 0 0) = v /\ v_cnt v = 2 /\ v_isz v = 8
  end.

(* ---- reading and writing through a view ---- *)
Definition rd_bytes (off len : nat) (m : list Z) : list Z := firstn len (skipn off m).
Definition wr_bytes (off : nat) (bs m : list Z) : list Z :=
  firstn off m ++ bs ++ skipn (off + length bs) m.

Fixpoint chunks (isz n : nat) (l : list Z) : list (list Z) :=
  match n with
  | 0 => []
  | S n' => firstn isz l :: chunks isz n' (skipn isz l)
  end.
(* little-endian encoding of one element on isz bytes (Machine.le_decode is the inverse) *)
Fixpoint le_encode (isz : nat) (x : Z) : list Z :=
  match isz with
  | 0 => []
  | S k => (x mod 256)%Z :: le_encode k (x / 256)%Z
  end.

(* the element values seen through the view *)
Definition read (v : view) (m : list Z) : list Z :=
  map le_decode (chunks (v_isz v) (v_cnt v) (rd_bytes (v_off v) (vbytes v) m)).
(* storing element values through the view *)
Definition write (v : view) (xs : list Z) (m : list Z) : list Z :=
  wr_bytes (v_off v) (flat_map (le_encode (v_isz v)) xs) m.

Definition in_bounds (m : list Z) (v : view) : Prop := v_off v + vbytes v <= length m.
Definition in_range (isz : nat) (x : Z) : Prop := (0 <= x < 256 ^ Z.of_nat isz)%Z.
Definition fits (v : view) (xs : list Z) : Prop := length xs = v_cnt v /\ Forall (in_range (v_isz v)) xs.

(* a sketch state as the arrays it consists of, one value list per view *)
Definition arrays := list (list Z).
Definition load (vs : list view) (m : list Z) : arrays := map (fun v => read v m) vs.
Fixpoint store (vs : list view) (xss : arrays) (m : list Z) : list Z :=
  match vs, xss with
  | v :: vs', xs :: xss' => store vs' xss' (write v xs m)
  | _, _ => m
  end.

(* a kernel is a function of the arrays only *)
Definition kernel := arrays -> arrays.
Definition shape_preserving (vs : list view) (k : kernel) : Prop :=
  forall xss, Forall2 fits vs xss -> Forall2 fits vs (k xss).
(* a private sketch: the arrays are the state *)
Definition run_private (ops : list kernel) (s : arrays) : arrays := fold_left (fun s k => k s) ops s.
(* a sketch over views: the block is the state; every op reads the arrays through the views,
   applies the same kernel and stores the result through the views *)
Definition shared_step (vs : list view) (m : list Z) (k : kernel) : list Z := store vs (k (load vs m)) m.
Definition run_shared (vs : list view) (ops : list kernel) (m : list Z) : list Z :=
  fold_left (shared_step vs) ops m.

(* ---- helpers for generated case files ---- *)
Definition show_view (v : view) : list Z := [Z.of_nat (v_off v); Z.of_nat (v_cnt v); Z.of_nat (v_isz v)].
Definition show_layout (o : option (list view)) : list (list Z) :=
  match o with Some vs => map show_view vs | None => [[-1]%Z] end.
Definition zparams (kind a b c : Z) : params :=
  if (kind =? 0)%Z then PCms (Z.to_nat a) (Z.to_nat b) (Z.to_nat c)
  else if (kind =? 1)%Z then PHll (Z.to_nat a)
  else PHh (Z.to_nat a) (Z.to_nat b) (Z.to_nat c).
