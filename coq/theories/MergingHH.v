(* MergingHH.v — the heavy-hitter instance of the parallel_add model of Merging.v.
   Definitions only; lemmas in MergingHHProofs.v.
   An item's ops = the (key, multiplicity) adds of the callback (HH.HUpdateDict: by
   C03_update_list / C03_update_dict / C03_ngram_is_adds every entry point is such a sequence);
   every worker starts from the zeroed shared-memory sketch (HH.hh_empty), runs the worker loop
   of helpers._worker, and the worker sketches are merged by the rounds of parallel_merging with
   HeavyHitters.merge (HH.hh_merge; the shapes agree, so merge()'s guard passes). *)
From Coq Require Import ZArith List Bool Permutation.
From Sketchnu Require Import Machine Consts Ngram CmsLinearHarness Harness Merging HH.
Import ListNotations.
Open Scope Z_scope.

(* l.216  n_added_records[1] += np.uint64(n_records), inside the bare try/except *)
Definition hh_with_records (s : HH.sketch) (n : Z) : HH.sketch :=
  mkSk (HH.tab s) (HH.n_added s) (HH.n_records s + n) (HH.cand s) (HH.n_added_sort s) (HH.thr_sort s).
Definition hh_add_records (s : HH.sketch) (n : Z) : HH.sketch :=
  if (0 <=? n) && (n <? two64m) then hh_with_records s n else s.

(* histories: an item is a list of (key, multiplicity) adds, the type Merging.cms_item *)
Definition hadds (h : HH.hist) (it : cms_item) : HH.hist := HUpdateDict h it.
Definition hh_seq_hist (items : list cms_item) : HH.hist := fold_left hadds items HH.HEmpty.
Definition hh_worker_hist (items : list cms_item) (order : list nat) : HH.hist :=
  fold_left (fun h i => hadds h (nth i items [])) order HH.HEmpty.
(* side conditions of HH.wf on an item: non-negative multiplicities, keys shorter than 2^64 bytes *)
Definition hh_item_wf (it : cms_item) : Prop := Forall (fun kv => 0 <= snd kv /\ zlen (fst kv) < 2^64) it.
(* no multiplicity is cut by the uint32 conversion of HeavyHitters.add *)
Definition hh_item_small (it : cms_item) : Prop := Forall (fun kv => 0 <= snd kv <= hh_cap) it.

Section HHPA.
Variable width depth max_key_len : nat.
Variable bucket : nat -> key -> nat.
Definition hh_apply (s : HH.sketch) (it : cms_item) : HH.sketch :=
  hh_update_dict depth max_key_len bucket s it.
Definition hh_pa (outs : list (outcome cms_item)) (sched : list (list nat)) : option HH.sketch :=
  pa_model HH.sketch cms_item hh_apply hh_add_records (hh_merge width depth) outs sched (hh_empty max_key_len).
End HHPA.

(* ---------------- helpers of the generated case files ---------------- *)
(* observation of one sketch: packed table (HH.tab_code), n_added, n_records, hh[k] for the
   alphabet, query(k, 1) *)
Definition hobs := (Z * Z * Z * list (key * Z) * list (key * Z))%type.
Fixpoint kz_eqb (a b : list (key * Z)) : bool :=
  match a, b with
  | [], [] => true
  | (k, v) :: a', (k', v') :: b' => keqb k k' && (v =? v') && kz_eqb a' b'
  | _, _ => false
  end.
Definition check_hobs (w d L : nat) (b : nat -> key -> nat) (s : HH.sketch) (e : hobs) : bool :=
  let '(tc, na, nr, gets, q) := e in
  (tab_code w d L (HH.tab s) =? tc) && (HH.n_added s =? na) && (HH.n_records s =? nr) &&
  forallb (fun kv => hh_get d L b s (fst kv) =? snd kv) gets &&
  kz_eqb (snd (hh_query w d L b (fun _ => 0) s (Some (Z.of_nat (length gets) + 8)) (Some 1))) q.

(* width, depth, max_key_len, observed bucket map, outcomes, schedule, expected state of every
   worker sketch after its _worker returned (table, n_added, n_records only), expected result *)
Definition hh_pa_case := (nat * nat * nat * list (key * list nat) * list (outcome cms_item) * list (list Z)
                          * list (Z * Z * Z) * hobs)%type.
Definition check_hh_pa_case (c : hh_pa_case) : bool :=
  let '(w, d, L, bm, outs, zs, ews, e) := c in
  let b := mk_bucket bm in
  let sched := nat_sched zs in
  forallb2 (fun order ew =>
              match worker HH.sketch cms_item (hh_apply d L b) hh_add_records
                           (worker_queue cms_item outs order) (hh_empty L) with
              | Some (s, []) => let '(tc, na, nr) := ew in
                                (tab_code w d L (HH.tab s) =? tc) && (HH.n_added s =? na) && (HH.n_records s =? nr)
              | _ => false
              end) sched ews &&
  match hh_pa w d L b outs sched with
  | Some s => check_hobs w d L b (hh_freeze w d L s) e
  | None => false
  end.
(* a real spawned run: only the returned sketch is visible *)
Definition real_hh_case := (nat * nat * nat * list (key * list nat) * list (outcome cms_item) * list (list Z) * hobs)%type.
Definition check_real_hh_case (c : real_hh_case) : bool :=
  let '(w, d, L, bm, outs, zs, e) := c in
  let b := mk_bucket bm in
  match hh_pa w d L b outs (nat_sched zs) with
  | Some s => check_hobs w d L b (hh_freeze w d L s) e
  | None => false
  end.
