(* KernelTieNgramLinear.v — countmin.py _add_ngram_linear as regenerated from the source (generated/KernelsNgram.v, harness/pytrans_ngram.py)
   against the model's window loop (Ngram.ngram_windows) and the model's driver CmsLinear.add_ngram.
   See KernelTieNgram.v for the conventions and the generic lemma. *)
From Coq Require Import ZArith List Lia Bool ZifyBool String.
From Sketchnu Require Import Machine BitLemmas Ngram NgramProofs KernelsNgram KernelTieNgram CmsLinear.
Import ListNotations.
Open Scope Z_scope.

(* the keys _add_ngram_linear hands to _add_linear, assembled from the generated pieces *)
Definition ngram_linear_windows : key -> Z -> list key :=
  driver_windows gen_ngram_linear_key_len gen_ngram_linear_whole gen_ngram_linear_count gen_ngram_linear_lo gen_ngram_linear_hi.

Lemma tie_ngram_linear_pieces :
  driver_ok gen_ngram_linear_key_len gen_ngram_linear_whole gen_ngram_linear_count gen_ngram_linear_lo gen_ngram_linear_hi.
Proof. unfold gen_ngram_linear_key_len, gen_ngram_linear_whole, gen_ngram_linear_count, gen_ngram_linear_lo, gen_ngram_linear_hi. driver_ok_tac. Qed.

Lemma tie_ngram_linear_windows (k : key) (n : Z) :
  0 <= n < 2^64 -> zlen k < 2^63 -> ngram_linear_windows k n = ngram_windows k n.
Proof. apply driver_windows_model. exact tie_ngram_linear_pieces. Qed.

Lemma tie_ngram_linear_spec (k : key) (n : Z) :
  1 <= n < 2^64 -> zlen k < 2^63 -> ngram_linear_windows k n = windows (Z.to_nat n) k.
Proof. apply driver_windows_spec. exact tie_ngram_linear_pieces. Qed.

Lemma tie_ngram_linear_call : gen_ngram_linear_mult = Some 1 /\ gen_ngram_linear_threads_ptr = false.
Proof. split; vm_compute; reflexivity. Qed.

(* the single-add kernel both branches call (the translator also rejects any other name) *)
Lemma tie_ngram_linear_callee : gen_ngram_linear_callee = "_add_linear"%string.
Proof. vm_compute; reflexivity. Qed.

(* the model's driver is the fold of the model's single-add kernel, called with the generated multiplicity, over the
   generated windows *)
Lemma tie_ngram_linear_model depth bucket (s : CmsLinear.sk) (k : key) (n : Z) :
  0 <= n < 2^64 -> zlen k < 2^63 ->
  CmsLinear.add_ngram depth bucket s k n =
  fold_left (fun s0 w => CmsLinear.add_linear depth bucket s0 w (mult_value gen_ngram_linear_mult)) (ngram_linear_windows k n) s.
Proof.
  intros Hn Hk. rewrite tie_ngram_linear_windows by assumption. unfold CmsLinear.add_ngram.
  assert (mult_value gen_ngram_linear_mult = 1) as -> by (vm_compute; reflexivity).
  reflexivity.
Qed.

Lemma tie_ngram_linear :
  driver_ok gen_ngram_linear_key_len gen_ngram_linear_whole gen_ngram_linear_count gen_ngram_linear_lo gen_ngram_linear_hi /\
  (forall (k : key) (n : Z), 0 <= n < 2^64 -> zlen k < 2^63 -> ngram_linear_windows k n = ngram_windows k n) /\
  (forall (k : key) (n : Z), 1 <= n < 2^64 -> zlen k < 2^63 -> ngram_linear_windows k n = windows (Z.to_nat n) k) /\
  (gen_ngram_linear_mult = Some 1 /\ gen_ngram_linear_threads_ptr = false) /\
  (forall depth bucket (s : CmsLinear.sk) (k : key) (n : Z), 0 <= n < 2^64 -> zlen k < 2^63 ->
     CmsLinear.add_ngram depth bucket s k n =
     fold_left (fun s0 w => CmsLinear.add_linear depth bucket s0 w (mult_value gen_ngram_linear_mult)) (ngram_linear_windows k n) s).
Proof.
  exact (conj tie_ngram_linear_pieces (conj tie_ngram_linear_windows (conj tie_ngram_linear_spec (conj tie_ngram_linear_call
         (fun depth bucket s => tie_ngram_linear_model depth bucket s))))).
Qed.
