(* Persist.v — model of save()/load() of the five sketch classes and of the module-level
   countmin.load() dispatch (property C10).  Definitions only.

   Abstract sketch state = the constructor parameters plus every array that save() writes,
   arrays as C-order flattened lists of Z.  A saved file is what np.savez receives: a list of
   named members, each a typed array (dtype, shape, flattened data).  Elements of a float64
   array are carried as their exact IEEE-754 binary64 BIT PATTERN (a Z in [0, 2^64)), so that
   "phi is preserved bit for bit" is an equation between integers; the conversions
   integer -> binary64 (np.array([...], np.float64)) and binary64 -> uint64 (np.uint64(x))
   are written out in integer arithmetic below (round to nearest even / truncation) and are
   cross-checked against Coq's kernel floats in PersistProofs.v and against NumPy in the C10 check.

   Not modelled: the .npz container (NumPy, see C20), MemoryError of np.zeros for unallocatable
   shapes, shared-memory placement (the flag is carried and ignored: C16), the heavy hitters'
   query cache rebuilt by generate_candidate_set() after load (C13), rand_nums/rand_ptr/rng of
   the log sketches (fresh on every construction, not saved), the scratch array `buckets`. *)
From Coq Require Import ZArith List Bool.
From Coq Require String.
Import String.StringSyntax.
From Sketchnu Require Import Machine Consts.
Import ListNotations.
Open Scope string_scope.
Open Scope Z_scope.
Notation string := String.string.

(* ------------------------------------------------------------------ typed arrays, files *)
Inductive dtype := U8 | U16 | U32 | U64 | I64 | F64.

Definition dtype_eqb (a b : dtype) : bool :=
  match a, b with
  | U8, U8 | U16, U16 | U32, U32 | U64, U64 | I64, I64 | F64, F64 => true
  | _, _ => false
  end.

Definition is_unsigned (d : dtype) : bool :=
  match d with U8 | U16 | U32 | U64 => true | _ => false end.

(* invariant of every array built by the harness or by save: length a_data = product a_shape *)
Record arr := mk_arr { a_dt : dtype; a_shape : list Z; a_data : list Z }.

Definition file := list (string * arr).

Fixpoint lookup (name : string) (f : file) : option arr :=
  match f with
  | [] => None
  | (n, a) :: r => if String.eqb n name then Some a else lookup name r
  end.

Inductive exn := TypeError | ValueError | KeyError | IndexError | AttributeError.

Definition exn_eqb (a b : exn) : bool :=
  match a, b with
  | TypeError, TypeError | ValueError, ValueError | KeyError, KeyError
  | IndexError, IndexError | AttributeError, AttributeError => true
  | _, _ => false
  end.

(* Ok v: returned v.  RetNone: the Python function fell off its end (returns None).
   Err e: raised e.  Unmodelled: input outside the domain this model describes
   (non-1-d or non-unsigned `args` for the cms/hll classes, float -> uint64 casts that are
   undefined behaviour in C). *)
Inductive result (A : Type) := Ok (a : A) | RetNone | Err (e : exn) | Unmodelled.
Arguments Ok {A} a.
Arguments RetNone {A}.
Arguments Err {A} e.
Arguments Unmodelled {A}.

Definition bind {A B} (r : result A) (k : A -> result B) : result B :=
  match r with Ok a => k a | RetNone => RetNone | Err e => Err e | Unmodelled => Unmodelled end.

(* npzfile[name]: KeyError when the member is absent *)
Definition member (name : string) (f : file) : result arr :=
  match lookup name f with Some a => Ok a | None => Err KeyError end.

(* ------------------------------------------------------------------ sketches *)
Inductive klass := KLinear | KLog16 | KLog8 | KHll | KHH.
Inductive logk := L16 | L8.

Definition klass_eqb (a b : klass) : bool :=
  match a, b with
  | KLinear, KLinear | KLog16, KLog16 | KLog8, KLog8 | KHll, KHll | KHH, KHH => true
  | _, _ => false
  end.

Definition is_cms (c : klass) : bool :=
  match c with KLinear | KLog16 | KLog8 => true | _ => false end.

Definition klass_of_logk (k : logk) : klass := match k with L16 => KLog16 | L8 => KLog8 end.

(* tables flattened in C order:  cms[r, c] = nth (r*width + c);  lhh[r, c, i] = nth ((r*width + c)*max_key_len + i) *)
Inductive sketch :=
| SLin (width depth : Z) (cms : list Z) (n_added n_records : Z)
| SLog (k : logk) (width depth max_count num_reserved : Z) (cms : list Z) (n_added n_records : Z)
| SHll (p seed : Z) (registers : list Z)
| SHH (width depth max_key_len phi : Z) (lhh lhh_count key_lens : list Z) (n_added n_records : Z).
(* phi : binary64 bit pattern of self.phi *)

Definition class_of (s : sketch) : klass :=
  match s with
  | SLin _ _ _ _ _ => KLinear
  | SLog k _ _ _ _ _ _ _ => klass_of_logk k
  | SHll _ _ _ => KHll
  | SHH _ _ _ _ _ _ _ _ _ => KHH
  end.

(* per-class constants, all read from the source by the translator *)
Definition umax_of (k : logk) : Z := match k with L16 => log16_umax | L8 => log8_umax end.
Definition nr_limit_of (k : logk) : Z := match k with L16 => log16_nr_limit | L8 => log8_nr_limit end.
Definition default_mc_of (k : logk) : Z :=
  match k with L16 => log16_default_max_count | L8 => log8_default_max_count end.
Definition default_nr_of (k : logk) : Z :=
  match k with L16 => log16_default_num_reserved | L8 => log8_default_num_reserved end.
Definition cms_dtype_of (k : logk) : dtype := match k with L16 => U16 | L8 => U8 end.
(* default depth of the three count-min constructors (literal `depth: int = 8`) *)
Definition cms_default_depth : Z := 8.

(* ------------------------------------------------------------------ binary64 <-> integers *)
Definition two52 : Z := Eval compute in 2^52.
Definition two53 : Z := Eval compute in 2^53.
Definition two63 : Z := Eval compute in 2^63.
Definition two64 : Z := Eval compute in 2^64.
Definition f64_one_bits : Z := Eval compute in 1023 * 2^52.        (* 0x3FF0000000000000 = 1.0 *)
Definition f64_inf_bits : Z := Eval compute in 2047 * 2^52.        (* 0x7FF0000000000000 = +inf *)

(* np.float64(x) for a non-negative integer x (np.array([...], np.float64) converts each
   np.uint64 element with the C cast, i.e. round to nearest, ties to even): the bit pattern.
   Valid for 0 <= x < 2^1024 (no overflow handling; the code only converts uint64 values). *)
Definition f64bits_of_Z (x : Z) : Z :=
  if x <=? 0 then 0 else
  let n := Z.log2 x + 1 in                      (* bit length *)
  let e := n - 53 in
  if e <=? 0 then (n + 1022) * two52 + (Z.shiftl x (- e) - two52)
  else
    let q := Z.shiftr x e in
    let r := Z.land x (Z.ones e) in
    let half := Z.shiftl 1 (e - 1) in
    let q' := if (half <? r) || ((half =? r) && Z.odd q) then q + 1 else q in
    if q' =? two53 then (e + 1 + 1075) * two52
    else (e + 1075) * two52 + (q' - two52).

(* np.uint64(x) for a float64 x given by its bits: C truncation toward zero.  Defined when the
   truncated value lies in [0, 2^64); None otherwise (NaN, infinities, <= -1, >= 2^64 are
   undefined behaviour of the C cast; NumPy then warns and returns a platform value). *)
Definition f64_trunc (b : Z) : option Z :=
  let sign := Z.shiftr b 63 in
  let be := Z.land (Z.shiftr b 52) (Z.ones 11) in
  let frac := Z.land b (Z.ones 52) in
  if be =? 2047 then None
  else if be =? 0 then Some 0
  else
    let m := two52 + frac in
    let e := be - 1075 in
    let v := if 0 <=? e then Z.shiftl m e else Z.shiftr m (- e) in
    if sign =? 1 then (if v =? 0 then Some 0 else None)
    else if v <? two64 then Some v else None.

(* float comparisons used by the HeavyHitters constructor, on bit patterns *)
Definition f64_is_nan (b : Z) : bool := f64_inf_bits <? Z.land b (Z.ones 63).
(* phi <= 0.0 *)
Definition f64_le_zero (b : Z) : bool := negb (f64_is_nan b) && ((two63 <=? b) || (b =? 0)).
(* phi > 1.0 *)
Definition f64_gt_one (b : Z) : bool := negb (f64_is_nan b) && (b <? two63) && (f64_one_bits <? b).

(* ------------------------------------------------------------------ np.copyto *)
Definition prodZ (sh : list Z) : Z := fold_right Z.mul 1 sh.

Fixpoint shape_eqb (a b : list Z) : bool :=
  match a, b with
  | [], [] => true
  | x :: a', y :: b' => (x =? y) && shape_eqb a' b'
  | _, _ => false
  end.

(* NumPy assignment drops leading length-1 axes of a source that has more axes than the destination *)
Fixpoint strip_ones (n : nat) (sh : list Z) : list Z :=
  match n, sh with
  | S n', 1 :: r => strip_ones n' r
  | _, _ => sh
  end.

Definition align_shape (dst src : list Z) : option (list Z) :=
  let ld := length dst in
  let ls := length src in
  if Nat.leb ls ld then Some (repeat 1 (Nat.sub ld ls) ++ src)
  else let s' := strip_ones (Nat.sub ls ld) src in
       if Nat.eqb (length s') ld then Some s' else None.

Fixpoint chunks (n k : nat) (l : list Z) : list (list Z) :=
  match k with
  | O => []
  | S k' => firstn n l :: chunks n k' (skipn n l)
  end.

Fixpoint concat_opt (l : list (option (list Z))) : option (list Z) :=
  match l with
  | [] => Some []
  | Some x :: r => match concat_opt r with Some y => Some (x ++ y) | None => None end
  | None :: _ => None
  end.

(* broadcast `data` of shape src (same rank as dst) to shape dst *)
Fixpoint bcast (dst src : list Z) (data : list Z) : option (list Z) :=
  match dst, src with
  | [], [] => Some data
  | d :: ds, s :: ss =>
      if s =? d then
        concat_opt (map (bcast ds ss) (chunks (Z.to_nat (prodZ ss)) (Z.to_nat d) data))
      else if s =? 1 then
        match bcast ds ss data with
        | Some x => Some (concat (repeat x (Z.to_nat d)))
        | None => None
        end
      else None
  | _, _ => None
  end.

Definition broadcast (dst : list Z) (src : arr) : option (list Z) :=
  if shape_eqb (a_shape src) dst then Some (a_data src)      (* equal shapes: identity *)
  else match align_shape dst (a_shape src) with
       | Some s' => bcast dst s' (a_data src)
       | None => None
       end.

Definition wrap_dt (d : dtype) (x : Z) : Z :=
  match d with U8 => wrap8 x | U16 => wrap16 x | U32 => wrap32 x | U64 => wrap64 x | _ => x end.

(* np.can_cast(src, dst, 'same_kind') for an unsigned destination *)
Definition can_cast_to_unsigned (src : dtype) : bool := is_unsigned src.

(* np.copyto(dst, src) with dst a freshly allocated unsigned array of dtype ddt and shape dshape:
   casting rule first (TypeError), then broadcasting (ValueError), values wrap into ddt *)
Definition copyto (ddt : dtype) (dshape : list Z) (src : arr) : result (list Z) :=
  if can_cast_to_unsigned (a_dt src) then
    match broadcast dshape src with
    | Some d => Ok (map (wrap_dt ddt) d)
    | None => Err ValueError
    end
  else Err TypeError.

(* `*args` of a 1-d unsigned array: its elements; anything else is outside the model *)
Definition star_args (a : arr) : result (list Z) :=
  if is_unsigned (a_dt a) && Nat.eqb (length (a_shape a)) 1 then Ok (a_data a) else Unmodelled.

(* positional argument i with a default *)
Definition arg (l : list Z) (i : nat) (dflt : Z) : Z := nth i l dflt.

Definition pair_of (l : list Z) : Z * Z := (nth 0 l 0, nth 1 l 0).

Section Persist.
(* _find_base(max_count, num_reserved, uint_maxval) returns normally (true) or raises
   ValueError (false).  It is a deterministic jitted function of its three arguments; the
   model takes its outcome as a parameter. *)
Variable base_ok : Z -> Z -> Z -> bool.

(* ---------------------------------------------------------------- constructors (validation) *)
(* CountMinLinear.__init__, countmin.py l.515-541 *)
Definition ctor_linear (width depth : Z) : result unit :=
  if width <=? 0 then Err ValueError
  else if depth <=? 0 then Err ValueError
  else Ok tt.

(* CountMinLog16.__init__ l.1220-1265, CountMinLog8.__init__ l.1819-1863 (same text, other literals).
   Arguments come from unsigned arrays here, so np.uint64(max_count) / np.uintN(num_reserved)
   cannot overflow once num_reserved < limit. *)
Definition ctor_log (k : logk) (width depth max_count num_reserved : Z) : result unit :=
  if width <=? 0 then Err ValueError
  else if depth <=? 0 then Err ValueError
  else if nr_limit_of k <=? num_reserved then Err ValueError
  else if base_ok max_count num_reserved (umax_of k) then Ok tt
  else Err ValueError.

(* HyperLogLog.__init__, hyperloglog.py l.318-322 *)
Definition ctor_hll (p seed : Z) : result unit :=
  if (hll_p_max <? p) || (p <? hll_p_min) then Err ValueError else Ok tt.

(* HeavyHitters.__init__, heavyhitters.py l.346-363 (isinstance tests hold: load passes
   np.uint64 / np.float64) *)
Definition ctor_hh (width depth max_key_len phi : Z) : result unit :=
  if width <=? 0 then Err ValueError
  else if depth <=? 0 then Err ValueError
  else if (max_key_len <=? 0) || (255 <? max_key_len) then Err ValueError
  else if f64_le_zero phi || f64_gt_one phi then Err ValueError
  else Ok tt.

(* ---------------------------------------------------------------- save *)
Definition na_arr (na nr : Z) : arr := mk_arr U64 [2] [na; nr].

(* CountMinLinear.save l.705-726; CountMinLog16.save l.1393-1414 (inherited by CountMinLog8);
   HyperLogLog.save l.513-529; HeavyHitters.save l.599-625 *)
Definition save (s : sketch) : file :=
  match s with
  | SLin w d t na nr =>
      [("args", mk_arr U64 [2] [w; d]);
       ("n_added_records", na_arr na nr);
       ("cms", mk_arr U32 [d; w] t);
       ("dtype", mk_arr U32 [] [nth 0 t 0])]
  | SLog k w d mc nres t na nr =>
      [("args", mk_arr U64 [4] [w; d; mc; nres]);       (* uint64 x3 + uintN promote to uint64 *)
       ("n_added_records", na_arr na nr);
       ("cms", mk_arr (cms_dtype_of k) [d; w] t);
       ("dtype", mk_arr (cms_dtype_of k) [] [nth 0 t 0])]
  | SHll p seed regs =>
      [("args", mk_arr U64 [2] [p; seed]);
       ("hll", mk_arr U8 [2 ^ p] regs)]
  | SHH w d mkl phi lhh cnt kl na nr =>
      [("args", mk_arr F64 [4] [f64bits_of_Z w; f64bits_of_Z d; f64bits_of_Z mkl; phi]);
       ("lhh", mk_arr U8 [d; w; mkl] lhh);
       ("lhh_count", mk_arr U32 [d; w] cnt);
       ("key_lens", mk_arr U8 [d; w] kl);
       ("n_added_records", na_arr na nr)]
  end.

(* ---------------------------------------------------------------- loaders *)
(* CountMinLinear.load l.744-753 *)
Definition load_linear (shm : bool) (f : file) : result sketch :=
  bind (member "args" f) (fun args =>
  bind (member "dtype" f) (fun dt =>
  if negb (dtype_eqb (a_dt dt) U32) then Err TypeError else
  bind (star_args args) (fun av =>
  (* CountMinLinear( *args, shared_memory=shared_memory): 1 or 2 positional arguments *)
  if Nat.eqb (length av) 0 || Nat.ltb 2 (length av) then Err TypeError else
  let width := arg av 0 0 in
  let depth := arg av 1 cms_default_depth in
  bind (ctor_linear width depth) (fun _ =>
  bind (member "cms" f) (fun c =>
  bind (copyto U32 [depth; width] c) (fun t =>
  bind (member "n_added_records" f) (fun n =>
  bind (copyto U64 [2] n) (fun nn =>
  Ok (SLin width depth t (fst (pair_of nn)) (snd (pair_of nn))))))))))).

(* CountMinLog16.load l.1432-1441 / CountMinLog8.load l.2009-2018 *)
Definition load_log (k : logk) (shm : bool) (f : file) : result sketch :=
  bind (member "args" f) (fun args =>
  bind (member "dtype" f) (fun dt =>
  if negb (dtype_eqb (a_dt dt) (cms_dtype_of k)) then Err TypeError else
  bind (star_args args) (fun av =>
  if Nat.eqb (length av) 0 || Nat.ltb 4 (length av) then Err TypeError else
  let width := arg av 0 0 in
  let depth := arg av 1 cms_default_depth in
  let max_count := arg av 2 (default_mc_of k) in
  let num_reserved := arg av 3 (default_nr_of k) in
  bind (ctor_log k width depth max_count num_reserved) (fun _ =>
  bind (member "cms" f) (fun c =>
  bind (copyto (cms_dtype_of k) [depth; width] c) (fun t =>
  bind (member "n_added_records" f) (fun n =>
  bind (copyto U64 [2] n) (fun nn =>
  Ok (SLog k width depth max_count num_reserved t (fst (pair_of nn)) (snd (pair_of nn))))))))))).

(* HyperLogLog.load l.546-551 *)
Definition load_hll (shm : bool) (f : file) : result sketch :=
  bind (member "args" f) (fun args =>
  bind (star_args args) (fun av =>
  if Nat.ltb 2 (length av) then Err TypeError else
  let p := arg av 0 hll_default_p in
  let seed := arg av 1 hll_default_seed in
  bind (ctor_hll p seed) (fun _ =>
  bind (member "hll" f) (fun h =>
  bind (copyto U8 [2 ^ p] h) (fun regs =>
  Ok (SHll p seed regs)))))).

(* np.uint64(args[i]) and np.float64(args[i]) of HeavyHitters.load l.643-647 *)
Definition to_u64 (dt : dtype) (x : Z) : result Z :=
  match dt with
  | F64 => match f64_trunc x with Some v => Ok v | None => Unmodelled end
  | I64 => Unmodelled
  | _ => Ok x
  end.
Definition to_f64 (dt : dtype) (x : Z) : result Z :=
  match dt with
  | F64 => Ok x
  | I64 => Unmodelled
  | _ => Ok (f64bits_of_Z x)
  end.

(* HeavyHitters.load l.641-658 *)
Definition load_hh (shm : bool) (f : file) : result sketch :=
  bind (member "args" f) (fun args =>
  if negb (Nat.eqb (length (a_shape args)) 1) then Unmodelled else
  let av := a_data args in
  if Nat.ltb (length av) 4 then Err IndexError else
  bind (to_u64 (a_dt args) (nth 0 av 0)) (fun width =>
  bind (to_u64 (a_dt args) (nth 1 av 0)) (fun depth =>
  bind (to_u64 (a_dt args) (nth 2 av 0)) (fun mkl =>
  bind (to_f64 (a_dt args) (nth 3 av 0)) (fun phi =>
  bind (ctor_hh width depth mkl phi) (fun _ =>
  bind (member "lhh" f) (fun a1 =>
  bind (copyto U8 [depth; width; mkl] a1) (fun lhh =>
  bind (member "lhh_count" f) (fun a2 =>
  bind (copyto U32 [depth; width] a2) (fun cnt =>
  bind (member "key_lens" f) (fun a3 =>
  bind (copyto U8 [depth; width] a3) (fun kl =>
  bind (member "n_added_records" f) (fun n =>
  bind (copyto U64 [2] n) (fun nn =>
  (* hh.generate_candidate_set(): rebuilds the query cache only (C13) *)
  Ok (SHH width depth mkl phi lhh cnt kl (fst (pair_of nn)) (snd (pair_of nn))))))))))))))))).

Definition load (c : klass) (shm : bool) (f : file) : result sketch :=
  match c with
  | KLinear => load_linear shm f
  | KLog16 => load_log L16 shm f
  | KLog8 => load_log L8 shm f
  | KHll => load_hll shm f
  | KHH => load_hh shm f
  end.

(* countmin.load l.2095-2106: if / elif / elif and no else: an unknown dtype returns None *)
Definition module_load (shm : bool) (f : file) : result sketch :=
  bind (member "dtype" f) (fun dt =>
  if dtype_eqb (a_dt dt) U32 then load_linear shm f
  else if dtype_eqb (a_dt dt) U16 then load_log L16 shm f
  else if dtype_eqb (a_dt dt) U8 then load_log L8 shm f
  else RetNone).

(* ---------------------------------------------------------------- well-formed states:
   exactly what a constructor accepted (parameters) and what the arrays it allocated can hold *)
Definition in_dt (d : dtype) (x : Z) : bool :=
  match d with
  | U8 => (0 <=? x) && (x <? 256)
  | U16 => (0 <=? x) && (x <? 65536)
  | U32 => (0 <=? x) && (x <? 4294967296)
  | _ => (0 <=? x) && (x <? two64)
  end.

Definition lenZ (l : list Z) : Z := Z.of_nat (length l).

Definition wfb (s : sketch) : bool :=
  match s with
  | SLin w d t na nr =>
      (0 <? w) && (0 <? d) && (w <? two64) && (d <? two64)
      && (lenZ t =? d * w) && forallb (in_dt U32) t && in_dt U64 na && in_dt U64 nr
  | SLog k w d mc nres t na nr =>
      (0 <? w) && (0 <? d) && (w <? two64) && (d <? two64)
      && in_dt U64 mc && (0 <=? nres) && (nres <? nr_limit_of k) && base_ok mc nres (umax_of k)
      && (lenZ t =? d * w) && forallb (in_dt (cms_dtype_of k)) t && in_dt U64 na && in_dt U64 nr
  | SHll p seed regs =>
      (hll_p_min <=? p) && (p <=? hll_p_max) && in_dt U64 seed
      && (lenZ regs =? 2 ^ p) && forallb (in_dt U8) regs
  | SHH w d mkl phi lhh cnt kl na nr =>
      (0 <? w) && (0 <? d) && (0 <? mkl) && (mkl <=? 255)
      (* binary64 holds integers exactly below 2^53; a wider table is not allocatable *)
      && (w <? two53) && (d <? two53)
      && in_dt U64 phi && negb (f64_le_zero phi) && negb (f64_gt_one phi)
      && (lenZ lhh =? d * w * mkl) && forallb (in_dt U8) lhh
      && (lenZ cnt =? d * w) && forallb (in_dt U32) cnt
      && (lenZ kl =? d * w) && forallb (in_dt U8) kl
      && in_dt U64 na && in_dt U64 nr
  end.

Definition wf (s : sketch) : Prop := wfb s = true.

End Persist.

(* ------------------------------------------------------------------ helpers for case files *)
Definition zlist_eqb' := fix go (a b : list Z) : bool :=
  match a, b with
  | [], [] => true
  | x :: a', y :: b' => (x =? y) && go a' b'
  | _, _ => false
  end.

Definition logk_eqb (a b : logk) : bool :=
  match a, b with L16, L16 | L8, L8 => true | _, _ => false end.

Definition sketch_eqb (a b : sketch) : bool :=
  match a, b with
  | SLin w d t na nr, SLin w' d' t' na' nr' =>
      (w =? w') && (d =? d') && zlist_eqb' t t' && (na =? na') && (nr =? nr')
  | SLog k w d mc nres t na nr, SLog k' w' d' mc' nres' t' na' nr' =>
      logk_eqb k k' && (w =? w') && (d =? d') && (mc =? mc') && (nres =? nres')
      && zlist_eqb' t t' && (na =? na') && (nr =? nr')
  | SHll p s r, SHll p' s' r' => (p =? p') && (s =? s') && zlist_eqb' r r'
  | SHH w d m ph l c k na nr, SHH w' d' m' ph' l' c' k' na' nr' =>
      (w =? w') && (d =? d') && (m =? m') && (ph =? ph') && zlist_eqb' l l' && zlist_eqb' c c'
      && zlist_eqb' k k' && (na =? na') && (nr =? nr')
  | _, _ => false
  end.

Definition result_eqb (a b : result sketch) : bool :=
  match a, b with
  | Ok x, Ok y => sketch_eqb x y
  | RetNone, RetNone => true
  | Err e, Err e' => exn_eqb e e'
  | Unmodelled, Unmodelled => true
  | _, _ => false
  end.

Definition arr_eqb (a b : arr) : bool :=
  dtype_eqb (a_dt a) (a_dt b) && zlist_eqb' (a_shape a) (a_shape b) && zlist_eqb' (a_data a) (a_data b).

(* same members, same order, same dtypes, shapes and contents *)
Fixpoint file_eqb (f g : file) : bool :=
  match f, g with
  | [], [] => true
  | (n, a) :: f', (m, b) :: g' => String.eqb n m && arr_eqb a b && file_eqb f' g'
  | _, _ => false
  end.

(* base_ok given as the finite list of triples observed to construct *)
Definition base_ok_of (ok : list (Z * Z * Z)) (mc nr um : Z) : bool :=
  existsb (fun t => let '(a, b, c) := t in (a =? mc) && (b =? nr) && (c =? um)) ok.
