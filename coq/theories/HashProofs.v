(* HashProofs.v — the transcription of hashes.py equals the published algorithms: FastHash (64 and 32 bit).
   MurmurHash3 is in HashProofsMurmur.v, so that a change of murmur3 does not break what rests on fasthash64 only
   (HyperLogLog, the row hash). *)
From Coq Require Import ZArith List Lia Bool.
From Sketchnu Require Import Machine Consts Hashes HashSpec BitLemmas.
Import ListNotations.
Open Scope Z_scope.

(* ---- the constants read from the source are the published ones (proof obligations
        that break when a constant in hashes.py is edited) ---- *)
Lemma consts_fasthash :
  fh_m = 0x880355f21e6d1965 /\ fh_c = 0x2127599bf4325c37 /\ fh_s1 = 23 /\ fh_s2 = 47 /\ fh32_shift = 32.
Proof. repeat split; reflexivity. Qed.


(* ---------------- chunks ---------------- *)
Lemma chunks_fuel_enough n f1 : (1 <= n)%nat -> forall f2 k,
  (length k <= f1)%nat -> (length k <= f2)%nat -> chunks_fuel f1 n k = chunks_fuel f2 n k.
Proof.
  intros Hn. induction f1 as [|f1 IH]; intros f2 k H1 H2.
  - destruct k; [|exfalso; simpl in H1; lia]. destruct f2; reflexivity.
  - destruct k as [|x k]; [destruct f2; reflexivity|].
    destruct f2 as [|f2]; [exfalso; simpl in H2; lia|].
    cbn [chunks_fuel]. f_equal. apply IH.
    + rewrite skipn_length. cbn [length] in *. lia.
    + rewrite skipn_length. cbn [length] in *. lia.
Qed.

Lemma chunks_app n c r : (1 <= n)%nat -> length c = n -> chunks n (c ++ r) = c :: chunks n r.
Proof.
  intros Hn Hc. unfold chunks. destruct c as [|x c]; [exfalso; simpl in Hc; lia|].
  cbn [app length chunks_fuel].
  change (x :: c ++ r) with ((x :: c) ++ r).
  rewrite firstn_app, skipn_app, Hc, Nat.sub_diag, firstn_all2, skipn_all2 by lia.
  simpl firstn. simpl skipn. rewrite app_nil_r. cbn [app]. f_equal.
  apply chunks_fuel_enough; [assumption| |lia].
  rewrite app_length. simpl in Hc. lia.
Qed.

Lemma chunks_short n k : (1 <= n)%nat -> k <> [] -> (length k <= n)%nat -> chunks n k = [k].
Proof.
  intros Hn Hk Hl. unfold chunks. destruct k as [|x k]; [congruence|].
  cbn [length chunks_fuel]. rewrite firstn_all2, skipn_all2 by (simpl in *; lia).
  destruct (length k); reflexivity.
Qed.

Lemma chunks_nil n : chunks n [] = [].
Proof. reflexivity. Qed.

(* ---------------- FastHash ---------------- *)
Lemma fhmix64_spec h : fhmix64 h = fh_mix h.
Proof.
  unfold fhmix64, fh_mix, M64. destruct consts_fasthash as (_ & -> & -> & -> & _).
  rewrite wrap64_mod. rewrite !shiftr_div by lia. reflexivity.
Qed.

Lemma fh_round_spec h v : fh_round h v = fh_step h v.
Proof.
  unfold fh_round, fh_step, M64. destruct consts_fasthash as (-> & _).
  rewrite wrap64_mod, fhmix64_spec. reflexivity.
Qed.

Lemma le8_decode b0 b1 b2 b3 b4 b5 b6 b7 :
  bytes [b0; b1; b2; b3; b4; b5; b6; b7] ->
  le8 b0 b1 b2 b3 b4 b5 b6 b7 = le_decode [b0; b1; b2; b3; b4; b5; b6; b7].
Proof.
  intros Hb. rewrite <- le_lor_decode by assumption.
  unfold le8. cbn [le_lor].
  rewrite !Z.shiftl_lor, !Z.shiftl_shiftl, Z.shiftl_0_l, Z.lor_0_r by lia.
  reflexivity.
Qed.

Lemma fh_blocks_spec n : forall k h, bytes k -> (8 * n <= length k)%nat ->
  fh_blocks n k h =
  (fold_left (fun h c => fh_step h (le_decode c)) (chunks 8 (firstn (8 * n) k)) h, skipn (8 * n) k).
Proof.
  induction n as [|n IH]; intros k h Hb Hl.
  - simpl. reflexivity.
  - destruct k as [|b0 [|b1 [|b2 [|b3 [|b4 [|b5 [|b6 [|b7 r]]]]]]]]; simpl in Hl; try (exfalso; lia).
    cbn [fh_blocks].
    replace (8 * S n)%nat with (8 + 8 * n)%nat by lia.
    assert (bytes [b0; b1; b2; b3; b4; b5; b6; b7] /\ bytes r) as [Hc Hr]
      by (apply (bytes_app [b0; b1; b2; b3; b4; b5; b6; b7] r); exact Hb).
    cbn [Nat.add firstn skipn].
    change (b0 :: b1 :: b2 :: b3 :: b4 :: b5 :: b6 :: b7 :: firstn (8 * n) r)
      with ([b0; b1; b2; b3; b4; b5; b6; b7] ++ firstn (8 * n) r).
    rewrite chunks_app by (simpl; lia). cbn [fold_left].
    rewrite IH by (try assumption; lia).
    rewrite fh_round_spec, le8_decode by assumption. reflexivity.
Qed.

(* disjoint-bit steps of the tail chains *)
Lemma xor_shiftl_add v t l :
  0 <= t < 256 -> 0 <= l -> l + 8 <= 64 -> 0 <= v < 2^64 -> v mod 2^(l + 8) = 0 ->
  xor_shiftl v t l = v + t * 2^l.
Proof.
  intros Ht Hl Hl8 Hv Hm. unfold xor_shiftl.
  rewrite Z.shiftl_mul_pow2 by assumption.
  assert (0 < 2^l) by (apply Z.pow_pos_nonneg; lia).
  assert (2^(l+8) = 2^l * 256) as E by (rewrite Z.pow_add_r by lia; reflexivity).
  assert (2^(l+8) <= 2^64) by (apply Z.pow_le_mono_r; lia).
  assert (0 <= t * 2^l < 2^(l+8)) as Hr by (rewrite E; nia).
  rewrite (wrap64_small (t * 2^l)) by lia.
  apply Z.mod_divide in Hm; [|lia]. destruct Hm as [q Hq].
  rewrite Hq. rewrite lxor_disjoint_add by (try assumption; lia).
  apply wrap64_small.
  assert (2^64 = 2^(56 - l) * 2^(l+8)) as E64 by (rewrite <- Z.pow_add_r by lia; f_equal; lia).
  assert (0 < 2^(56 - l)) by (apply Z.pow_pos_nonneg; lia).
  set (P := 2^(l+8)) in *. set (R := 2^(56 - l)) in *.
  rewrite Hq in Hv. rewrite E64 in Hv |- *.
  assert (q < R) by nia. assert (0 <= q) by nia.
  assert (q * P + P <= R * P) by nia. lia.
Qed.

Lemma lxor_low_add v t : 0 <= t < 256 -> v mod 2^8 = 0 -> Z.lxor v t = v + t.
Proof.
  intros Ht Hm. apply Z.mod_divide in Hm; [|lia]. destruct Hm as [q ->].
  apply lxor_disjoint_add; lia.
Qed.

Ltac Zify.zify_post_hook ::= Z.to_euclidean_division_equations.

Ltac norm_pows := repeat match goal with |- context [Z.pow 2 ?k] =>
  let x := eval vm_compute in (Z.pow 2 k) in change (Z.pow 2 k) with x end.
Ltac chain_inner := repeat match goal with |- context [xor_shiftl ?v ?t ?l] =>
  lazymatch v with context [xor_shiftl] => fail
  | _ => rewrite (xor_shiftl_add v t l) by (norm_pows; lia) end end.

Lemma fh_tail_spec tail h :
  bytes tail -> (1 <= length tail <= 7)%nat ->
  fh_tail (zlen tail) tail h = fh_step h (le_decode tail).
Proof.
  intros Hb Hl. unfold zlen.
  destruct tail as [|t0 [|t1 [|t2 [|t3 [|t4 [|t5 [|t6 [|t7 r]]]]]]]]; simpl in Hl; try (exfalso; lia);
  repeat match goal with H : bytes (_ :: _) |- _ => apply bytes_cons in H; destruct H as [? H] end;
  unfold is_byte in *;
  unfold fh_tail; cbn [length Z.of_nat Pos.of_succ_nat Pos.succ Z.eqb Pos.eqb nth];
  rewrite <- fh_round_spec; f_equal; cbn [le_decode];
  chain_inner; rewrite lxor_low_add by (norm_pows; lia); norm_pows; lia.
Qed.

Theorem fasthash64_correct k seed :
  bytes k -> zlen k < 2^64 -> fasthash64 k seed = spec_fasthash64 k seed.
Proof.
  intros Hb Hlen. unfold fasthash64, spec_fasthash64.
  assert (0 <= zlen k) as Hz by (unfold zlen; lia).
  rewrite (wrap64_small (zlen k)) by lia.
  set (n := Z.to_nat (zlen k / 8)).
  assert (zlen k = 8 * Z.of_nat n + Z.land (zlen k) 7 /\ 0 <= Z.land (zlen k) 7 < 8) as [Hdec Hsw].
  { change 7 with (Z.ones 3). rewrite Z.land_ones by lia. change (2^3) with 8.
    subst n. rewrite Z2Nat.id by (apply Z.div_pos; lia). pose proof (Z.div_mod (zlen k) 8). pose proof (Z.mod_pos_bound (zlen k) 8). lia. }
  assert (8 * n <= length k)%nat as Hn by (unfold zlen in *; lia).
  rewrite fh_blocks_spec by assumption.
  rewrite fhmix64_spec. f_equal.
  destruct consts_fasthash as (-> & _). rewrite wrap64_mod. fold M64.
  set (h0 := Z.lxor seed ((zlen k * 0x880355f21e6d1965) mod M64)).
  set (hd := firstn (8 * n) k). set (tl := skipn (8 * n) k).
  assert (length hd = (8 * n)%nat) as Hhd by (subst hd; rewrite firstn_length; lia).
  assert (zlen tl = Z.land (zlen k) 7) as Htl.
  { subst tl. unfold zlen in *. rewrite skipn_length. lia. }
  rewrite <- Htl.
  assert (bytes tl) as Hbt by (subst tl; apply bytes_skipn; assumption).
  (* chunks of head ++ tail *)
  assert (forall m (a : key) , length a = (8 * m)%nat ->
          chunks 8 (a ++ tl) = chunks 8 a ++ chunks 8 tl) as Happ.
  { induction m as [|m IHm]; intros a Ha.
    - destruct a; [reflexivity|exfalso; simpl in Ha; lia].
    - pose proof (firstn_skipn 8 a) as Hsplit.
      assert (length (firstn 8 a) = 8%nat) as Hc by (rewrite firstn_length; lia).
      assert (length (skipn 8 a) = (8 * m)%nat) as Hr' by (rewrite skipn_length; lia).
      set (c := firstn 8 a) in *. set (r := skipn 8 a) in *. rewrite <- Hsplit.
      rewrite <- app_assoc. rewrite (chunks_app 8 c (r ++ tl)), (chunks_app 8 c r) by lia.
      rewrite IHm by exact Hr'. reflexivity. }
  replace (chunks 8 k) with (chunks 8 (hd ++ tl)) by (subst hd tl; rewrite firstn_skipn; reflexivity).
  rewrite (Happ n hd Hhd). rewrite fold_left_app.
  destruct (Nat.eq_dec (length tl) 0) as [E0|E0].
  - destruct tl; [|exfalso; simpl in E0; lia]. cbn [chunks zlen length Z.of_nat]. unfold fh_tail. simpl. reflexivity.
  - assert (tl <> []) as Hne by (destruct tl; [exfalso; simpl in E0; lia|congruence]).
    assert (length tl <= 8)%nat as Hle by (unfold zlen in *; lia).
    rewrite (chunks_short 8 tl) by (assumption || lia).
    cbn [fold_left]. apply fh_tail_spec; [assumption|unfold zlen in *; lia].
Qed.

Theorem fasthash64_range k seed : 0 <= seed < 2^64 -> 0 <= fasthash64 k seed < 2^64.
Proof.
  intros Hs. unfold fasthash64.
  destruct (fh_blocks _ _ _) as [h tail].
  unfold fhmix64.
  set (h1 := fh_tail _ _ _).
  set (a := Z.lxor h1 (Z.shiftr h1 fh_s1)).
  pose proof (wrap64_range (a * fh_c)) as Hw. set (w := wrap64 (a * fh_c)) in *.
  assert (0 <= Z.shiftr w fh_s2 < 2^64).
  { rewrite shiftr_div by (destruct consts_fasthash as (_ & _ & _ & -> & _); lia).
    destruct consts_fasthash as (_ & _ & _ & -> & _).
    split; [apply Z.div_pos; lia|]. apply Z.div_lt_upper_bound; lia. }
  split.
  - apply Z.lxor_nonneg. lia.
  - destruct (Z.eq_dec (Z.lxor w (Z.shiftr w fh_s2)) 0) as [->|Hnz]; [lia|].
    apply Z.log2_lt_pow2; [assert (0 <= Z.lxor w (Z.shiftr w fh_s2)) by (apply Z.lxor_nonneg; lia); lia|].
    eapply Z.le_lt_trans; [apply Z.log2_lxor; lia|].
    apply Z.max_lub_lt.
    + destruct (Z.eq_dec w 0) as [->|]; [simpl; lia|]. apply Z.log2_lt_pow2; lia.
    + destruct (Z.eq_dec (Z.shiftr w fh_s2) 0) as [->|]; [simpl; lia|]. apply Z.log2_lt_pow2; lia.
Qed.

Theorem fasthash32_correct k seed :
  bytes k -> zlen k < 2^64 -> 0 <= seed < 2^64 -> fasthash32 k seed = spec_fasthash32 k seed.
Proof.
  intros Hb Hl Hs. unfold fasthash32, spec_fasthash32, fh32_fin, spec_fh32_fin.
  pose proof (fasthash64_range k seed Hs) as Hr.
  rewrite <- fasthash64_correct by assumption.
  set (h := fasthash64 k seed) in *.
  destruct consts_fasthash as (_ & _ & _ & _ & ->).
  rewrite wrap32_wrap64, wrap32_mod, shiftr_div by lia. reflexivity.
Qed.


Lemma lxor_range a b n : 0 < n -> 0 <= a < 2^n -> 0 <= b < 2^n -> 0 <= Z.lxor a b < 2^n.
Proof.
  intros Hn Ha Hb. split; [apply Z.lxor_nonneg; lia|].
  destruct (Z.eq_dec (Z.lxor a b) 0) as [->|Hnz]; [lia|].
  assert (0 <= Z.lxor a b) by (apply Z.lxor_nonneg; lia).
  apply Z.log2_lt_pow2; [lia|].
  eapply Z.le_lt_trans; [apply Z.log2_lxor; lia|].
  apply Z.max_lub_lt.
  - destruct (Z.eq_dec a 0) as [->|]; [simpl; lia|]. apply Z.log2_lt_pow2; lia.
  - destruct (Z.eq_dec b 0) as [->|]; [simpl; lia|]. apply Z.log2_lt_pow2; lia.
Qed.

Theorem fasthash32_range k seed : 0 <= fasthash32 k seed < 2^32.
Proof. unfold fasthash32, fh32_fin. apply wrap32_range. Qed.
