(* KernelTieNgramHll.v — hyperloglog.py _add_ngram as regenerated from the source (generated/KernelsNgram.v, harness/pytrans_ngram.py)
   against the model's window loop (Ngram.ngram_windows) and the model's driver Hll.hll_add_ngram.
   See KernelTieNgram.v for the conventions and the generic lemma. *)
From Coq Require Import ZArith List Lia Bool ZifyBool String.
From Sketchnu Require Import Machine BitLemmas Ngram NgramProofs KernelsNgram KernelTieNgram Hll.
Import ListNotations.
Open Scope Z_scope.

(* the keys _add_ngram hands to _add, assembled from the generated pieces *)
Definition ngram_hll_windows : key -> Z -> list key :=
  driver_windows gen_ngram_hll_key_len gen_ngram_hll_whole gen_ngram_hll_count gen_ngram_hll_lo gen_ngram_hll_hi.

Lemma tie_ngram_hll_pieces :
  driver_ok gen_ngram_hll_key_len gen_ngram_hll_whole gen_ngram_hll_count gen_ngram_hll_lo gen_ngram_hll_hi.
Proof. unfold gen_ngram_hll_key_len, gen_ngram_hll_whole, gen_ngram_hll_count, gen_ngram_hll_lo, gen_ngram_hll_hi. driver_ok_tac. Qed.

Lemma tie_ngram_hll_windows (k : key) (n : Z) :
  0 <= n < 2^64 -> zlen k < 2^63 -> ngram_hll_windows k n = ngram_windows k n.
Proof. apply driver_windows_model. exact tie_ngram_hll_pieces. Qed.

Lemma tie_ngram_hll_spec (k : key) (n : Z) :
  1 <= n < 2^64 -> zlen k < 2^63 -> ngram_hll_windows k n = windows (Z.to_nat n) k.
Proof. apply driver_windows_spec. exact tie_ngram_hll_pieces. Qed.

Lemma tie_ngram_hll_call : gen_ngram_hll_mult = None /\ gen_ngram_hll_threads_ptr = false.
Proof. split; vm_compute; reflexivity. Qed.

(* the single-add kernel both branches call (the translator also rejects any other name) *)
Lemma tie_ngram_hll_callee : gen_ngram_hll_callee = "_add"%string.
Proof. vm_compute; reflexivity. Qed.

(* the model's driver is the fold of the model's single-add kernel, called with the generated multiplicity, over the
   generated windows (hyperloglog's _add takes no multiplicity) *)
Lemma tie_ngram_hll_model (s : Hll.regs) (seed p m : Z) (k : key) (n : Z) :
  0 <= n < 2^64 -> zlen k < 2^63 ->
  Hll.hll_add_ngram s seed p m k n =
  fold_left (fun s0 w => Hll.hll_add s0 seed p m w) (ngram_hll_windows k n) s.
Proof.
  intros Hn Hk. rewrite tie_ngram_hll_windows by assumption. unfold Hll.hll_add_ngram.
  reflexivity.
Qed.

Lemma tie_ngram_hll :
  driver_ok gen_ngram_hll_key_len gen_ngram_hll_whole gen_ngram_hll_count gen_ngram_hll_lo gen_ngram_hll_hi /\
  (forall (k : key) (n : Z), 0 <= n < 2^64 -> zlen k < 2^63 -> ngram_hll_windows k n = ngram_windows k n) /\
  (forall (k : key) (n : Z), 1 <= n < 2^64 -> zlen k < 2^63 -> ngram_hll_windows k n = windows (Z.to_nat n) k) /\
  (gen_ngram_hll_mult = None /\ gen_ngram_hll_threads_ptr = false) /\
  (forall (s : Hll.regs) (seed p m : Z) (k : key) (n : Z), 0 <= n < 2^64 -> zlen k < 2^63 ->
     Hll.hll_add_ngram s seed p m k n =
     fold_left (fun s0 w => Hll.hll_add s0 seed p m w) (ngram_hll_windows k n) s).
Proof.
  exact (conj tie_ngram_hll_pieces (conj tie_ngram_hll_windows (conj tie_ngram_hll_spec (conj tie_ngram_hll_call
         (fun s seed p m => tie_ngram_hll_model s seed p m))))).
Qed.
