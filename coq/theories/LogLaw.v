(* LogLaw.v — the real-number law of the log counter (C06 b) and of _find_base (C18, reals).
   Uses Coq's Reals; Print Assumptions lists the standard real-number axioms only. *)
From Coq Require Import Reals Lra Lia ZArith.
Open Scope R_scope.

(* sum_{i < n} f i *)
Fixpoint rsum (f : nat -> R) (n : nat) : R :=
  match n with O => 0 | S n' => rsum f n' + f n' end.

Lemma rsum_ext f g n : (forall i, (i < n)%nat -> f i = g i) -> rsum f n = rsum g n.
Proof.
  induction n as [|n IH]; intros H; [reflexivity|]. cbn [rsum].
  rewrite IH by (intros; apply H; lia). rewrite H by lia. reflexivity.
Qed.

Lemma rsum_plus f g n : rsum (fun i => f i + g i) n = rsum f n + rsum g n.
Proof. induction n as [|n IH]; cbn [rsum]; [lra|]. rewrite IH. lra. Qed.

Lemma rsum_shift g n : rsum g (S n) = g O + rsum (fun j => g (S j)) n.
Proof. induction n as [|n IH]; [cbn [rsum]; lra|]. cbn [rsum] in *. rewrite IH. lra. Qed.

Lemma rsum_zero f n : (forall i, (i < n)%nat -> f i = 0) -> rsum f n = 0.
Proof. induction n as [|n IH]; intros H; cbn [rsum]; [reflexivity|]. rewrite IH, H by (try lia; intros; apply H; lia). lra. Qed.

Lemma rsum_nonneg f n : (forall i, (i < n)%nat -> 0 <= f i) -> 0 <= rsum f n.
Proof.
  induction n as [|n IH]; intros H; cbn [rsum]; [lra|].
  pose proof (IH ltac:(intros; apply H; lia)). pose proof (H n ltac:(lia)). lra.
Qed.

(* ================================================================== a pure-birth chain with a ceiling
   State i in 0..K.  Below K the state advances with probability q i, else stays; K is absorbing
   (the kernel returns at the ceiling without drawing).  w i is the decoded value of state i.
   If q i * (w (i+1) - w i) = 1 below K then the expected decoded value grows by exactly the
   probability mass that is still below the ceiling. *)
Section Chain.
Variable K : nat.
Variable q w : nat -> R.
Hypothesis unit_incr : forall i, (i < K)%nat -> q i * (w (S i) - w i) = 1.

Fixpoint dist (N : nat) : nat -> R :=
  match N with
  | O => fun i => if (i =? 0)%nat then 1 else 0
  | S N' => fun i =>
      let d := dist N' in
      (if (i <? K)%nat then d i * (1 - q i) else d i) +
      match i with O => 0 | S j => if (j <? K)%nat then d j * q j else 0 end
  end.

Definition expect (N : nat) : R := rsum (fun i => dist N i * w i) (S K).
Definition mass (N : nat) : R := rsum (dist N) (S K).
Definition below (N : nat) : R := rsum (dist N) K.      (* mass strictly below the ceiling *)

Lemma dist_support N : forall i, (K < i)%nat -> dist N i = 0.
Proof.
  induction N as [|N IH]; intros i Hi; cbn [dist].
  - destruct i; [lia|reflexivity].
  - cbn zeta. assert ((i <? K)%nat = false) as -> by (apply Nat.ltb_ge; lia).
    rewrite IH by lia. destruct i as [|j]; [lra|].
    assert ((j <? K)%nat = false) as -> by (apply Nat.ltb_ge; lia). lra.
Qed.

(* after N steps nothing is further than N states away *)
Lemma dist_time N : forall i, (N < i)%nat -> dist N i = 0.
Proof.
  induction N as [|N IH]; intros i Hi; cbn [dist].
  - destruct i; [lia|reflexivity].
  - cbn zeta. rewrite IH by lia. destruct i as [|j]; [lia|]. rewrite IH by lia.
    destruct (S j <? K)%nat; destruct (j <? K)%nat; lra.
Qed.

Lemma step_sum (u : nat -> R) N :
  rsum (fun i => dist (S N) i * u i) (S K) =
  rsum (fun i => dist N i * ((1 - q i) * u i + q i * u (S i))) K + dist N K * u K.
Proof.
  cbn [dist]. cbn zeta.
  rewrite (rsum_ext _ (fun i => (if (i <? K)%nat then dist N i * (1 - q i) else dist N i) * u i +
                               match i with O => 0 | S j => if (j <? K)%nat then dist N j * q j else 0 end * u i))
    by (intros; ring).
  rewrite rsum_plus. rewrite (rsum_shift (fun i => match i with O => 0 | S j => _ end * u i)).
  cbn [rsum]. assert ((K <? K)%nat = false) as -> by (apply Nat.ltb_irrefl).
  rewrite (rsum_ext (fun i => (if (i <? K)%nat then dist N i * (1 - q i) else dist N i) * u i)
                    (fun i => dist N i * (1 - q i) * u i) K)
    by (intros i Hi; assert ((i <? K)%nat = true) as -> by (apply Nat.ltb_lt; lia); reflexivity).
  rewrite (rsum_ext (fun j => (if (j <? K)%nat then dist N j * q j else 0) * u (S j))
                    (fun j => dist N j * q j * u (S j)) K)
    by (intros i Hi; assert ((i <? K)%nat = true) as -> by (apply Nat.ltb_lt; lia); reflexivity).
  rewrite (rsum_ext (fun i => dist N i * ((1 - q i) * u i + q i * u (S i)))
                    (fun i => dist N i * (1 - q i) * u i + dist N i * q i * u (S i)) K)
    by (intros; ring).
  rewrite rsum_plus. ring.
Qed.

Lemma mass_step N : mass (S N) = mass N.
Proof.
  unfold mass.
  rewrite (rsum_ext (dist (S N)) (fun i => dist (S N) i * 1)) by (intros; ring).
  rewrite (step_sum (fun _ => 1) N). cbn [rsum].
  rewrite (rsum_ext _ (dist N) K) by (intros; ring). ring.
Qed.

Lemma mass_zero : mass 0 = 1.
Proof.
  unfold mass. rewrite rsum_shift. cbn [dist Nat.eqb].
  rewrite rsum_zero by (intros; reflexivity). lra.
Qed.

Theorem mass_one N : mass N = 1.
Proof. induction N as [|N IH]; [apply mass_zero|]. rewrite mass_step. exact IH. Qed.

Lemma below_mass N : below N = 1 - dist N K.
Proof. pose proof (mass_one N) as H. unfold mass in H. cbn [rsum] in H. unfold below. lra. Qed.

(* one step of the chain: the expectation grows by the mass that can still move *)
Theorem expect_step N : expect (S N) = expect N + below N.
Proof.
  unfold expect, below. rewrite step_sum. cbn [rsum].
  rewrite (rsum_ext (fun i => dist N i * ((1 - q i) * w i + q i * w (S i)))
                    (fun i => dist N i * w i + dist N i) K).
  - rewrite rsum_plus. ring.
  - intros i Hi. pose proof (unit_incr i Hi) as U.
    replace ((1 - q i) * w i + q i * w (S i)) with (w i + q i * (w (S i) - w i)) by ring.
    rewrite U. ring.
Qed.

Lemma expect_zero : expect 0 = w O.
Proof.
  unfold expect. rewrite rsum_shift. cbn [dist Nat.eqb].
  rewrite rsum_zero by (intros; cbn [Nat.eqb]; ring). lra.
Qed.

(* N steps: E = start + N - (mass-time spent at the ceiling) *)
Theorem expect_N N : expect N = w O + INR N - rsum (fun t => dist t K) N.
Proof.
  induction N as [|N IH].
  - rewrite expect_zero. cbn [rsum INR]. lra.
  - rewrite expect_step, IH, below_mass, S_INR. cbn [rsum]. lra.
Qed.

(* exact while the ceiling cannot have been reached *)
Theorem expect_exact N : (N <= K)%nat -> expect N = w O + INR N.
Proof.
  intros H. rewrite expect_N. rewrite rsum_zero; [lra|].
  intros t Ht. apply dist_time. lia.
Qed.

Hypothesis q_range : forall i, 0 <= q i <= 1.

Lemma dist_nonneg N : forall i, 0 <= dist N i.
Proof.
  induction N as [|N IH]; intros i; cbn [dist].
  - destruct (i =? 0)%nat; lra.
  - cbn zeta. pose proof (IH i). pose proof (q_range i).
    assert (0 <= (if (i <? K)%nat then dist N i * (1 - q i) else dist N i)).
    { destruct (i <? K)%nat; [apply Rmult_le_pos; lra|lra]. }
    destruct i as [|j]; [lra|]. pose proof (IH j). pose proof (q_range j).
    destruct (j <? K)%nat; [|lra]. pose proof (Rmult_le_pos (dist N j) (q j)). lra.
Qed.

(* ... and never above the true count *)
Theorem expect_le N : expect N <= w O + INR N.
Proof.
  rewrite expect_N. pose proof (rsum_nonneg (fun t => dist t K) N ltac:(intros; apply dist_nonneg)). lra.
Qed.
End Chain.

(* ================================================================== the log counter *)
Section LogCounterLaw.
Variable b : R.
Hypothesis b_gt1 : 1 < b.
Variable nr : Z.

(* decoded value of counter c (the real-number meaning of _counter2value) and the probability
   that a unit add advances it (the real-number meaning of the test in _log_counter) *)
Definition val (c : Z) : R :=
  if (c <? nr)%Z then IZR c else IZR nr + (b ^ Z.to_nat (c - nr) - 1) / (b - 1).
Definition p (c : Z) : R :=
  if (c <? nr)%Z then 1 else / b ^ Z.to_nat (c - nr).

Lemma b_pow_pos n : 0 < b ^ n.
Proof. apply pow_lt. lra. Qed.

Lemma val_reserved c : (c <= nr)%Z -> val c = IZR c.
Proof.
  intros H. unfold val. destruct (c <? nr)%Z eqn:E; [reflexivity|].
  assert (c = nr) as -> by lia. rewrite Z.sub_diag. cbn [Z.to_nat pow]. field. lra.
Qed.

Lemma val_log c : (nr <= c)%Z -> val c = IZR nr + (b ^ Z.to_nat (c - nr) - 1) / (b - 1).
Proof.
  intros H. unfold val. destruct (c <? nr)%Z eqn:E; [lia|reflexivity].
Qed.

Lemma p_log c : (nr <= c)%Z -> p c = / b ^ Z.to_nat (c - nr).
Proof. intros H. unfold p. destruct (c <? nr)%Z eqn:E; [lia|reflexivity]. Qed.

(* probability of the step times the size of the step is one, for every counter value *)
Theorem unit_increment c : p c * (val (c + 1) - val c) = 1.
Proof.
  destruct (Z_lt_le_dec c nr) as [H|H].
  - rewrite (val_reserved c), (val_reserved (c + 1)) by lia.
    unfold p. assert ((c <? nr)%Z = true) as -> by lia. rewrite plus_IZR. lra.
  - rewrite (val_log c), (val_log (c + 1)), p_log by lia.
    replace (Z.to_nat (c + 1 - nr)) with (S (Z.to_nat (c - nr))) by lia.
    pose proof (b_pow_pos (Z.to_nat (c - nr))). cbn [pow]. field. split; lra.
Qed.

Theorem cond_expect c : p c * val (c + 1) + (1 - p c) * val c = val c + 1.
Proof. pose proof (unit_increment c). lra. Qed.

Lemma p_range c : 0 <= p c <= 1.
Proof.
  unfold p. destruct (c <? nr)%Z; [lra|].
  pose proof (b_pow_pos (Z.to_nat (c - nr))) as Hp.
  assert (1 <= b ^ Z.to_nat (c - nr)) by (apply pow_R1_Rle; lra).
  split; [left; apply Rinv_0_lt_compat; exact Hp|].
  rewrite <- Rinv_1. apply Rinv_le_contravar; lra.
Qed.

(* the chain started at counter c0 with ceiling umax *)
Variable umax c0 : Z.
Definition Kc : nat := Z.to_nat (umax - c0).
Definition qc (i : nat) : R := p (c0 + Z.of_nat i).
Definition wc (i : nat) : R := val (c0 + Z.of_nat i).
(* distribution of the counter after N unit adds: cdist N i = P(counter = c0 + i) *)
Definition cdist (N : nat) (i : nat) : R := dist Kc qc N i.
Definition cexpect (N : nat) : R := expect Kc qc wc N.

Lemma qc_unit i : (i < Kc)%nat -> qc i * (wc (S i) - wc i) = 1.
Proof.
  intros _. unfold qc, wc. replace (c0 + Z.of_nat (S i))%Z with (c0 + Z.of_nat i + 1)%Z by lia.
  apply unit_increment.
Qed.

Theorem chain_expect N :
  cexpect N = val c0 + INR N - rsum (fun t => cdist t Kc) N.
Proof.
  unfold cexpect, cdist. rewrite (expect_N Kc qc wc qc_unit N). unfold wc.
  replace (c0 + Z.of_nat 0)%Z with c0 by lia. reflexivity.
Qed.

Theorem chain_expect_exact N : (N <= Kc)%nat -> cexpect N = val c0 + INR N.
Proof.
  intros H. unfold cexpect. rewrite (expect_exact Kc qc wc qc_unit N H). unfold wc.
  replace (c0 + Z.of_nat 0)%Z with c0 by lia. reflexivity.
Qed.

Theorem chain_expect_le N : cexpect N <= val c0 + INR N.
Proof.
  unfold cexpect. pose proof (expect_le Kc qc wc qc_unit (fun i => p_range _) N) as H. unfold wc in H at 2.
  replace (c0 + Z.of_nat 0)%Z with c0 in H by lia. exact H.
Qed.

Theorem chain_mass N : rsum (cdist N) (S Kc) = 1.
Proof. apply (mass_one Kc qc N). Qed.
End LogCounterLaw.

(* ================================================================== _find_base (C18) *)
(* _func l.73-79:  base ** (uint_max - num_reserved) - M * base + (M - 1.0), M = max_count - num_reserved
   _funcprime l.82-89 (after the repair of F3):  K * base ** (K - 1) - M,  K = uint_max - num_reserved *)
Definition func (M : R) (K : nat) (b : R) : R := b ^ K - M * b + (M - 1).
Definition funcprime (M : R) (K : nat) (b : R) : R := INR K * b ^ pred K - M.

(* a root of _func above 1 is exactly a base whose ceiling decodes to max_count *)
Theorem base_equation b M nr K : 1 < b -> (1 <= K)%nat ->
  (func M K b = 0 <-> nr + (b ^ K - 1) / (b - 1) = nr + M).
Proof.
  intros Hb HK. unfold func. split; intros H.
  - assert (b ^ K - 1 = M * (b - 1)) as -> by lra. field. lra.
  - assert (E : (b ^ K - 1) / (b - 1) = M) by lra.
    assert (b ^ K - 1 = M * (b - 1)) by (rewrite <- E; field; lra). lra.
Qed.

Theorem funcprime_is_derivative M K b : derivable_pt_lim (func M K) b (funcprime M K b).
Proof.
  unfold funcprime.
  assert (H : derivable_pt_lim
            (plus_fct (minus_fct (fun y => y ^ K) (mult_real_fct M id)) (fct_cte (M - 1))) b
            (INR K * b ^ pred K - M * 1 + 0)).
  { apply derivable_pt_lim_plus; [apply derivable_pt_lim_minus|apply derivable_pt_lim_const].
    - apply derivable_pt_lim_pow.
    - apply derivable_pt_lim_scal. apply derivable_pt_lim_id. }
  replace (INR K * b ^ pred K - M) with (INR K * b ^ pred K - M * 1 + 0) by ring.
  exact H.
Qed.

(* num_reserved = uint_max - 1 (K = 1): the equation is (b - 1)(1 - M) = 0, no base above 1 solves it *)
Theorem K1_unsolvable M b : 1 < b -> M <> 1 -> func M 1 b <> 0.
Proof.
  intros Hb HM H. unfold func in H. cbn [pow] in H.
  assert (E : (b - 1) * (1 - M) = 0) by lra.
  apply Rmult_integral in E. destruct E; lra.
Qed.

(* in terms of the decoded ceiling of LogLaw: func = 0 iff val umax = max_count *)
Theorem root_is_ceiling b nr umax max_count : 1 < b -> (nr < umax)%Z ->
  (func (IZR max_count - IZR nr) (Z.to_nat (umax - nr)) b = 0 <-> val b nr umax = IZR max_count).
Proof.
  intros Hb H. rewrite (val_log b nr umax) by lia.
  rewrite (base_equation b (IZR max_count - IZR nr) (IZR nr) (Z.to_nat (umax - nr)) Hb) by lia.
  split; intros E; lra.
Qed.
