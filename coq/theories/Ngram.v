(* Ngram.v — the window loop shared by every _add_ngram* kernel
   (countmin.py l.391-407, 1024-1056, 1623-1655; hyperloglog.py l.231-236; heavyhitters.py l.130-157):
     key_len = uint64(len(key))
     if key_len <= ngram: add(key)
     else: for i in range(key_len - (ngram - uint64(1))): add(key[i : i + ngram])
   Definitions only. *)
From Coq Require Import ZArith List.
From Sketchnu Require Import Machine.
Import ListNotations.
Open Scope Z_scope.

(* transcription, with the uint64 arithmetic of the loop bound written out *)
Definition ngram_windows (k : key) (n : Z) : list key :=
  let key_len := wrap64 (zlen k) in
  if key_len <=? n then [k]
  else map (fun i => slice k i (Z.to_nat n))
           (seq 0 (Z.to_nat (wrap64 (key_len - wrap64 (n - 1))))).

(* specification: every length-n window, or the key itself when it is not longer than n *)
Fixpoint windows_from (n : nat) (k : key) (cnt : nat) : list key :=
  match cnt with
  | O => []
  | S c => firstn n k :: windows_from n (tl k) c
  end.
Definition windows (n : nat) (k : key) : list key :=
  if (length k <=? n)%nat then [k] else windows_from n k (length k - n + 1).
