(* Hashes.v — transcription of /repo/sketchnu/hashes.py, function for function and
   branch for branch.  Constants come from generated/Consts.v (re-read from the
   source on every run).  Definitions only. *)
From Coq Require Import ZArith List.
From Sketchnu Require Import Machine Consts.
Import ListNotations.
Open Scope Z_scope.

(* hashes.py l.30-32  _xor_shiftl(v, t, l) : uint64 *)
Definition xor_shiftl (v t l : Z) : Z := wrap64 (Z.lxor v (wrap64 (Z.shiftl t l))).

(* hashes.py l.35-41  _fhmix64 *)
Definition fhmix64 (h : Z) : Z :=
  let h := Z.lxor h (Z.shiftr h fh_s1) in
  let h := wrap64 (h * fh_c) in
  Z.lxor h (Z.shiftr h fh_s2).

(* one round: h ^= _fhmix64(v); h *= m *)
Definition fh_round (h v : Z) : Z := wrap64 (Z.lxor h (fhmix64 v) * fh_m).

(* np.frombuffer(8 bytes, uint64) on a little-endian machine *)
Definition le8 (b0 b1 b2 b3 b4 b5 b6 b7 : Z) : Z :=
  Z.lor b0 (Z.lor (Z.shiftl b1 8) (Z.lor (Z.shiftl b2 16) (Z.lor (Z.shiftl b3 24)
  (Z.lor (Z.shiftl b4 32) (Z.lor (Z.shiftl b5 40) (Z.lor (Z.shiftl b6 48) (Z.shiftl b7 56))))))).

(* l.70-76: loop over the complete 8-byte blocks; returns (h, remaining tail) *)
Fixpoint fh_blocks (n : nat) (k : key) (h : Z) : Z * key :=
  match n with
  | O => (h, k)
  | S n' =>
    match k with
    | b0 :: b1 :: b2 :: b3 :: b4 :: b5 :: b6 :: b7 :: r =>
        fh_blocks n' r (fh_round h (le8 b0 b1 b2 b3 b4 b5 b6 b7))
    | _ => (h, k)
    end
  end.

(* l.80-143: the seven-way switch on key_len & 7, with its explicit shift chains *)
Definition fh_tail (sw : Z) (tail : key) (h : Z) : Z :=
  let t i := nth i tail 0 in
  if sw =? 7 then
    let v := 0 in
    let v := xor_shiftl v (t 6%nat) 48 in
    let v := xor_shiftl v (t 5%nat) 40 in
    let v := xor_shiftl v (t 4%nat) 32 in
    let v := xor_shiftl v (t 3%nat) 24 in
    let v := xor_shiftl v (t 2%nat) 16 in
    let v := xor_shiftl v (t 1%nat) 8 in
    let v := Z.lxor v (t 0%nat) in
    fh_round h v
  else if sw =? 6 then
    let v := 0 in
    let v := xor_shiftl v (t 5%nat) 40 in
    let v := xor_shiftl v (t 4%nat) 32 in
    let v := xor_shiftl v (t 3%nat) 24 in
    let v := xor_shiftl v (t 2%nat) 16 in
    let v := xor_shiftl v (t 1%nat) 8 in
    let v := Z.lxor v (t 0%nat) in
    fh_round h v
  else if sw =? 5 then
    let v := 0 in
    let v := xor_shiftl v (t 4%nat) 32 in
    let v := xor_shiftl v (t 3%nat) 24 in
    let v := xor_shiftl v (t 2%nat) 16 in
    let v := xor_shiftl v (t 1%nat) 8 in
    let v := Z.lxor v (t 0%nat) in
    fh_round h v
  else if sw =? 4 then
    let v := 0 in
    let v := xor_shiftl v (t 3%nat) 24 in
    let v := xor_shiftl v (t 2%nat) 16 in
    let v := xor_shiftl v (t 1%nat) 8 in
    let v := Z.lxor v (t 0%nat) in
    fh_round h v
  else if sw =? 3 then
    let v := 0 in
    let v := xor_shiftl v (t 2%nat) 16 in
    let v := xor_shiftl v (t 1%nat) 8 in
    let v := Z.lxor v (t 0%nat) in
    fh_round h v
  else if sw =? 2 then
    let v := 0 in
    let v := xor_shiftl v (t 1%nat) 8 in
    let v := Z.lxor v (t 0%nat) in
    fh_round h v
  else if sw =? 1 then
    let v := 0 in
    let v := Z.lxor v (t 0%nat) in
    fh_round h v
  else h.

(* hashes.py l.44-145  fasthash64(key, seed) *)
Definition fasthash64 (k : key) (seed : Z) : Z :=
  let key_len := wrap64 (zlen k) in
  let nblocks := key_len / 8 in
  let h := Z.lxor seed (wrap64 (key_len * fh_m)) in
  let '(h, tail) := fh_blocks (Z.to_nat nblocks) k h in
  let sw := Z.land key_len 7 in
  let h := fh_tail sw tail h in
  fhmix64 h.

(* hashes.py l.148-168  fasthash32 *)
Definition fh32_fin (h : Z) : Z := wrap32 (wrap64 (h - Z.shiftr h fh32_shift)).
Definition fasthash32 (k : key) (seed : Z) : Z := fh32_fin (fasthash64 k seed).

(* ---------------- Murmur3 : every helper takes and returns uint32 *)
Definition xor32 (x y : Z) : Z := wrap32 (Z.lxor (wrap32 x) (wrap32 y)).
Definition shift32r (x y : Z) : Z := wrap32 (Z.shiftr (wrap32 x) (wrap32 y)).
Definition shift32l (x y : Z) : Z := wrap32 (Z.shiftl (wrap32 x) (wrap32 y)).
(* l.190-192 *)
Definition rotl32 (x r : Z) : Z :=
  wrap32 (Z.lor (shift32l (wrap32 x) (wrap32 r)) (shift32r (wrap32 x) (mm_rotw - wrap32 r))).
(* l.195-206; `h *= uint32(c)` is a 64-bit product in Numba, truncated at the next call *)
Definition fmix32 (h : Z) : Z :=
  let h := wrap32 h in
  let h := xor32 h (shift32r h mm_f1) in
  let h := wrap64 (h * mm_fc1) in
  let h := xor32 h (shift32r h mm_f2) in
  let h := wrap64 (h * mm_fc2) in
  let h := xor32 h (shift32r h mm_f3) in
  wrap32 h.

Definition le4 (b0 b1 b2 b3 : Z) : Z :=
  Z.lor b0 (Z.lor (Z.shiftl b1 8) (Z.lor (Z.shiftl b2 16) (Z.shiftl b3 24))).

(* k1 *= c1; k1 = rotl32(k1,15); k1 *= c2 *)
Definition mm_k1 (k1 : Z) : Z :=
  let k1 := wrap64 (k1 * mm_c1) in
  let k1 := rotl32 k1 mm_r1 in
  wrap64 (k1 * mm_c2).

(* l.241-249 *)
Fixpoint mm_blocks (n : nat) (k : key) (h : Z) : Z * key :=
  match n with
  | O => (h, k)
  | S n' =>
    match k with
    | b0 :: b1 :: b2 :: b3 :: r =>
        let k1 := mm_k1 (le4 b0 b1 b2 b3) in
        let h := xor32 h k1 in
        let h := rotl32 h mm_r2 in
        let h := wrap64 (h * mm_mul5 + mm_c3) in
        mm_blocks n' r h
    | _ => (h, k)
    end
  end.

(* l.251-273 *)
Definition mm_tail (sw : Z) (tail : key) (h : Z) : Z :=
  let t i := nth i tail 0 in
  let k1 := 0 in
  if sw =? 3 then
    let k1 := xor32 k1 (shift32l (t 2%nat) 16) in
    let k1 := xor32 k1 (shift32l (t 1%nat) 8) in
    let k1 := xor32 k1 (t 0%nat) in
    xor32 h (mm_k1 k1)
  else if sw =? 2 then
    let k1 := xor32 k1 (shift32l (t 1%nat) 8) in
    let k1 := xor32 k1 (t 0%nat) in
    xor32 h (mm_k1 k1)
  else if sw =? 1 then
    let k1 := xor32 k1 (t 0%nat) in
    xor32 h (mm_k1 k1)
  else h.

(* hashes.py l.209-278  murmur3(key, seed) *)
Definition murmur3 (k : key) (seed : Z) : Z :=
  let key_len := wrap32 (zlen k) in
  let nblocks := key_len / 4 in
  let h := seed in
  let '(h, tail) := mm_blocks (Z.to_nat nblocks) k h in
  let sw := Z.land key_len 3 in
  let h := mm_tail sw tail h in
  let h := xor32 h key_len in
  fmix32 h.
