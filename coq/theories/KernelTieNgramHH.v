(* KernelTieNgramHH.v — heavyhitters.py _add_ngram as regenerated from the source (generated/KernelsNgram.v, harness/pytrans_ngram.py)
   against the model's window loop (Ngram.ngram_windows) and the model's driver HH.hh_add_ngram.
   See KernelTieNgram.v for the conventions and the generic lemma. *)
From Coq Require Import ZArith List Lia Bool ZifyBool String.
From Sketchnu Require Import Machine BitLemmas Ngram NgramProofs KernelsNgram KernelTieNgram HH.
Import ListNotations.
Open Scope Z_scope.

(* the keys _add_ngram hands to _add, assembled from the generated pieces *)
Definition ngram_hh_windows : key -> Z -> list key :=
  driver_windows gen_ngram_hh_key_len gen_ngram_hh_whole gen_ngram_hh_count gen_ngram_hh_lo gen_ngram_hh_hi.

Lemma tie_ngram_hh_pieces :
  driver_ok gen_ngram_hh_key_len gen_ngram_hh_whole gen_ngram_hh_count gen_ngram_hh_lo gen_ngram_hh_hi.
Proof. unfold gen_ngram_hh_key_len, gen_ngram_hh_whole, gen_ngram_hh_count, gen_ngram_hh_lo, gen_ngram_hh_hi. driver_ok_tac. Qed.

Lemma tie_ngram_hh_windows (k : key) (n : Z) :
  0 <= n < 2^64 -> zlen k < 2^63 -> ngram_hh_windows k n = ngram_windows k n.
Proof. apply driver_windows_model. exact tie_ngram_hh_pieces. Qed.

Lemma tie_ngram_hh_spec (k : key) (n : Z) :
  1 <= n < 2^64 -> zlen k < 2^63 -> ngram_hh_windows k n = windows (Z.to_nat n) k.
Proof. apply driver_windows_spec. exact tie_ngram_hh_pieces. Qed.

Lemma tie_ngram_hh_call : gen_ngram_hh_mult = Some 1 /\ gen_ngram_hh_threads_ptr = false.
Proof. split; vm_compute; reflexivity. Qed.

(* the single-add kernel both branches call (the translator also rejects any other name) *)
Lemma tie_ngram_hh_callee : gen_ngram_hh_callee = "_add"%string.
Proof. vm_compute; reflexivity. Qed.

(* the model's driver is the fold of the model's single-add kernel, called with the generated multiplicity, over the
   generated windows *)
Lemma tie_ngram_hh_model depth max_key_len bucket (s : HH.sketch) (k : key) (n : Z) :
  0 <= n < 2^64 -> zlen k < 2^63 ->
  HH.hh_add_ngram depth max_key_len bucket s k n =
  fold_left (fun s0 w => HH.hh_add_raw depth max_key_len bucket s0 w (mult_value gen_ngram_hh_mult)) (ngram_hh_windows k n) s.
Proof.
  intros Hn Hk. rewrite tie_ngram_hh_windows by assumption. unfold HH.hh_add_ngram.
  assert (mult_value gen_ngram_hh_mult = 1) as -> by (vm_compute; reflexivity).
  reflexivity.
Qed.

Lemma tie_ngram_hh :
  driver_ok gen_ngram_hh_key_len gen_ngram_hh_whole gen_ngram_hh_count gen_ngram_hh_lo gen_ngram_hh_hi /\
  (forall (k : key) (n : Z), 0 <= n < 2^64 -> zlen k < 2^63 -> ngram_hh_windows k n = ngram_windows k n) /\
  (forall (k : key) (n : Z), 1 <= n < 2^64 -> zlen k < 2^63 -> ngram_hh_windows k n = windows (Z.to_nat n) k) /\
  (gen_ngram_hh_mult = Some 1 /\ gen_ngram_hh_threads_ptr = false) /\
  (forall depth max_key_len bucket (s : HH.sketch) (k : key) (n : Z), 0 <= n < 2^64 -> zlen k < 2^63 ->
     HH.hh_add_ngram depth max_key_len bucket s k n =
     fold_left (fun s0 w => HH.hh_add_raw depth max_key_len bucket s0 w (mult_value gen_ngram_hh_mult)) (ngram_hh_windows k n) s).
Proof.
  exact (conj tie_ngram_hh_pieces (conj tie_ngram_hh_windows (conj tie_ngram_hh_spec (conj tie_ngram_hh_call
         (fun depth max_key_len bucket s => tie_ngram_hh_model depth max_key_len bucket s))))).
Qed.
