(* MergingHHProofs.v — parallel_add over heavy-hitter sketches: the result is eval of an HH merge
   tree whose leaves are exactly the adds of the items (as a multiset), so C03 and C04 apply to
   the whole stream. *)
From Coq Require Import ZArith List Bool Lia Permutation.
From Sketchnu Require Import Machine BitLemmas Consts Ngram Merging MergingProofs HH HHProofs MergingHH.
Import ListNotations.
Open Scope Z_scope.

Lemma wsum_perm f a b : Permutation a b -> wsum f a = wsum f b.
Proof. unfold wsum. induction 1; cbn [fold_right]; lia. Qed.

Lemma leaves_hadds it : forall h, leaves (hadds h it) = leaves h ++ it.
Proof.
  unfold hadds, HUpdateDict. induction it as [|[k v] it IH]; intros h; cbn [fold_left].
  - rewrite app_nil_r. reflexivity.
  - rewrite IH. cbn [leaves fst snd]. rewrite <- app_assoc. reflexivity.
Qed.

Lemma leaves_worker_gen E order : forall h,
  leaves (fold_left (fun h i => hadds h (nth i E [])) order h) = leaves h ++ flat_map (fun i => nth i E []) order.
Proof.
  induction order as [|i order IH]; intros h; cbn [fold_left flat_map]; [rewrite app_nil_r; reflexivity|].
  rewrite IH, leaves_hadds, app_assoc. reflexivity.
Qed.

Lemma leaves_worker E order : leaves (hh_worker_hist E order) = flat_map (fun i => nth i E []) order.
Proof. unfold hh_worker_hist. rewrite leaves_worker_gen. reflexivity. Qed.

Lemma leaves_seq_gen E : forall h, leaves (fold_left hadds E h) = leaves h ++ concat E.
Proof.
  induction E as [|it E IH]; intros h; cbn [fold_left concat]; [rewrite app_nil_r; reflexivity|].
  rewrite IH, leaves_hadds, app_assoc. reflexivity.
Qed.

(* the leaves of the sequential history are the adds of all items, in stream order *)
Theorem leaves_seq E : leaves (hh_seq_hist E) = concat E.
Proof. unfold hh_seq_hist. rewrite leaves_seq_gen. reflexivity. Qed.

Lemma wf_hadds it : forall h, wf h -> hh_item_wf it -> wf (hadds h it).
Proof.
  unfold hadds, HUpdateDict, hh_item_wf. induction it as [|kv it IH]; intros h Hh Hit; cbn [fold_left]; [exact Hh|].
  inversion Hit; subst. apply IH; [|assumption]. cbn [wf]. tauto.
Qed.

Lemma wf_hh_worker E order : Forall hh_item_wf E -> wf (hh_worker_hist E order).
Proof.
  intros HE. unfold hh_worker_hist. assert (G : wf HEmpty) by exact I. revert G. generalize HEmpty.
  induction order as [|i order IH]; intros h Hh; cbn [fold_left]; [exact Hh|].
  apply IH. apply wf_hadds; [exact Hh|].
  destruct (nth_in_or_default i E []) as [Hin| ->]; [|constructor].
  rewrite Forall_forall in HE. apply HE. exact Hin.
Qed.

Lemma wf_hh_seq E : Forall hh_item_wf E -> wf (hh_seq_hist E).
Proof.
  unfold hh_seq_hist. assert (G : wf HEmpty) by exact I. revert G. generalize HEmpty.
  induction E as [|it E IH]; intros h Hh HE; cbn [fold_left]; [exact Hh|].
  inversion HE; subst. apply IH; [|assumption]. apply wf_hadds; assumption.
Qed.

Lemma wf_hh_tree (t : tree hist) : wf (eval_tree hist HMerge t) <-> Forall wf (Merging.leaves t).
Proof.
  induction t as [h|a IHa b IHb]; cbn [eval_tree Merging.leaves].
  - split; [intros H; constructor; [exact H|constructor]|intros H; inversion H; assumption].
  - cbn [wf]. rewrite Forall_app. tauto.
Qed.

(* the merge tree built by the rounds over the workers' histories: its leaves are a permutation
   of the adds of the whole stream *)
Theorem hh_tree_leaves E sched T : valid_sched (length E) sched ->
  pm hist HMerge (map (hh_worker_hist E) sched) = Some T ->
  Permutation (leaves T) (leaves (hh_seq_hist E)) /\ (Forall hh_item_wf E -> wf T).
Proof.
  intros HV HT. split.
  - rewrite leaves_seq.
    assert (HK : leaves T = flat_map (fun i => nth i E []) (concat sched)).
    { destruct sched as [|o0 sched']; [destruct HV; congruence|]. cbn [map] in HT.
      rewrite (pm_measure hist HMerge (list (key * Z)) (@app (key * Z)) (fun a b c => eq_sym (app_assoc a b c))
                 leaves (fun _ _ => eq_refl) _ _ _ HT).
      rewrite fold_app_concat, map_map. cbn [concat]. rewrite flat_map_app, <- concat_map_flat_map.
      rewrite leaves_worker. f_equal. f_equal. apply map_ext. intros order. apply leaves_worker. }
    rewrite HK. destruct HV as [_ HP].
    assert (EQ : concat E = flat_map (fun i => nth i E []) (seq 0 (length E))).
    { unfold cms_item in *. rewrite flat_map_concat_map. rewrite (map_nth_seq (fun x => x) [] E), map_id. reflexivity. }
    rewrite EQ. apply Permutation_flat_map. exact HP.
  - intros HE. apply pm_tree in HT. destruct HT as (t & Hl & ->). apply wf_hh_tree. rewrite Hl.
    apply Forall_forall. intros h Hh. apply in_map_iff in Hh. destruct Hh as (order & <- & _).
    apply wf_hh_worker. exact HE.
Qed.

Section HHPAProofs.
Variable width depth max_key_len : nat.
Variable bucket : nat -> key -> nat.
Variable default_thr : Z -> Z.
Notation eval := (HH.eval width depth max_key_len bucket default_thr).
Notation hh_pa := (hh_pa width depth max_key_len bucket).
Notation truth := (HH.truth max_key_len).
Notation mass := (HH.mass max_key_len bucket).
Notation step := (fun (s : sketch) (kv : key * Z) => hh_add depth max_key_len bucket s (fst kv) (snd kv)).

Lemma eval_hadds it h : eval (hadds h it) = fold_left step it (eval h).
Proof. unfold hadds. rewrite eval_update_dict. reflexivity. Qed.

Lemma hh_worker_eval_gen E order : forall h,
  eval (fold_left (fun h i => hadds h (nth i E [])) order h) =
  fold_left step (flat_map (fun i => nth i E []) order) (eval h).
Proof.
  induction order as [|i order IH]; intros h; cbn [fold_left flat_map]; [reflexivity|].
  rewrite IH, eval_hadds, fold_left_app. reflexivity.
Qed.

Lemma hh_worker_final outs order :
  worker_final sketch cms_item (hh_apply depth max_key_len bucket) hh_add_records outs order (hh_empty max_key_len) =
  hh_add_records (eval (hh_worker_hist (eff_items outs) order)) (wrecs outs order).
Proof.
  unfold Merging.worker_final, hh_worker_hist, wrecs.
  rewrite (eff_fold sketch (key * Z)%type step (hh_apply depth max_key_len bucket) (fun _ _ => eq_refl)).
  rewrite hh_worker_eval_gen. reflexivity.
Qed.

Definition mergeH (a b : hist * Z) : hist * Z := (HMerge (fst a) (fst b), snd a + snd b).
Definition realizeH (a : hist * Z) : sketch := hh_with_records (eval (fst a)) (snd a).

Lemma realizeH_merge a b : realizeH (mergeH a b) = hh_merge width depth (realizeH a) (realizeH b).
Proof.
  unfold realizeH, mergeH, hh_with_records, hh_merge. cbn [fst snd HH.eval tab n_added n_records cand n_added_sort thr_sort].
  unfold hh_merge. cbn [tab n_added n_records cand n_added_sort thr_sort]. f_equal. lia.
Qed.

(* parallel_add over heavy hitters, any outcomes, any schedule *)
Theorem hh_pa_spec (outs : list (outcome cms_item)) sched :
  valid_sched (length outs) sched ->
  Forall (fun o => 0 <= recs cms_item o) outs -> zsum (map (recs cms_item) outs) < 2^64 ->
  exists T, pm hist HMerge (map (hh_worker_hist (eff_items outs)) sched) = Some T /\
            hh_pa outs sched = Some (hh_with_records (eval T) (zsum (map (recs cms_item) outs))).
Proof.
  intros HV Hn Hs. set (E := eff_items outs).
  set (L := map (fun order => (hh_worker_hist E order, wrecs outs order)) sched).
  assert (HW : map (fun order => worker_final sketch cms_item (hh_apply depth max_key_len bucket) hh_add_records
                                   outs order (hh_empty max_key_len)) sched = map realizeH L).
  { unfold L. rewrite map_map. apply map_ext_in. intros order Hin. rewrite hh_worker_final.
    pose proof (wrecs_range O (fun _ _ => O) outs sched order HV Hn Hs Hin) as R.
    unfold hh_add_records, realizeH. cbn [fst snd]. change two64m with (2^64).
    destruct (0 <=? wrecs outs order) eqn:E1; [|lia]. destruct (wrecs outs order <? 2^64) eqn:E2; [|lia]. reflexivity. }
  unfold MergingHH.hh_pa, pa_model. rewrite HW. rewrite (pm_map _ _ mergeH (hh_merge width depth) realizeH realizeH_merge).
  destruct (pm (hist * Z) mergeH L) as [[T N]|] eqn:EL.
  2:{ exfalso. revert EL. apply pm_total. unfold L. destruct HV as [Hne _]. destruct sched; [congruence|discriminate]. }
  pose proof (pm_map _ _ mergeH HMerge fst (fun _ _ => eq_refl) L) as H1. rewrite EL in H1. cbn [option_map fst] in H1.
  pose proof (pm_map _ _ mergeH Z.add snd (fun _ _ => eq_refl) L) as H2. rewrite EL in H2. cbn [option_map snd] in H2.
  unfold L in H1, H2. rewrite map_map in H1, H2. cbn [fst snd] in H1, H2.
  exists T. split; [exact H1|]. cbn [option_map]. unfold realizeH. cbn [fst snd]. do 2 f_equal.
  rewrite <- (wrecs_sum outs sched HV).
  destruct sched as [|o0 sched']; [destruct HV; congruence|]. cbn [map] in H2 |- *.
  rewrite (pm_fold Z Z.add (fun a b c => eq_sym (Z.add_assoc a b c))) in H2. injection H2 as <-.
  rewrite fold_add_zsum, zsum_cons. reflexivity.
Qed.

(* truth, mass, total and well-formedness of the tree are those of the stream of what took effect *)
Theorem hh_tree_facts E sched T : valid_sched (length E) sched ->
  pm hist HMerge (map (hh_worker_hist E) sched) = Some T ->
  Permutation (leaves T) (leaves (hh_seq_hist E)) /\
  (forall x, truth T x = truth (hh_seq_hist E) x) /\
  (forall r c, mass T r c = mass (hh_seq_hist E) r c) /\
  total T = total (hh_seq_hist E) /\
  (Forall hh_item_wf E -> wf T).
Proof.
  intros HV HT. destruct (hh_tree_leaves E sched T HV HT) as [HP HW].
  split; [exact HP|]. split; [|split; [|split; [|exact HW]]].
  - intros x. unfold HH.truth. apply wsum_perm. exact HP.
  - intros r c. unfold HH.mass. apply wsum_perm. exact HP.
  - unfold HH.total. apply wsum_perm. exact HP.
Qed.

Lemma n_records_eval h : n_records (eval h) = 0.
Proof.
  induction h as [|h IH k v|h IH k n|h1 IH1 h2 IH2|h IH|h IH thr|h IH thr]; cbn [HH.eval].
  - reflexivity.
  - unfold hh_add. destruct (add_raw_rest depth max_key_len bucket (eval h) k (wrap32 (Z.min v hh_cap))) as [-> _]. exact IH.
  - unfold hh_add_ngram. revert IH. generalize (eval h). induction (ngram_windows k n) as [|w ws IHw]; intros s Hs; cbn [fold_left]; [exact Hs|].
    apply IHw. destruct (add_raw_rest depth max_key_len bucket s w 1) as [-> _]. exact Hs.
  - cbn [hh_merge n_records]. rewrite IH1, IH2. reflexivity.
  - unfold hh_load, hh_generate. cbn [n_records]. exact IH.
  - unfold hh_query. cbn [fst]. destruct (_ || _); [unfold hh_generate; cbn [n_records]|]; exact IH.
  - unfold hh_generate. cbn [n_records]. exact IH.
Qed.

(* reads that do not look at n_records *)
Lemma hh_get_with_records s n k : hh_get depth max_key_len bucket (hh_with_records s n) k = hh_get depth max_key_len bucket s k.
Proof. reflexivity. Qed.
Lemma hh_query_with_records s n k thr :
  snd (hh_query width depth max_key_len bucket default_thr (hh_with_records s n) k thr) =
  snd (hh_query width depth max_key_len bucket default_thr s k thr).
Proof.
  unfold hh_query, hh_with_records, thr_of. cbn [n_added n_added_sort thr_sort].
  destruct (_ || _); reflexivity.
Qed.
Lemma thr_of_with_records s n thr : thr_of default_thr (hh_with_records s n) thr = thr_of default_thr s thr.
Proof. reflexivity. Qed.

(* n_added when no multiplicity exceeds the uint32 range *)
Lemma n_added_hadds it : hh_item_small it -> forall h, n_added (eval (hadds h it)) = n_added (eval h) + item_total it.
Proof.
  unfold hh_item_small, item_total. induction 1 as [|kv it Hkv Hit IH]; intros h.
  - unfold zsum. cbn. lia.
  - unfold hadds, HUpdateDict in *. cbn [fold_left map]. rewrite IH. cbn [HH.eval]. rewrite zsum_cons.
    unfold hh_add. rewrite add_raw_n_added.
    assert (wrap32 (Z.min (snd kv) hh_cap) = snd kv) as ->; [|lia].
    rewrite Z.min_l by lia. apply wrap32_small. pose proof cap_val. lia.
Qed.

Lemma n_added_worker E order : Forall hh_item_small E ->
  n_added (eval (hh_worker_hist E order)) = zsum (map (fun i => item_total (nth i E [])) order).
Proof.
  intros HE. unfold hh_worker_hist.
  assert (G : forall h, n_added (eval (fold_left (fun h i => hadds h (nth i E [])) order h)) =
                        n_added (eval h) + zsum (map (fun i => item_total (nth i E [])) order)).
  { induction order as [|i order IH]; intros h; cbn [fold_left map]; [unfold zsum; cbn; lia|].
    rewrite IH, n_added_hadds, zsum_cons; [lia|].
    destruct (nth_in_or_default i E []) as [Hin| ->]; [|constructor]. rewrite Forall_forall in HE. apply HE. exact Hin. }
  rewrite G. reflexivity.
Qed.

Theorem n_added_hh_tree E sched T : valid_sched (length E) sched -> Forall hh_item_small E ->
  pm hist HMerge (map (hh_worker_hist E) sched) = Some T ->
  n_added (eval T) = zsum (map item_total E).
Proof.
  intros HV HE HT. rewrite <- (sched_sum item_total [] E sched HV).
  destruct sched as [|o0 sched']; [destruct HV; congruence|]. cbn [map] in HT.
  rewrite (pm_measure hist HMerge Z Z.add (fun a b c => eq_sym (Z.add_assoc a b c))
             (fun h => n_added (eval h)) (fun _ _ => eq_refl) _ _ _ HT).
  rewrite fold_add_zsum, map_map. cbn [map]. rewrite zsum_cons. f_equal; [apply n_added_worker; exact HE|].
  f_equal. apply map_ext. intros order. apply n_added_worker. exact HE.
Qed.

Hypothesis bucket_lt : forall r k, (bucket r k < width)%nat.
Hypothesis mkl_le : (max_key_len <= 255)%nat.

(* ---------- C08, fault-free ---------- *)
Theorem C08_hh_inherits_thm (items : list (cms_item * Z)) sched :
  valid_sched (length items) sched ->
  Forall (fun it => 0 <= snd it) items -> zsum (map snd items) < 2^64 ->
  exists T : hist,
    pm hist HMerge (map (hh_worker_hist (map fst items)) sched) = Some T /\
    hh_pa (ok_outs items) sched = Some (hh_with_records (eval T) (zsum (map snd items))) /\
    Permutation (leaves T) (leaves (hh_seq_hist (map fst items))) /\
    (forall x, truth T x = truth (hh_seq_hist (map fst items)) x) /\
    (forall r c, mass T r c = mass (hh_seq_hist (map fst items)) r c) /\
    total T = total (hh_seq_hist (map fst items)) /\
    (Forall hh_item_wf (map fst items) -> wf T).
Proof.
  intros HV Hn Hs.
  assert (HV' : valid_sched (length (ok_outs items)) sched) by (rewrite length_ok_outs; exact HV).
  destruct (hh_pa_spec (ok_outs items) sched HV') as (T & HT & HP).
  - rewrite Forall_forall in Hn |- *. intros o Ho. apply in_map_iff in Ho. destruct Ho as (it & <- & Hit). apply Hn. exact Hit.
  - rewrite recs_ok_outs. exact Hs.
  - unfold cms_item in *. rewrite eff_ok_outs in HT. rewrite recs_ok_outs in HP. exists T. split; [exact HT|]. split; [exact HP|].
    apply (hh_tree_facts (map fst items) sched T); [rewrite map_length; exact HV|exact HT].
Qed.

(* C03 with respect to the whole stream: no over-count, nothing reported that was not added;
   n_records = sum of the callback's returns *)
Theorem C08_hh_no_overcount_thm (items : list (cms_item * Z)) sched :
  valid_sched (length items) sched ->
  Forall (fun it => 0 <= snd it) items -> zsum (map snd items) < 2^64 ->
  Forall hh_item_wf (map fst items) ->
  exists s, hh_pa (ok_outs items) sched = Some s /\
    n_records s = zsum (map snd items) /\
    (forall k, hh_get depth max_key_len bucket s k <= truth (hh_seq_hist (map fst items)) (ident max_key_len k)) /\
    (forall kk thr x n, In (x, n) (snd (hh_query width depth max_key_len bucket default_thr s kk thr)) ->
                        0 < n <= truth (hh_seq_hist (map fst items)) x).
Proof.
  intros HV Hn Hs HE. destruct (C08_hh_inherits_thm items sched HV Hn Hs) as (T & _ & HP & _ & Ht & _ & _ & Hw).
  specialize (Hw HE). eexists. split; [exact HP|]. split; [|split].
  - cbn [hh_with_records n_records]. rewrite n_records_eval. lia.
  - intros k. rewrite hh_get_with_records, <- Ht. apply C03_getitem_lemma; assumption.
  - intros kk thr x n Hin. rewrite hh_query_with_records in Hin. rewrite <- Ht.
    apply (C03_query_lemma width depth max_key_len bucket default_thr bucket_lt mkl_le T kk thr x n Hw Hin).
Qed.

(* C04 with respect to the whole stream: a key with more than half of the stream is reported
   first, with a count of at least 2f - N; and the per-row guarantee of C04_getitem *)
Theorem C08_hh_majority_thm (items : list (cms_item * Z)) sched :
  valid_sched (length items) sched ->
  Forall (fun it => 0 <= snd it) items -> zsum (map snd items) < 2^64 ->
  Forall hh_item_wf (map fst items) -> (0 < depth)%nat ->
  exists s, hh_pa (ok_outs items) sched = Some s /\
    (forall x thr, total (hh_seq_hist (map fst items)) < 2^32 ->
       2 * truth (hh_seq_hist (map fst items)) x > total (hh_seq_hist (map fst items)) ->
       thr_of default_thr s thr <= 2 * truth (hh_seq_hist (map fst items)) x - total (hh_seq_hist (map fst items)) ->
       exists n, hd_error (snd (hh_query width depth max_key_len bucket default_thr s (Some 1) thr)) = Some (x, n) /\
                 n >= 2 * truth (hh_seq_hist (map fst items)) x - total (hh_seq_hist (map fst items)) /\
                 n = hh_get depth max_key_len bucket s x) /\
    (forall k r, (r < depth)%nat ->
       let x := ident max_key_len k in
       mass (hh_seq_hist (map fst items)) r (bucket r x) < 2^32 ->
       0 < 2 * truth (hh_seq_hist (map fst items)) x - mass (hh_seq_hist (map fst items)) r (bucket r x) ->
       hh_get depth max_key_len bucket s k >=
       2 * truth (hh_seq_hist (map fst items)) x - mass (hh_seq_hist (map fst items)) r (bucket r x)).
Proof.
  intros HV Hn Hs HE Hd. destruct (C08_hh_inherits_thm items sched HV Hn Hs) as (T & _ & HP & _ & Ht & Hm & Htot & Hw).
  specialize (Hw HE). eexists. split; [exact HP|]. split.
  - intros x thr H32 Hmaj Hthr. rewrite hh_query_with_records, hh_get_with_records. rewrite thr_of_with_records in Hthr.
    rewrite <- Ht, <- Htot in *.
    exact (C04_majority_lemma width depth max_key_len bucket default_thr bucket_lt mkl_le T x thr Hw Hd H32 Hmaj Hthr).
  - intros k r Hr x H32 Hpos. rewrite hh_get_with_records. subst x. rewrite <- Ht, <- Hm in *.
    exact (C04_getitem_lemma width depth max_key_len bucket default_thr bucket_lt mkl_le T k r Hw Hr H32 Hpos).
Qed.

Theorem C08_hh_nadded_thm (items : list (cms_item * Z)) sched :
  valid_sched (length items) sched ->
  Forall (fun it => 0 <= snd it) items -> zsum (map snd items) < 2^64 ->
  Forall hh_item_small (map fst items) ->
  exists s, hh_pa (ok_outs items) sched = Some s /\ n_added s = zsum (map item_total (map fst items)).
Proof.
  intros HV Hn Hs HE. destruct (C08_hh_inherits_thm items sched HV Hn Hs) as (T & HT & HP & _).
  eexists. split; [exact HP|]. cbn [hh_with_records n_added].
  apply (n_added_hh_tree (map fst items) sched T); [rewrite map_length; exact HV|exact HE|exact HT].
Qed.

(* ---------- C19: callback faults ---------- *)
Lemma wsum_ok_le_eff f (outs : list (outcome cms_item)) : Forall hh_item_wf (eff_items outs) ->
  wsum f (concat (ok_items outs)) <= wsum f (concat (eff_items outs)).
Proof.
  unfold ok_items, eff_items. induction outs as [|o outs IH]; cbn [map concat]; intros H; [lia|].
  inversion H; subst. rewrite !wsum_app. specialize (IH H3).
  destruct o; cbn [ok1 eff1] in *; try lia.
  assert (0 <= wsum f ops); [|rewrite wsum_nil; lia].
  apply wsum_nonneg. unfold nonneg, hh_item_wf in *. eapply Forall_impl; [|exact H2]. cbn. tauto.
Qed.

Theorem C19_hh_thm (outs : list (outcome cms_item)) sched :
  valid_sched (length outs) sched ->
  Forall (fun o => 0 <= recs cms_item o) outs -> zsum (map (recs cms_item) outs) < 2^64 ->
  Forall hh_item_wf (eff_items outs) ->
  exists s, hh_pa outs sched = Some s /\
    n_records s = zsum (map (recs cms_item) (filter (is_ok cms_item) outs)) /\
    forall k, let x := ident max_key_len k in
      truth (hh_seq_hist (ok_items outs)) x <= truth (hh_seq_hist (eff_items outs)) x /\
      hh_get depth max_key_len bucket s k <= truth (hh_seq_hist (eff_items outs)) x /\
      forall r, (r < depth)%nat ->
        mass (hh_seq_hist (eff_items outs)) r (bucket r x) < 2^32 ->
        0 < 2 * truth (hh_seq_hist (eff_items outs)) x - mass (hh_seq_hist (eff_items outs)) r (bucket r x) ->
        hh_get depth max_key_len bucket s k >=
        2 * truth (hh_seq_hist (eff_items outs)) x - mass (hh_seq_hist (eff_items outs)) r (bucket r x).
Proof.
  intros HV Hn Hs HE. destruct (hh_pa_spec outs sched HV Hn Hs) as (T & HT & HP).
  assert (HV' : valid_sched (length (eff_items outs)) sched) by (unfold eff_items; rewrite map_length; exact HV).
  destruct (hh_tree_facts (eff_items outs) sched T HV' HT) as (_ & Ht & Hm & _ & Hw). specialize (Hw HE).
  eexists. split; [exact HP|]. split.
  - cbn [hh_with_records n_records]. rewrite n_records_eval, <- recs_ok_only. lia.
  - intros k x. rewrite hh_get_with_records. split; [|split].
    + unfold HH.truth. rewrite !leaves_seq. apply wsum_ok_le_eff. exact HE.
    + subst x. rewrite <- Ht. apply C03_getitem_lemma; assumption.
    + intros r Hr H32 Hpos. subst x. rewrite <- Ht, <- Hm in *.
      exact (C04_getitem_lemma width depth max_key_len bucket default_thr bucket_lt mkl_le T k r Hw Hr H32 Hpos).
Qed.
End HHPAProofs.
