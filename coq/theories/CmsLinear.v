(* CmsLinear.v — model of CountMinLinear (countmin.py l.249-460, 496-813).
   Definitions only.  The row hash is a Section variable: every theorem about this
   file holds for every function bucket : row -> key -> column below width. *)
From Coq Require Import ZArith List Bool.
From Sketchnu Require Import Machine Consts Ngram.
Import ListNotations.
Open Scope Z_scope.

(* uint_maxval of CountMinLinear.__init__ (l.523), re-read from the source *)
Definition cap : Z := lin_cap.

Definition table := nat -> nat -> Z.           (* row -> column -> uint32 counter *)
Record sk := { cms : table; n_added : Z; n_records : Z }.

Definition empty : sk := {| cms := fun _ _ => 0; n_added := 0; n_records := 0 |}.

Section Cms.
Variable width depth : nat.
Variable bucket : nat -> key -> nat.

(* _query_linear l.274-280: min over the rows, starting from uint_maxval *)
Fixpoint qrows (t : table) (k : key) (rows : list nat) (acc : Z) : Z :=
  match rows with
  | [] => acc
  | r :: rs => let c := t r (bucket r k) in qrows t k rs (if c <? acc then c else acc)
  end.
Definition query (s : sk) (k : key) : Z := qrows (cms s) k (seq 0 depth) cap.

(* _add_linear l.326-344; value is a uint32 here *)
Definition add_linear (s : sk) (k : key) (value : Z) : sk :=
  let min_count := query s k in
  if min_count =? cap then s
  else
    let value := Z.min value (cap - min_count) in
    let new_count := min_count + value in
    {| cms := fun r c =>
         let old := cms s r c in      (* read once: keeps vm_compute linear in the history *)
         if (r <? depth)%nat && (c =? bucket r k)%nat && (old <? new_count)
         then new_count else old;
       n_added := n_added s + value;
       n_records := n_records s |}.

(* CountMinLinear.add l.577: value = min(value, self.uint_maxval) *)
Definition cls_add (s : sk) (k : key) (value : Z) : sk := add_linear s k (Z.min value cap).

(* update l.605-610 *)
Definition update_list (s : sk) (ks : list key) : sk := fold_left (fun s k => cls_add s k 1) ks s.
Definition update_dict (s : sk) (kvs : list (key * Z)) : sk :=
  fold_left (fun s kv => cls_add s (fst kv) (snd kv)) kvs s.

(* _add_ngram_linear l.391-407: unit adds over the windows, straight into _add_linear *)
Definition add_ngram (s : sk) (k : key) (n : Z) : sk :=
  fold_left (fun s w => add_linear s w 1) (ngram_windows k n) s.
Definition update_ngram (s : sk) (ks : list key) (n : Z) : sk :=
  fold_left (fun s k => add_ngram s k n) ks s.

(* _merge_linear l.452-460 *)
Definition merge_cell (mine other : Z) : Z :=
  if other >? cap - mine then cap else mine + other.
Definition merge (a b : sk) : sk :=
  {| cms := fun r c => merge_cell (cms a r c) (cms b r c);
     n_added := n_added a + n_added b;
     n_records := n_records a + n_records b |}.

(* save / load (l.719-753): the file holds the table as a depth x width array *)
Definition tabulate (t : table) : list (list Z) :=
  map (fun r => map (fun c => t r c) (seq 0 width)) (seq 0 depth).
Definition of_rows (rows : list (list Z)) : table :=
  fun r c => nth c (nth r rows []) 0.
Definition saveload (s : sk) : sk :=
  {| cms := of_rows (tabulate (cms s)); n_added := n_added s; n_records := n_records s |}.

(* ---------------- histories ---------------- *)
(* core history: adds with multiplicity, merges of arbitrary sub-histories, save/load *)
Inductive hist :=
| HEmpty
| HAdd (h : hist) (k : key) (v : Z)
| HMerge (h1 h2 : hist)
| HSaveLoad (h : hist).

Fixpoint eval (h : hist) : sk :=
  match h with
  | HEmpty => empty
  | HAdd h k v => cls_add (eval h) k v
  | HMerge h1 h2 => merge (eval h1) (eval h2)
  | HSaveLoad h => saveload (eval h)
  end.

(* true count: total multiplicity (uncapped) of k over all leaves *)
Fixpoint truth (h : hist) (k : key) : Z :=
  match h with
  | HEmpty => 0
  | HAdd h j v => truth h k + (if keqb k j then v else 0)
  | HMerge h1 h2 => truth h1 k + truth h2 k
  | HSaveLoad h => truth h k
  end.

(* row mass: total multiplicity of all keys whose counter in row r is column c *)
Fixpoint mass (h : hist) (r c : nat) : Z :=
  match h with
  | HEmpty => 0
  | HAdd h j v => mass h r c + (if (bucket r j =? c)%nat then v else 0)
  | HMerge h1 h2 => mass h1 r c + mass h2 r c
  | HSaveLoad h => mass h r c
  end.

Fixpoint total (h : hist) : Z :=
  match h with
  | HEmpty => 0
  | HAdd h _ v => total h + v
  | HMerge h1 h2 => total h1 + total h2
  | HSaveLoad h => total h
  end.

(* well-formed: multiplicities are non-negative (the API converts to uint32) *)
Fixpoint wf (h : hist) : Prop :=
  match h with
  | HEmpty => True
  | HAdd h _ v => wf h /\ 0 <= v
  | HMerge h1 h2 => wf h1 /\ wf h2
  | HSaveLoad h => wf h
  end.

(* API-level history: every public entry point; desugars to the core *)
Inductive ahist :=
| AEmpty
| AAdd (h : ahist) (k : key) (v : Z)
| AUpdateList (h : ahist) (ks : list key)
| AUpdateDict (h : ahist) (kvs : list (key * Z))
| ANgram (h : ahist) (k : key) (n : Z)
| AUpdateNgram (h : ahist) (ks : list key) (n : Z)
| AMerge (h1 h2 : ahist)
| ASaveLoad (h : ahist).

Fixpoint aeval (h : ahist) : sk :=
  match h with
  | AEmpty => empty
  | AAdd h k v => cls_add (aeval h) k v
  | AUpdateList h ks => update_list (aeval h) ks
  | AUpdateDict h kvs => update_dict (aeval h) kvs
  | ANgram h k n => add_ngram (aeval h) k n
  | AUpdateNgram h ks n => update_ngram (aeval h) ks n
  | AMerge h1 h2 => merge (aeval h1) (aeval h2)
  | ASaveLoad h => saveload (aeval h)
  end.

Definition adds1 (h : hist) (ws : list key) : hist := fold_left (fun h w => HAdd h w 1) ws h.

Fixpoint desugar (h : ahist) : hist :=
  match h with
  | AEmpty => HEmpty
  | AAdd h k v => HAdd (desugar h) k v
  | AUpdateList h ks => adds1 (desugar h) ks
  | AUpdateDict h kvs => fold_left (fun h kv => HAdd h (fst kv) (snd kv)) kvs (desugar h)
  | ANgram h k n => adds1 (desugar h) (ngram_windows k n)
  | AUpdateNgram h ks n => fold_left (fun h k => adds1 h (ngram_windows k n)) ks (desugar h)
  | AMerge h1 h2 => HMerge (desugar h1) (desugar h2)
  | ASaveLoad h => HSaveLoad (desugar h)
  end.

End Cms.
