(* KernelTieApiLog.v — CountMinLog16.add / CountMinLog8.add as regenerated from the source AST on every run
   (generated/KernelsApi.v): the multiplicity is handed to _add_log16 / _add_log8 unchanged and the kernel's result is
   written back to self.rand_ptr, as in the model's class glue (CmsLog.lcls_add). *)
From Coq Require Import ZArith Lia.
From Sketchnu Require Import Machine Consts KernelsApi CmsLog.
Open Scope Z_scope.

Lemma tie_api_log :
  (forall v u, gen_api_log16_add_value v u = Some v) /\ (forall v u, gen_api_log8_add_value v u = Some v) /\
  gen_api_log16_add_writes_back = true /\ gen_api_log8_add_writes_back = true /\
  (forall depth bucket nr umax powneg castc (s : lsk) (k : key) (v u : Z),
     option_map (add_log depth bucket nr umax powneg castc s k) (gen_api_log16_add_value v u)
       = Some (lcls_add depth bucket nr umax powneg castc s k v) /\
     option_map (add_log depth bucket nr umax powneg castc s k) (gen_api_log8_add_value v u)
       = Some (lcls_add depth bucket nr umax powneg castc s k v)).
Proof.
  assert (H16 : forall v u, gen_api_log16_add_value v u = Some v) by (intros; unfold gen_api_log16_add_value; cbv zeta; reflexivity).
  assert (H8 : forall v u, gen_api_log8_add_value v u = Some v) by (intros; unfold gen_api_log8_add_value; cbv zeta; reflexivity).
  repeat split; try assumption; try reflexivity; intros; rewrite ?H16, ?H8; reflexivity.
Qed.
