(* HllQuery.v — model of HyperLogLog.query(): /repo/sketchnu/hyperloglog.py
   _linear_counting (l.49-69), _estimation_function (l.71-84), _query (l.132-163),
   HyperLogLog.__init__ l.336-343 (alpha, threshold, table rows), query() l.451-467.
   Definitions only.  Floating point is Coq's kernel binary64 (PrimFloat): + - * / and the
   comparisons are IEEE-754 exactly as in Numba (LLVM, no fast-math); `2.0 ** (-r)` is an exact
   power of two; np.log is replaced by ln_model below (accurate to a few ulp, ln 1 = 0 exactly);
   np.interp is Numba's port of NumPy's arr_interp (numba/np/arraymath.py np_interp_impl_inner),
   transcribed branch for branch except for the search strategy (see interp_scan). *)
From Coq Require Import ZArith List Bool Floats.PrimFloat Uint63 Floats.SpecFloat Floats.FloatOps.
From Sketchnu Require Import Machine Consts HllTables.
Import ListNotations.
Open Scope Z_scope.

(* ---------------------------------------------------------------- conversions *)
(* PrimFloat's frshiftexp/ldshiftexp carry the exponent with this offset *)
Definition fshift : Z := 2101.

(* float64(<uint64 value>): exact for 0 <= z < 2^53 (every integer converted here is < 2^33) *)
Definition f_of_Z (z : Z) : float := of_uint63 (Uint63.of_Z z).
Definition f_of_Zs (z : Z) : float := if z <? 0 then (- f_of_Z (- z))%float else f_of_Z z.

(* 2.0 ** (-float64(r)) for a uint8 register value r in 0..255: the exact power of two 2^-r *)
Definition pow2neg (r : Z) : float := ldshiftexp 1%float (Uint63.of_Z (fshift - r)).

(* ---------------------------------------------------------------- logarithm (stand-in for np.log) *)
Definition ln2 : float := 0x1.62e42fefa39efp-1%float.
Definition sqrt_half : float := 0x1.6a09e667f3bcdp-1%float.

(* atanh series: atanh s = s * (1 + z/3 + z^2/5 + ... + z^12/25), z = s^2, |s| <= 0.1716 *)
Definition atanh_poly (z : float) : float :=
  (1 + z * (1/3 + z * (1/5 + z * (1/7 + z * (1/9 + z * (1/11 + z * (1/13 + z * (1/15 + z * (1/17 +
       z * (1/19 + z * (1/21 + z * (1/23 + z * (1/25)))))))))))))%float.

(* x = f * 2^e with f in [sqrt(1/2), sqrt 2);  ln x = e ln 2 + 2 atanh((f-1)/(f+1)).
   Meaningful for finite x > 0 (the only use is x = m / n_zero in [1, 65536]);
   x = 1 gives f = 1, e = 0, s = 0 and the result is +0 exactly. *)
Definition ln_model (x : float) : float :=
  let (f0, e0) := frshiftexp x in
  let ez := Uint63.to_Z e0 - fshift in
  let '(f, e) := if (f0 <? sqrt_half)%float then ((f0 * 2)%float, ez - 1) else (f0, ez) in
  let s := ((f - 1) / (f + 1))%float in
  let z := (s * s)%float in
  (f_of_Zs e * ln2 + 2 * s * atanh_poly z)%float.

(* ---------------------------------------------------------------- l.49-69, l.71-84 *)
(* np.count_nonzero(registers) *)
Definition nonzerob (r : Z) : bool := negb (r =? 0).
Definition count_nz (regs : list Z) : Z := Z.of_nat (length (filter nonzerob regs)).

(* l.69  float64(m) * np.log(float64(m) / float64(n_zero)) *)
Definition linear_counting (m n_zero : Z) : float :=
  (f_of_Z m * ln_model (f_of_Z m / f_of_Z n_zero))%float.

(* l.81-83  total = 0.0; for r in registers: total += 2.0 ** (-float64(r))   (register order) *)
Definition sum_pow2neg (regs : list Z) : float :=
  fold_left (fun t r => (t + pow2neg r)%float) regs 0%float.

(* l.84  alpha * float64(m**2) / total      (m**2 in uint64: m <= 2^16, no wrap) *)
Definition estimation_function (regs : list Z) (m : Z) (alpha : float) : float :=
  (alpha * f_of_Z (m * m) / sum_pow2neg regs)%float.

(* ---------------------------------------------------------------- __init__ l.327, l.336-343 *)
Definition hllq_m (p : Z) : Z := 2 ^ p.
(* l.336  np.float64(0.7213 / (1.0 + 1.079 / self.m))   — the three literals come from Consts.v *)
Definition alpha_model (m : Z) : float :=
  (hll_alpha_num / (hll_alpha_one + hll_alpha_den / f_of_Z m))%float.
(* l.341-343: the rows are indexed by int(p) - 7 *)
Definition row_index (p : Z) : nat := Z.to_nat (p - hll_table_offset).
Definition hll_threshold (p : Z) : Z := nth (row_index p) sub_algorithm_threshold 0.
Definition hll_raw (p : Z) : list float := nth (row_index p) raw_estimate [].
Definition hll_bias (p : Z) : list float := nth (row_index p) bias_data [].

(* ---------------------------------------------------------------- np.interp (scalar x) *)
(* The interpolation arithmetic of np_interp_impl_inner for the segment [x0,x1], j < lenxp-1:
   exact knot -> fp[j]; otherwise slope*(x - xp[j]) + fp[j] with slope computed on the fly
   (lenxp > lenx = 1), including the NaN fall-backs of NumPy >= 1.17. *)
Definition interp_segment (x x0 x1 y0 y1 : float) : float :=
  if (x0 =? x)%float then y0
  else
    let slope := ((y1 - y0) / (x1 - x0))%float in
    let r := (slope * (x - x0) + y0)%float in
    if is_nan r then
      let r2 := (slope * (x - x1) + y1)%float in
      if is_nan r2 && (y0 =? y1)%float then y0 else r2
    else r.

(* binary_search_with_guess returns the greatest j with xp[j] <= x once xp[0] <= x <= xp[last];
   for a sorted xp that is the first j with x < xp[j+1] (C17_raw_increasing shows the shipped
   rows are strictly increasing; C17_interp_unique shows the segment is then unique), which is
   what this scan finds.  Reaching the last knot is the case j = lenxp-1 -> fp[j]. *)
Fixpoint interp_scan (x : float) (xp fp : list float) : float :=
  match xp, fp with
  | x0 :: ((x1 :: _) as xp'), y0 :: ((y1 :: _) as fp') =>
      if (x <? x1)%float then interp_segment x x0 x1 y0 y1 else interp_scan x xp' fp'
  | [_], [y0] => y0
  | _, _ => nan
  end.

Definition interp (x : float) (xp fp : list float) : float :=
  match xp, fp with
  | x0 :: _, y0 :: _ =>
      if is_nan x then x
      else if (last xp x0 <? x)%float then last fp y0      (* key > arr[length-1] -> rval *)
      else if (x <? x0)%float then y0                       (* key < arr[0]        -> lval *)
      else interp_scan x xp fp
  | _, _ => nan
  end.

(* ---------------------------------------------------------------- _query l.132-163 *)
Inductive regime_t := LC | Corrected | Raw.

(* the branch decision: l.146 `n_zero > 0`, l.152 `cardinality > threshold`
   (threshold is uint64, converted to float64 for the comparison), l.159
   `cardinality <= float64(5 * m)`.  The literals 0 and 5 come from Consts.v. *)
Definition regime (m thr n_zero : Z) (lc raw : float) : regime_t :=
  if n_zero >? hll_zero_cmp then
    if (f_of_Z thr <? lc)%float then Corrected else LC
  else
    if (raw <=? f_of_Z (hll_raw_mult * m))%float then Corrected else Raw.

Definition query_full (p : Z) (regs : list Z) : regime_t * float :=
  let m := hllq_m p in
  let n_zero := m - count_nz regs in                    (* l.144 *)
  let lc := linear_counting m n_zero in                      (* l.148, used only if n_zero > 0 *)
  let raw := estimation_function regs m (alpha_model m) in   (* l.153 / l.157 *)
  let rg := regime m (hll_threshold p) n_zero lc raw in
  (rg, match rg with
       | LC => lc
       | Corrected => (raw - interp raw (hll_raw p) (hll_bias p))%float   (* l.154-155 / l.160-161 *)
       | Raw => raw
       end).

Definition query_model (p : Z) (regs : list Z) : float := snd (query_full p regs).
Definition query_regime (p : Z) (regs : list Z) : regime_t := fst (query_full p regs).

(* ---------------------------------------------------------------- helpers for case files *)
Definition regime_code (r : regime_t) : Z := match r with LC => 0 | Corrected => 1 | Raw => 2 end.

(* run-length decoding [(value,count); ...] -> register list, in order *)
Definition expand_rle (l : list (Z * Z)) : list Z :=
  flat_map (fun vc => match snd vc with
                      | Zpos c => Pos.iter (cons (fst vc)) [] c
                      | _ => []
                      end) l.

Definition zeros (n : Z) : list Z := expand_rle [(0, n)].

(* |a - b| <= rel * |b|  (true when a = b, including 0 = 0; false if either is NaN) *)
Definition fclose (rel a b : float) : bool := (abs (a - b) <=? rel * abs b)%float.

Fixpoint flist_eqb (a b : list float) : bool :=
  match a, b with
  | [], [] => true
  | x :: a', y :: b' => (x =? y)%float && flist_eqb a' b'
  | _, _ => false
  end.

Definition regs_okb (p : Z) (regs : list Z) : bool :=
  (Z.of_nat (length regs) =? hllq_m p) && forallb (fun r => (0 <=? r) && (r <? 256)) regs.

(* one correspondence case: precision, run-length encoded registers, the implementation's
   query() value and the regime computed on the implementation side *)
Definition check_query (rel : float) (c : Z * list (Z * Z) * float * Z) : bool :=
  let '(p, rle, est, rg) := c in
  let regs := expand_rle rle in
  let '(mr, mv) := query_full p regs in
  regs_okb p regs && (regime_code mr =? rg) && fclose rel mv est.

(* the per-instance constants the implementation holds: threshold, alpha, the two table rows *)
Definition check_consts (c : Z * Z * float * list float * list float) : bool :=
  let '(p, thr, alpha, raw, bias) := c in
  (hll_threshold p =? thr) && (alpha_model (hllq_m p) =? alpha)%float &&
  flist_eqb (hll_raw p) raw && flist_eqb (hll_bias p) bias.

(* the logarithm stand-in against np.log on the arguments m / n_zero *)
Definition check_ln (rel : float) (c : Z * Z * float) : bool :=
  let '(m, nz, v) := c in fclose rel (linear_counting m nz) v.

(* ---------------------------------------------------------------- vocabulary of the C17 / C07 theorems *)
Fixpoint incrb (l : list float) : bool :=
  match l with
  | a :: ((b :: _) as t) => (a <? b)%float && incrb t
  | _ => true
  end.

(* consecutive entries compare `<` in binary64 (so none of them is a NaN) *)
Definition strictly_increasing (l : list float) : Prop :=
  forall i : nat, (S i < length l)%nat -> (nth i l nan <? nth (S i) l nan)%float = true.

(* f is a positive normal binary64 number within half a unit in the last place of the rational
   n/d (0 < n/d < 2), i.e. what a correctly rounding parser makes of the decimal literal n/d.
   Exact integer arithmetic on the mantissa/exponent of f. *)
Definition is_binary64_of_ratio (f : float) (n d : Z) : bool :=
  match Prim2SF f with
  | S754_finite false mant e =>
      (e <? 0) && (2 ^ 52 <=? Zpos mant) && (Zpos mant <? 2 ^ 53) &&
      (2 * Z.abs (Zpos mant * d - n * 2 ^ (- e)) <=? d)
  | _ => false
  end.

(* a generic register file under adds (stand-in for Hll._add in C07_occupied_le_n): every key
   is written to one register, chosen by idx, whose value is raised to the key's rank *)
Fixpoint upd_max (regs : list Z) (i : nat) (v : Z) : list Z :=
  match regs, i with
  | [], _ => []
  | r :: t, O => Z.max r v :: t
  | r :: t, S i' => r :: upd_max t i' v
  end.

Section AddModel.
  Variable idx : key -> nat.
  Variable rank : key -> Z.
  Definition add_key (regs : list Z) (k : key) : list Z := upd_max regs (idx k) (rank k).
  Definition add_keys (regs : list Z) (ks : list key) : list Z := fold_left add_key ks regs.
End AddModel.

Definition keyq_eq_dec : forall a b : key, {a = b} + {a <> b} := list_eq_dec Z.eq_dec.
