(* KernelTieLogAdd.v - _add_log16 / _add_log8 (see KernelTieLog.v for the conventions) *)
From Coq Require Import ZArith List Lia Bool ZifyBool.
From Coq Require Import Floats.PrimFloat.
From Sketchnu Require Import Machine BitLemmas KernelsLog CmsLog CmsLogProofs KernelTieLog.
Import ListNotations.
Open Scope Z_scope.

(* ---------------- _add_log16 l.937 / _add_log8 l.1534: n_added_records[0] += uint64(value) ---------------- *)
Lemma tie_add_log_n_added na v : 0 <= na -> 0 <= v -> na + v < 2^64 ->
  gen_add_log16_n_added na v = na + v /\ gen_add_log8_n_added na v = na + v.
Proof.
  intros Hn Hv Hs. unfold gen_add_log16_n_added, gen_add_log8_n_added. cbv zeta.
  rewrite ?wrap64_idem. unwrap. split; lia.
Qed.

(* ---------------- _add_log16 l.946-947 / _add_log8 l.1543-1546: (cast,) early return ---------------- *)
Lemma tie_add_log16_post mc nc : gen_add_log16_post mc nc = if nc =? mc then None else Some nc.
Proof. unfold gen_add_log16_post. cbv zeta. tie_ifs. Qed.
Lemma tie_add_log8_post mc nc : 0 <= nc < 2^8 -> gen_add_log8_post mc nc = if nc =? mc then None else Some nc.
Proof. intros H. unfold gen_add_log8_post. cbv zeta. unwrap. tie_ifs. Qed.

(* ---------------- _add_log16 l.951-953 / _add_log8 l.1550-1552: body of the update loop ---------------- *)
Lemma tie_add_log16_cell old nc : 0 <= nc < 2^16 -> gen_add_log16_cell old nc = if old <? nc then nc else old.
Proof. intros H. unfold gen_add_log16_cell. cbv zeta. unwrap. tie_ifs. Qed.
Lemma tie_add_log8_cell old nc : 0 <= nc < 2^8 -> gen_add_log8_cell old nc = if old <? nc then nc else old.
Proof. intros H. unfold gen_add_log8_cell. cbv zeta. unwrap. tie_ifs. Qed.

(* the state _add_log* leaves behind, assembled from the generated pieces in the order of the source: the first
   statement, the query (tied in KernelTieLogQuery), _log_counter (its loop body is tied in KernelTieLogCounter), the
   straight-line part, and the loop body applied to the cell buckets[row] of every row below depth *)
Section Assembled.
Variable g_n_added : Z -> Z -> Z.
Variable g_post : Z -> Z -> option Z.
Variable g_cell : Z -> Z -> Z.
Variable depth : nat.
Variable bucket : nat -> key -> nat.
Variable nr umax : Z.
Variable powneg : Z -> float.

Definition add_log_assembled (s : lsk) (k : key) (v : Z) : lsk :=
  let na := g_n_added (ln_added s) v in
  let min_count := lquery depth bucket umax s k in
  let '(new_count, rs') := log_counter nr umax powneg min_count (lrs s) v in
  match g_post min_count new_count with
  | None => {| lcms := lcms s; ln_added := na; ln_records := ln_records s; lrs := rs' |}
  | Some new_count =>
      {| lcms := fun r c => if (r <? depth)%nat && (c =? bucket r k)%nat
                            then g_cell (lcms s r c) new_count else lcms s r c;
         ln_added := na; ln_records := ln_records s; lrs := rs' |}
  end.
End Assembled.

Definition add_log16_assembled := add_log_assembled gen_add_log16_n_added gen_add_log16_post gen_add_log16_cell.
Definition add_log8_assembled := add_log_assembled gen_add_log8_n_added gen_add_log8_post gen_add_log8_cell.

Lemma tie_add_log16 depth bucket nr umax powneg (s : lsk) (k : key) (v : Z) :
  umax < 2^16 -> lsk_ok umax s -> 0 <= v -> 0 <= ln_added s -> ln_added s + v < 2^64 ->
  lsk_eq (add_log16 depth bucket nr umax powneg s k v) (add_log16_assembled depth bucket nr umax powneg s k v).
Proof.
  intros Hu Hs Hv Hn Hsum.
  assert (U0 : 0 <= umax) by (pose proof (Hs O O); lia).
  pose proof (lquery_nonneg depth bucket umax U0 s k Hs) as Q0. pose proof (lquery_le_umax depth bucket umax s k) as Q1.
  pose proof (log_counter_range nr umax powneg (lquery depth bucket umax s k) (lrs s) v Hv) as [R1 R2].
  specialize (R2 Q1).
  unfold add_log16, add_log16_assembled, add_log_assembled, add_log. cbv zeta.
  destruct (tie_add_log_n_added (ln_added s) v Hn Hv Hsum) as [-> _].
  destruct (log_counter nr umax powneg (lquery depth bucket umax s k) (lrs s) v) as [nc rs'] eqn:E.
  cbn [fst] in R1, R2. rewrite tie_add_log16_post. rewrite (wrap16_small nc) by lia.
  destruct (nc =? lquery depth bucket umax s k) eqn:En.
  - repeat split; reflexivity.
  - unfold lsk_eq. cbn [lcms ln_added ln_records lrs]. split; [|repeat split; reflexivity].
    intros r c. rewrite tie_add_log16_cell by lia.
    destruct (r <? depth)%nat; destruct (c =? bucket r k)%nat; cbn [andb]; reflexivity.
Qed.

Lemma tie_add_log8 depth bucket nr umax powneg (s : lsk) (k : key) (v : Z) :
  umax < 2^8 -> lsk_ok umax s -> 0 <= v -> 0 <= ln_added s -> ln_added s + v < 2^64 ->
  lsk_eq (add_log8 depth bucket nr umax powneg s k v) (add_log8_assembled depth bucket nr umax powneg s k v).
Proof.
  intros Hu Hs Hv Hn Hsum.
  assert (U0 : 0 <= umax) by (pose proof (Hs O O); lia).
  pose proof (lquery_nonneg depth bucket umax U0 s k Hs) as Q0. pose proof (lquery_le_umax depth bucket umax s k) as Q1.
  pose proof (log_counter_range nr umax powneg (lquery depth bucket umax s k) (lrs s) v Hv) as [R1 R2].
  specialize (R2 Q1).
  unfold add_log8, add_log8_assembled, add_log_assembled, add_log. cbv zeta.
  destruct (tie_add_log_n_added (ln_added s) v Hn Hv Hsum) as [_ ->].
  destruct (log_counter nr umax powneg (lquery depth bucket umax s k) (lrs s) v) as [nc rs'] eqn:E.
  cbn [fst] in R1, R2. rewrite tie_add_log8_post by lia. rewrite (wrap8_small nc) by lia.
  destruct (nc =? lquery depth bucket umax s k) eqn:En.
  - repeat split; reflexivity.
  - unfold lsk_eq. cbn [lcms ln_added ln_records lrs]. split; [|repeat split; reflexivity].
    intros r c. rewrite tie_add_log8_cell by lia.
    destruct (r <? depth)%nat; destruct (c =? bucket r k)%nat; cbn [andb]; reflexivity.
Qed.

Lemma tie_add_log :
  (forall na v, 0 <= na -> 0 <= v -> na + v < 2^64 ->
     gen_add_log16_n_added na v = na + v /\ gen_add_log8_n_added na v = na + v) /\
  (forall mc nc, gen_add_log16_post mc nc = if nc =? mc then None else Some nc) /\
  (forall mc nc, 0 <= nc < 2^8 -> gen_add_log8_post mc nc = if nc =? mc then None else Some nc) /\
  (forall old nc, 0 <= nc < 2^16 -> gen_add_log16_cell old nc = if old <? nc then nc else old) /\
  (forall old nc, 0 <= nc < 2^8 -> gen_add_log8_cell old nc = if old <? nc then nc else old) /\
  (forall depth bucket nr umax powneg (s : lsk) (k : key) (v : Z),
     umax < 2^16 -> lsk_ok umax s -> 0 <= v -> 0 <= ln_added s -> ln_added s + v < 2^64 ->
     lsk_eq (add_log16 depth bucket nr umax powneg s k v) (add_log16_assembled depth bucket nr umax powneg s k v)) /\
  (forall depth bucket nr umax powneg (s : lsk) (k : key) (v : Z),
     umax < 2^8 -> lsk_ok umax s -> 0 <= v -> 0 <= ln_added s -> ln_added s + v < 2^64 ->
     lsk_eq (add_log8 depth bucket nr umax powneg s k v) (add_log8_assembled depth bucket nr umax powneg s k v)).
Proof.
  exact (conj tie_add_log_n_added (conj tie_add_log16_post (conj tie_add_log8_post (conj tie_add_log16_cell
          (conj tie_add_log8_cell (conj tie_add_log16 tie_add_log8)))))).
Qed.
