(* ZipProofs.v — C20: every strict prefix of a signature-free container is rejected by the
   reader's first step; the complete container is located; without the hypothesis the claim is false. *)
From Coq Require Import ZArith List Bool Lia.
From Sketchnu Require Import Machine BitLemmas Zip.
Import ListNotations.
Open Scope nat_scope.

Lemma skipn_skipn_add {A} (x y : nat) (l : list A) : skipn x (skipn y l) = skipn (y + x) l.
Proof.
  revert l. induction y as [|y IH]; intros l; [reflexivity|].
  destruct l as [|a l]; [rewrite !skipn_nil; reflexivity|]. cbn [skipn Nat.add]. apply IH.
Qed.

(* ---------- starts_with / rfind ---------- *)
Lemma starts_with_firstn p l : starts_with p l = true <-> firstn (length p) l = p.
Proof.
  revert l. induction p as [|x p IH]; intros l; cbn [starts_with length firstn].
  - split; reflexivity.
  - destruct l as [|y l].
    + split; discriminate.
    + rewrite andb_true_iff, IH, Z.eqb_eq. split.
      * intros [-> ->]. reflexivity.
      * intros H. injection H as -> H. split; [reflexivity|exact H].
Qed.

Lemma starts_with_occ i l : starts_with sig_eocd (skipn i l) = true <-> occ i l.
Proof. unfold occ. rewrite starts_with_firstn. reflexivity. Qed.

Lemma rfind_from_sound p l : forall k acc i,
  rfind_from p k l acc = Some i ->
  acc = Some i \/ (k <= i /\ starts_with p (skipn (i - k) l) = true).
Proof.
  induction l as [|y l IH]; intros k acc i H; cbn [rfind_from] in H.
  - left. exact H.
  - apply IH in H. destruct H as [H|[Hk Hs]].
    + destruct (starts_with p (y :: l)) eqn:E.
      * injection H as <-. right. split; [lia|]. replace (k - k) with 0 by lia. exact E.
      * left. exact H.
    + right. split; [lia|]. replace (i - k) with (S (i - S k)) by lia. exact Hs.
Qed.

Lemma rfind_sound p l i : rfind p l = Some i -> starts_with p (skipn i l) = true.
Proof.
  unfold rfind. intros H. apply rfind_from_sound in H. destruct H as [H|[_ H]]; [discriminate|].
  replace (i - 0) with i in H by lia. exact H.
Qed.

Lemma rfind_from_complete p l : forall k acc,
  rfind_from p k l acc = None -> acc = None /\ forall j, starts_with p (skipn j l) = true -> length l <= j.
Proof.
  induction l as [|y l IH]; intros k acc H; cbn [rfind_from] in H.
  - split; [exact H|]. intros j _. cbn [length]. lia.
  - apply IH in H. destruct H as [Hacc Hl]. destruct (starts_with p (y :: l)) eqn:E; [discriminate|].
    split; [exact Hacc|]. intros [|j] Hj.
    + cbn [skipn] in Hj. congruence.
    + cbn [skipn] in Hj. apply Hl in Hj. cbn [length]. lia.
Qed.

Lemma occ_length i l : occ i l -> i + 4 <= length l.
Proof.
  unfold occ. intros H. apply (f_equal (@length Z)) in H. rewrite firstn_length, skipn_length in H.
  cbn [sig_eocd length] in H. lia.
Qed.

Lemma sig_freeb_spec l : sig_freeb l = true <-> sig_free l.
Proof.
  unfold sig_freeb, sig_free. destruct (rfind sig_eocd l) as [i|] eqn:E.
  - split; [discriminate|]. intros H. exfalso. apply (H i). apply starts_with_occ. apply rfind_sound. exact E.
  - split; [|reflexivity]. intros _ i Hocc. pose proof (occ_length _ _ Hocc) as Hlen.
    unfold rfind in E. apply rfind_from_complete in E. destruct E as [_ E].
    apply starts_with_occ in Hocc. apply E in Hocc. lia.
Qed.

Lemma wf_eocdb_spec e : wf_eocdb e = true <-> wf_eocd e.
Proof.
  unfold wf_eocdb, wf_eocd. rewrite !andb_true_iff, Nat.eqb_eq.
  split.
  - intros [[H1 H2] H3]. destruct (keqb_spec (firstn 4 e) sig_eocd); [|discriminate].
    destruct (keqb_spec (skipn 20 e) [0; 0]%Z); [|discriminate]. auto.
  - intros (H1 & H2 & H3). rewrite H2, H3. repeat split; exact H1.
Qed.

(* an occurrence at i only depends on the first i+4 bytes *)
Lemma occ_firstn i n l : i + 4 <= n -> (occ i (firstn n l) <-> occ i l).
Proof.
  intros H. unfold occ. rewrite skipn_firstn_comm, firstn_firstn.
  replace (Nat.min 4 (n - i)) with 4 by lia. reflexivity.
Qed.

(* in a strict prefix of a signature-free container every occurrence starts inside the end record *)
Lemma occ_in_prefix body eocd n i :
  sig_free (body ++ firstn 3 eocd) -> length eocd = size_eocd ->
  occ i (firstn n (body ++ eocd)) -> length body <= i.
Proof.
  intros Hfree Hlen Hocc.
  pose proof (occ_length _ _ Hocc) as Hl. rewrite firstn_length in Hl.
  destruct (Nat.le_gt_cases (length body) i) as [Hge|Hlt]; [exact Hge|exfalso].
  apply (Hfree i).
  apply occ_firstn in Hocc; [|lia].
  assert (body ++ firstn 3 eocd = firstn (length body + 3) (body ++ eocd)) as ->.
  { rewrite firstn_app_2. reflexivity. }
  apply occ_firstn; [lia|exact Hocc].
Qed.

Lemma locate_prefix_none body eocd n :
  wf_eocd eocd -> sig_free (body ++ firstn 3 eocd) -> n < length (body ++ eocd) ->
  locate_eocd (firstn n (body ++ eocd)) = None.
Proof.
  intros (Hlen & Hsig & Hcom) Hfree Hn.
  rewrite app_length, Hlen in Hn. unfold size_eocd in *.
  set (f := body ++ eocd) in *.
  assert (length f = length body + 22) as Hf by (unfold f; rewrite app_length; lia).
  unfold locate_eocd.
  assert (length (firstn n f) = n) as Hp by (rewrite firstn_length; lia).
  rewrite Hp. unfold size_eocd.
  destruct (n <? 22) eqn:E22; [reflexivity|]. apply Nat.ltb_ge in E22.
  (* first test: the last 22 bytes *)
  destruct (keqb_spec (firstn 4 (skipn (n - 22) (firstn n f))) sig_eocd) as [Ho|Hno].
  - exfalso. assert (occ (n - 22) (firstn n f)) as Hocc by exact Ho.
    apply (occ_in_prefix body eocd n (n - 22) Hfree Hlen) in Hocc. lia.
  - rewrite andb_false_r. cbn [andb].
    (* search path *)
    set (mcs := max_comment_start n).
    destruct (rfind sig_eocd (skipn mcs (firstn n f))) as [start|] eqn:Er; [|reflexivity].
    apply rfind_sound in Er. rewrite skipn_skipn_add in Er. apply starts_with_occ in Er.
    pose proof (occ_length _ _ Er) as Hl. rewrite Hp in Hl.
    apply (occ_in_prefix body eocd n _ Hfree Hlen) in Er.
    rewrite firstn_length, !skipn_length, Hp.
    destruct (Nat.min 22 (n - mcs - start) =? 22) eqn:E; [|reflexivity].
    apply Nat.eqb_eq in E. exfalso. lia.
Qed.

Theorem prefix_rejected : forall body eocd,
  wf_eocd eocd -> sig_free (body ++ firstn 3 eocd) ->
  forall n, n < length (body ++ eocd) -> reader (firstn n (body ++ eocd)) = Reject.
Proof.
  intros body eocd Hwf Hfree n Hn. unfold reader.
  destruct (np_load_dispatch (firstn n (body ++ eocd))); try reflexivity.
  rewrite (locate_prefix_none body eocd n Hwf Hfree Hn). reflexivity.
Qed.

Theorem complete_accepted : forall body eocd,
  wf_eocd eocd -> locate_eocd (body ++ eocd) = Some (length body).
Proof.
  intros body eocd (Hlen & Hsig & Hcom). unfold locate_eocd.
  rewrite app_length, Hlen. unfold size_eocd in *.
  destruct (length body + 22 <? 22) eqn:E; [apply Nat.ltb_lt in E; lia|].
  assert (skipn (length body + 22 - 22) (body ++ eocd) = eocd) as ->.
  { replace (length body + 22 - 22) with (length body) by lia.
    rewrite skipn_app, skipn_all, Nat.sub_diag. reflexivity. }
  rewrite Hlen, Hsig, Hcom. cbn [Nat.eqb andb].
  destruct (keqb_spec sig_eocd sig_eocd) as [_|C]; [|congruence].
  destruct (keqb_spec [0;0]%Z [0;0]%Z) as [_|C]; [|congruence].
  cbn [andb]. f_equal. lia.
Qed.

(* the complete file of a container that starts with a local-file header is accepted by `reader` *)
Corollary complete_reader : forall body eocd,
  wf_eocd eocd -> starts_with zip_prefix (firstn 6 (body ++ eocd)) = true ->
  reader (body ++ eocd) = Accept (length body).
Proof.
  intros body eocd Hwf Hz. unfold reader, np_load_dispatch.
  destruct (firstn 6 (body ++ eocd)) eqn:E.
  - cbn in Hz. discriminate.
  - rewrite Hz. cbn [orb]. rewrite (complete_accepted body eocd Hwf). reflexivity.
Qed.

(* ---------- without the hypothesis the claim is false: an embedded container ---------- *)
Definition tiny_eocd : list Z := ([80; 75; 5; 6] ++ repeat 0 18)%Z.
(* a local-file-header magic followed by a complete (empty) end record: 26 bytes that zipfile accepts *)
Definition tiny_inner : list Z := ([80; 75; 3; 4] ++ tiny_eocd)%Z.
(* the outer container carries the inner one as payload *)
Definition tiny_body : list Z := (tiny_inner ++ [1; 2; 3])%Z.

Theorem refuted_without_hyp : exists body eocd n,
  wf_eocd eocd /\ n < length (body ++ eocd) /\ reader (firstn n (body ++ eocd)) <> Reject.
Proof.
  exists tiny_body, tiny_eocd, 26. split; [|split].
  - apply wf_eocdb_spec. vm_compute. reflexivity.
  - vm_compute. lia.
  - vm_compute. discriminate.
Qed.

(* every longer prefix up to the start of the real record is accepted too (zipfile tolerates
   trailing bytes after the record it found): here n = 27, 28, 29 *)
Example refuted_longer_prefixes :
  map (fun n => reader (firstn n (tiny_body ++ tiny_eocd))) [26; 27; 28; 29; 32; 33; 50; 51]
  = [Accept 4; Accept 4; Accept 4; Accept 4; Accept 4; Reject; Reject; Accept 29].
Proof. vm_compute. reflexivity. Qed.

(* ---------- non-vacuity: a concrete container satisfying the hypotheses ---------- *)
Definition ex_body : list Z :=
  ([80; 75; 3; 4; 20; 0; 80; 75; 5; 7; 0; 80; 75; 80; 75; 5; 80; 75; 1; 2; 9; 9] ++ [80; 75; 5])%Z.
Definition ex_eocd : list Z := ([80; 75; 5; 6; 0; 0; 0; 0; 1; 0; 1; 0; 80; 75; 5; 6; 26; 0; 0; 0; 0; 0])%Z.

Example hyps_nonvacuous :
  wf_eocd ex_eocd /\ sig_free (ex_body ++ firstn 3 ex_eocd) /\
  locate_eocd (ex_body ++ ex_eocd) = Some (length ex_body) /\
  map (fun n => reader (firstn n (ex_body ++ ex_eocd))) (seq 0 (length (ex_body ++ ex_eocd))) =
  repeat Reject (length (ex_body ++ ex_eocd)).
Proof.
  split; [apply wf_eocdb_spec; vm_compute; reflexivity|].
  split; [apply sig_freeb_spec; vm_compute; reflexivity|].
  split; vm_compute; reflexivity.
Qed.
