(* PersistProofs.v — lemmas about Persist.v (property C10). *)
From Coq Require Import ZArith List Lia Bool ZifyBool.
From Coq Require String.
From Coq Require Floats.PrimFloat Floats.FloatOps Numbers.Cyclic.Int63.Uint63.
From Coq Require Import Floats.SpecFloat.
Import String.StringSyntax.
From Sketchnu Require Import Machine BitLemmas Consts Persist.
Import ListNotations.
Open Scope string_scope.
Open Scope Z_scope.

(* ------------------------------------------------------------------ wrapping *)
Lemma wrap16_small x : 0 <= x < 2^16 -> wrap16 x = x.
Proof. intros H. rewrite wrap16_mod. apply Z.mod_small. exact H. Qed.
Lemma wrap8_small x : 0 <= x < 2^8 -> wrap8 x = x.
Proof. intros H. rewrite wrap8_mod. apply Z.mod_small. exact H. Qed.

Lemma wrap_dt_small d x : is_unsigned d = true -> in_dt d x = true -> wrap_dt d x = x.
Proof.
  destruct d; cbn [is_unsigned wrap_dt in_dt]; try discriminate; intros _ H;
    [apply wrap8_small|apply wrap16_small|apply wrap32_small|apply wrap64_small];
    unfold two64 in *; lia.
Qed.

Lemma map_wrap_id d l : is_unsigned d = true -> forallb (in_dt d) l = true -> map (wrap_dt d) l = l.
Proof.
  intros Hd. induction l as [|x l IH]; cbn [forallb map]; [reflexivity|].
  intros H. apply andb_true_iff in H. destruct H as [Hx Hl].
  rewrite (wrap_dt_small d x Hd Hx), (IH Hl). reflexivity.
Qed.

Lemma shape_eqb_refl s : shape_eqb s s = true.
Proof. induction s as [|x s IH]; cbn [shape_eqb]; [reflexivity|]. rewrite Z.eqb_refl, IH. reflexivity. Qed.

Lemma copyto_same d sh sd l :
  is_unsigned d = true -> is_unsigned sd = true -> forallb (in_dt d) l = true ->
  copyto d sh (mk_arr sd sh l) = Ok l.
Proof.
  intros Hd Hs Hl. unfold copyto, broadcast, can_cast_to_unsigned. cbn [a_dt a_shape a_data].
  rewrite Hs, shape_eqb_refl, (map_wrap_id d l Hd Hl). reflexivity.
Qed.

(* ------------------------------------------------------------------ broadcasting *)
Lemma chunks_spec (n k : nat) (l : list Z) :
  length l = (k * n)%nat ->
  concat (chunks n k l) = l /\ Forall (fun c => length c = n) (chunks n k l).
Proof.
  revert l. induction k as [|k IH]; intros l H; cbn [chunks concat].
  - destruct l; [split; [reflexivity|constructor]|discriminate].
  - assert (Hs : length (skipn n l) = (k * n)%nat) by (rewrite skipn_length; lia).
    destruct (IH _ Hs) as [Hc Hf]. split.
    + rewrite Hc. apply firstn_skipn.
    + constructor; [rewrite firstn_length; lia|exact Hf].
Qed.

Lemma concat_opt_map (f : list Z -> option (list Z)) (cs : list (list Z)) :
  Forall (fun c => f c = Some c) cs -> concat_opt (map f cs) = Some (concat cs).
Proof.
  induction 1 as [|c cs Hc _ IH]; cbn [map concat_opt concat]; [reflexivity|].
  rewrite Hc, IH. reflexivity.
Qed.

Lemma prodZ_nonneg sh : Forall (fun d => 0 <= d) sh -> 0 <= prodZ sh.
Proof. induction 1; cbn [prodZ fold_right]; [lia|]. fold (prodZ l). nia. Qed.

(* broadcasting to the same shape is the identity: the shortcut in `broadcast` agrees with `bcast` *)
Lemma bcast_same sh : Forall (fun d => 0 <= d) sh ->
  forall data, Z.of_nat (length data) = prodZ sh -> bcast sh sh data = Some data.
Proof.
  induction 1 as [|d ds Hd Hds IH]; intros data Hl; cbn [bcast]; [reflexivity|].
  rewrite Z.eqb_refl. cbn [prodZ fold_right] in Hl. fold (prodZ ds) in Hl.
  pose proof (prodZ_nonneg ds Hds) as Hp.
  assert (Hn : length data = (Z.to_nat d * Z.to_nat (prodZ ds))%nat).
  { rewrite <- Z2Nat.inj_mul by lia. rewrite <- Hl. rewrite Nat2Z.id. reflexivity. }
  destruct (chunks_spec _ _ _ Hn) as [Hc Hf].
  rewrite concat_opt_map.
  - rewrite Hc. reflexivity.
  - eapply Forall_impl; [|exact Hf]. cbv beta. intros c Hlen. apply IH. rewrite Hlen. rewrite Z2Nat.id by lia. reflexivity.
Qed.

Lemma align_same sh : align_shape sh sh = Some sh.
Proof. unfold align_shape. rewrite Nat.leb_refl, Nat.sub_diag. reflexivity. Qed.

(* the general broadcasting path gives what the equal-shape shortcut of `broadcast` returns *)
Theorem broadcast_shortcut_sound : forall (sh : list Z) (a : arr),
  Forall (fun d => 0 <= d) sh -> a_shape a = sh -> Z.of_nat (length (a_data a)) = prodZ sh ->
  match align_shape sh (a_shape a) with Some s' => bcast sh s' (a_data a) | None => None end = broadcast sh a.
Proof.
  intros sh a Hsh Ha Hl. unfold broadcast. rewrite Ha, shape_eqb_refl, align_same. apply bcast_same; assumption.
Qed.

(* ------------------------------------------------------------------ binary64 round trip *)
Lemma log2_bitlen x : 0 < x -> 2 ^ (Z.log2 x) <= x < 2 ^ (Z.log2 x + 1).
Proof. intros H. pose proof (Z.log2_spec x H) as L. replace (Z.succ (Z.log2 x)) with (Z.log2 x + 1) in L by lia. exact L. Qed.

(* the bit pattern built for an integer below 2^53: biased exponent n+1022, fraction x*2^(53-n) - 2^52 *)
Lemma f64bits_small x :
  0 < x < two53 ->
  let n := Z.log2 x + 1 in
  f64bits_of_Z x = (n + 1022) * two52 + (x * 2 ^ (53 - n) - two52)
  /\ 1 <= n <= 53 /\ two52 <= x * 2 ^ (53 - n) < two53.
Proof.
  intros [Hx0 Hx] n. pose proof (log2_bitlen x Hx0) as [Hl Hu]. fold n in Hu.
  assert (Hn0 : 0 <= Z.log2 x) by apply Z.log2_nonneg.
  assert (Hn : n <= 53).
  { destruct (Z_le_gt_dec n 53) as [|G]; [assumption|exfalso].
    assert (2 ^ 53 <= 2 ^ (Z.log2 x)) by (apply Z.pow_le_mono_r; lia).
    unfold two53 in Hx. lia. }
  split; [|split; [lia|]].
  - unfold f64bits_of_Z. destruct (x <=? 0) eqn:E; [lia|]. fold n.
    destruct (n - 53 <=? 0) eqn:E2; [|lia].
    rewrite Z.shiftl_mul_pow2 by lia. replace (- (n - 53)) with (53 - n) by lia. reflexivity.
  - assert (P : 2 ^ (Z.log2 x) * 2 ^ (53 - n) = two52).
    { rewrite <- Z.pow_add_r by lia. replace (Z.log2 x + (53 - n)) with 52 by lia. reflexivity. }
    assert (Q : 2 ^ n * 2 ^ (53 - n) = two53).
    { rewrite <- Z.pow_add_r by lia. replace (n + (53 - n)) with 53 by lia. reflexivity. }
    assert (0 < 2 ^ (53 - n)) by (apply Z.pow_pos_nonneg; lia).
    split; [rewrite <- P; apply Z.mul_le_mono_nonneg_r; lia|].
    rewrite <- Q. apply Z.mul_lt_mono_pos_r; lia.
Qed.

(* decoding a normal positive pattern be*2^52 + frac *)
Lemma f64_fields be frac :
  0 < be < 2047 -> 0 <= frac < two52 ->
  let b := be * two52 + frac in
  Z.shiftr b 63 = 0 /\ Z.land (Z.shiftr b 52) (Z.ones 11) = be /\ Z.land b (Z.ones 52) = frac.
Proof.
  intros Hbe Hf b. unfold two52 in *.
  assert (Hb : 0 <= b < 2 ^ 63) by (unfold b; lia).
  split; [|split].
  - rewrite Z.shiftr_div_pow2 by lia. apply Z.div_small. lia.
  - rewrite Z.shiftr_div_pow2 by lia. rewrite Z.land_ones by lia.
    assert (b / 2 ^ 52 = be).
    { unfold b. rewrite Z.div_add_l by lia. rewrite (Z.div_small frac) by lia. lia. }
    rewrite H. apply Z.mod_small. lia.
  - rewrite Z.land_ones by lia. unfold b. rewrite Z.add_comm, Z.mod_add by lia. apply Z.mod_small. lia.
Qed.

Lemma f64_roundtrip_small x : 0 <= x < two53 -> f64_trunc (f64bits_of_Z x) = Some x.
Proof.
  intros [H0 H1]. destruct (Z.eq_dec x 0) as [->|Hne]; [reflexivity|].
  assert (Hx : 0 < x < two53) by lia.
  destruct (f64bits_small x Hx) as [Hb [Hn Hm]]. cbv zeta in Hb, Hn, Hm.
  set (n := Z.log2 x + 1) in *.
  set (m := x * 2 ^ (53 - n)) in *.
  assert (Hbe : 0 < n + 1022 < 2047) by lia.
  assert (Hfr : 0 <= m - two52 < two52) by (unfold two52, two53 in *; lia).
  destruct (f64_fields (n + 1022) (m - two52) Hbe Hfr) as [Hs [He Hf]]. cbv zeta in Hs, He, Hf.
  unfold f64_trunc. rewrite Hb, Hs, He, Hf.
  destruct (n + 1022 =? 2047) eqn:E1; [lia|]. destruct (n + 1022 =? 0) eqn:E2; [lia|].
  replace (two52 + (m - two52)) with m by lia.
  replace (n + 1022 - 1075) with (n - 53) by lia.
  assert (Hv : (if 0 <=? n - 53 then Z.shiftl m (n - 53) else Z.shiftr m (- (n - 53))) = x).
  { destruct (0 <=? n - 53) eqn:E3.
    - assert (n = 53) by lia. replace (n - 53) with 0 by lia. rewrite Z.shiftl_0_r.
      unfold m. replace (53 - n) with 0 by lia. rewrite Z.pow_0_r. lia.
    - rewrite Z.shiftr_div_pow2 by lia. replace (- (n - 53)) with (53 - n) by lia.
      unfold m. apply Z.div_mul. apply Z.pow_nonzero; lia. }
  rewrite Hv. cbn [Z.eqb]. destruct (x <? two64) eqn:E4; [reflexivity|].
  unfold two64, two53 in *. lia.
Qed.

(* phi validation on bit patterns: exactly the patterns in (0.0, 1.0] and the NaNs pass *)
Lemma phi_accepted_iff b :
  0 <= b < two64 ->
  (f64_le_zero b || f64_gt_one b = false <-> (0 < b <= f64_one_bits) \/ f64_is_nan b = true).
Proof.
  intros Hb. unfold f64_le_zero, f64_gt_one.
  destruct (f64_is_nan b) eqn:N; cbn [negb andb orb]; [split; [right|]; reflexivity|].
  unfold f64_is_nan in N. unfold two64, two63, f64_one_bits, f64_inf_bits in *.
  rewrite Z.land_ones in N by lia.
  destruct (9223372036854775808 <=? b) eqn:E1; cbn [orb].
  - split; [discriminate|]. intros [H|H]; [lia|discriminate].
  - rewrite Z.mod_small in N by lia. lia.
Qed.

(* ------------------------------------------------------------------ cross-check of the integer
   arithmetic above against Coq's kernel binary64 (no axioms: evaluation of primitives) *)
Definition sf_bits (f : spec_float) : option Z :=
  match f with
  | S754_zero false => Some 0
  | S754_finite false m e =>
      (* normal numbers only: m has 53 bits *)
      if (two52 <=? Zpos m) && (Zpos m <? two53) then Some ((e + 1075) * two52 + (Zpos m - two52)) else None
  | _ => None
  end.
Definition prim_bits_of_Z (x : Z) : option Z := sf_bits (FloatOps.Prim2SF (PrimFloat.of_uint63 (Uint63.of_Z x))).

Definition f64_probe : list Z :=
  [0; 1; 2; 3; 4; 7; 255; 256; 65535; 4294967295; 4294967296;
   9007199254740991; 9007199254740992; 9007199254740993; 9007199254740994; 9007199254740995;
   9007199254740996; 9007199254740997; 18014398509481983; 18014398509481984; 18014398509481985;
   18014398509481986; 18014398509481987; 4611686018427387903; 4611686018427387904;
   9223372036854775295; 9223372036854775296; 9223372036854775807].

Lemma f64bits_matches_primfloat :
  forallb (fun x => match prim_bits_of_Z x with Some b => b =? f64bits_of_Z x | None => false end) f64_probe = true.
Proof. vm_compute. reflexivity. Qed.

(* ------------------------------------------------------------------ round trip *)
Section Proofs.
Variable base_ok : Z -> Z -> Z -> bool.

Ltac split_wf H :=
  repeat match type of H with
         | (_ && _)%bool = true => let H1 := fresh "W" in apply andb_true_iff in H; destruct H as [H H1]
         end.

Ltac cp := rewrite copyto_same by
  (first [reflexivity | assumption
         | (cbn [forallb]; rewrite !andb_true_iff; repeat split; assumption)
         | (match goal with k : logk |- _ => destruct k; reflexivity end)]); cbn [bind].

Lemma pow2_pos p : 0 <= p -> 0 < 2 ^ p.
Proof. intros. apply Z.pow_pos_nonneg; lia. Qed.

Theorem roundtrip : forall (s : sketch) (shm : bool),
  wf base_ok s -> load base_ok (class_of s) shm (save s) = Ok s.
Proof.
  intros s shm H. unfold wf in H. destruct s as [w d t na nr|k w d mc nres t na nr|p seed regs|w d mkl phi lhh cnt kl na nr].
  - (* linear *)
    cbn [wfb] in H. split_wf H.
    cbn [class_of load]. unfold load_linear, save, member. cbn [lookup String.eqb Ascii.eqb Bool.eqb bind a_dt dtype_eqb negb].
    unfold star_args. cbn [a_dt a_shape a_data is_unsigned length Nat.eqb andb bind Nat.ltb Nat.leb orb arg nth].
    unfold ctor_linear. destruct (w <=? 0) eqn:E1; [lia|]. destruct (d <=? 0) eqn:E2; [lia|]. cbn [bind].
    cp.
    unfold na_arr. cp.
    cbn [bind pair_of nth fst snd]. reflexivity.
  - (* log16 / log8 *)
    cbn [wfb] in H. split_wf H.
    assert (Hload : load base_ok (class_of (SLog k w d mc nres t na nr)) shm = load_log base_ok k shm)
      by (destruct k; reflexivity).
    rewrite Hload. unfold load_log, save, member.
    cbn [lookup String.eqb Ascii.eqb Bool.eqb bind a_dt].
    assert (Hdt : dtype_eqb (cms_dtype_of k) (cms_dtype_of k) = true) by (destruct k; reflexivity).
    rewrite Hdt. cbn [negb]. unfold star_args.
    cbn [a_dt a_shape a_data is_unsigned length Nat.eqb andb bind Nat.ltb Nat.leb orb arg nth].
    unfold ctor_log. destruct (w <=? 0) eqn:E1; [lia|]. destruct (d <=? 0) eqn:E2; [lia|].
    destruct (nr_limit_of k <=? nres) eqn:E3; [lia|].
    match goal with Hb : base_ok _ _ _ = true |- _ => rewrite Hb end. cbn [bind].
    cp.
    unfold na_arr. cp.
    cbn [bind pair_of nth fst snd]. reflexivity.
  - (* hll *)
    cbn [wfb] in H. split_wf H.
    cbn [class_of load]. unfold load_hll, save, member.
    cbn [lookup String.eqb Ascii.eqb Bool.eqb bind a_dt]. unfold star_args.
    cbn [a_dt a_shape a_data is_unsigned length Nat.eqb andb bind Nat.ltb Nat.leb arg nth].
    unfold ctor_hll. destruct ((hll_p_max <? p) || (p <? hll_p_min))%bool eqn:E1; [lia|]. cbn [bind].
    cp. reflexivity.
  - (* heavy hitters *)
    cbn [wfb] in H. split_wf H.
    cbn [class_of load]. unfold load_hh, save, member.
    cbn [lookup String.eqb Ascii.eqb Bool.eqb bind a_dt a_shape a_data length Nat.eqb negb Nat.ltb Nat.leb nth].
    unfold to_u64, to_f64.
    rewrite (f64_roundtrip_small w) by lia. rewrite (f64_roundtrip_small d) by lia.
    rewrite (f64_roundtrip_small mkl) by (unfold two53; lia). cbn [bind].
    unfold ctor_hh. destruct (w <=? 0) eqn:E1; [lia|]. destruct (d <=? 0) eqn:E2; [lia|].
    destruct ((mkl <=? 0) || (255 <? mkl))%bool eqn:E3; [lia|].
    destruct (f64_le_zero phi || f64_gt_one phi)%bool eqn:E4.
    { apply orb_true_iff in E4. destruct E4 as [E4|E4]; rewrite E4 in *; discriminate. }
    cbn [bind].
    cp.
    cp.
    cp.
    unfold na_arr. cp.
    cbn [bind pair_of nth fst snd]. reflexivity.
Qed.

(* countmin.load picks the loader of the class that wrote the file *)
Theorem dispatch : forall (s : sketch) (shm : bool),
  is_cms (class_of s) = true ->
  module_load base_ok shm (save s) = load base_ok (class_of s) shm (save s).
Proof.
  intros s shm H. destruct s as [w d t na nr|k w d mc nres t na nr|p seed regs|w d mkl phi lhh cnt kl na nr];
    try discriminate H; [reflexivity|destruct k; reflexivity].
Qed.

(* a class-specific count-min loader refuses the file of another count-min class *)
Theorem reject : forall (s : sketch) (c : klass) (shm : bool),
  is_cms c = true -> is_cms (class_of s) = true -> c <> class_of s ->
  load base_ok c shm (save s) = Err TypeError.
Proof.
  intros s c shm Hc Hs Hne.
  destruct s as [w d t na nr|k w d mc nres t na nr|p seed regs|w d mkl phi lhh cnt kl na nr];
    try discriminate Hs; [|destruct k]; destruct c; try discriminate Hc;
    try (exfalso; apply Hne; reflexivity); reflexivity.
Qed.

(* files of the non-count-min classes have no `dtype` member: every count-min loader and the
   module-level load raise KeyError on them (recorded, not part of the property) *)
Theorem foreign_file_keyerror : forall (s : sketch) (c : klass) (shm : bool),
  is_cms c = true -> is_cms (class_of s) = false ->
  load base_ok c shm (save s) = Err KeyError /\ module_load base_ok shm (save s) = Err KeyError.
Proof.
  intros s c shm Hc Hs.
  destruct s as [w d t na nr|k w d mc nres t na nr|p seed regs|w d mkl phi lhh cnt kl na nr];
    try (destruct k); try discriminate Hs; destruct c; try discriminate Hc; split; reflexivity.
Qed.

(* the loaded sketch evolves like the original under every deterministic step function of the
   abstract state; for the log sketches the random draws are part of Op *)
Theorem continue : forall (Op : Type) (step : sketch -> Op -> sketch) (s s' : sketch) (shm : bool),
  wf base_ok s -> load base_ok (class_of s) shm (save s) = Ok s' ->
  forall ops : list Op, fold_left step ops s' = fold_left step ops s.
Proof.
  intros Op step s s' shm Hwf Hl ops. rewrite (roundtrip s shm Hwf) in Hl. injection Hl as <-. reflexivity.
Qed.

(* chains save -> load -> continue -> save -> load ... : each link reproduces the state *)
Theorem chain : forall (Op : Type) (step : sketch -> Op -> sketch) (s : sketch) (shm : bool) (ops : list Op),
  wf base_ok s -> wf base_ok (fold_left step ops s) ->
  bind (load base_ok (class_of s) shm (save s))
       (fun s1 => let s2 := fold_left step ops s1 in load base_ok (class_of s2) shm (save s2))
  = Ok (fold_left step ops s).
Proof.
  intros Op step s shm ops H1 H2. rewrite (roundtrip s shm H1). cbn [bind]. apply roundtrip. exact H2.
Qed.

(* heavy hitters: the integer arguments survive np.float64 -> np.uint64 below 2^53, phi is
   stored and read back as the same 64 bits *)
Theorem hh_args : forall x phi : Z,
  0 <= x < two53 -> to_u64 F64 (f64bits_of_Z x) = Ok x /\ to_f64 F64 phi = Ok phi.
Proof. intros x phi H. unfold to_u64, to_f64. rewrite (f64_roundtrip_small x H). split; reflexivity. Qed.

(* what HeavyHitters.__init__ accepts keeps max_key_len far below 2^53; width and depth are
   bounded only by the hypothesis in wf (a table of 2^53 cells cannot be allocated) *)
Theorem hh_mkl_bound : forall w d mkl phi lhh cnt kl na nr,
  wf base_ok (SHH w d mkl phi lhh cnt kl na nr) -> 0 < mkl <= 255 /\ 0 < w < two53 /\ 0 < d < two53.
Proof. intros. unfold wf in H. cbn [wfb] in H. split_wf H. lia. Qed.

End Proofs.

(* 2^53 + 1 is the first integer binary64 cannot hold: the hypothesis of hh_args is needed *)
Lemma hh_args_needs_bound : to_u64 F64 (f64bits_of_Z (two53 + 1)) = Ok two53.
Proof. vm_compute. reflexivity. Qed.

(* ------------------------------------------------------------------ non-vacuity *)
Definition any_base (mc nr um : Z) : bool := true.
Definition ex_lin := SLin 1 1 [4294967295] 18446744073709551615 7.
Definition ex_log16 := SLog L16 2 1 1000000 0 [65535; 3] 5 1.
Definition ex_log8 := SLog L8 1 2 4294967295 254 [255; 0] 5 0.
Definition ex_hll := SHll 7 18446744073709551615 (repeat 0 100 ++ repeat 58 28).
Definition ex_hh1 := SHH 1 1 1 f64_one_bits [120] [3] [1] 3 0.            (* F5: width 1, phi = 1/width = 1.0 *)
Definition ex_hh := SHH 2 1 3 4598175219545276416 [97;98;0; 0;0;0] [4294967295; 0] [2; 0] 9 2.   (* phi = 0.25 *)
Definition ex_all := [ex_lin; ex_log16; ex_log8; ex_hll; ex_hh1; ex_hh].

Lemma examples_wf_and_load :
  forallb (wfb any_base) ex_all = true /\
  forallb (fun s => result_eqb (load any_base (class_of s) true (save s)) (Ok s)) ex_all = true /\
  forallb (fun s => result_eqb (module_load any_base false (save s)) (Ok s)) [ex_lin; ex_log16; ex_log8] = true /\
  load any_base KLog8 false (save ex_log16) = Err TypeError /\
  (* the dtype-less module-level fall-through *)
  module_load any_base false [("dtype", mk_arr U64 [] [0])] = RetNone.
Proof. vm_compute. repeat split; reflexivity. Qed.
