(* KernelTieHelpers.v — the index arithmetic of helpers.parallel_merging / _merge_worker / _fill_queue regenerated
   from the source AST on every run (generated/KernelsHelpers.v, harness/pytrans_helpers.py) is the index arithmetic
   of the model of the pairwise merging rounds (Merging.v: merge_at, merge_phase, select_phase, pm_loop).
   Python ints are Z; list positions of the model are nat.  Python's range(start, stop, step) for a positive step is
   py_range below (hand-written; CPython: len = max(0, ceil((stop - start) / step)), element j = start + j*step). *)
From Coq Require Import ZArith List Lia Bool Arith.
From Sketchnu Require Import KernelsHelpers Merging.
Import ListNotations.
Open Scope Z_scope.

Definition py_range_len (start stop step : Z) : nat := Z.to_nat ((stop - start + step - 1) / step).
Definition py_range (start stop step : Z) : list Z :=
  map (fun j => start + Z.of_nat j * step) (seq 0 (py_range_len start stop step)).

Lemma tie_pm_continue (n : nat) : gen_pm_continue (Z.of_nat n) = (1 <? n)%nat.
Proof.
  unfold gen_pm_continue.
  destruct (1 <? n)%nat eqn:E; [apply Nat.ltb_lt in E | apply Nat.ltb_ge in E];
    [apply Z.ltb_lt | apply Z.ltb_ge]; lia.
Qed.

Lemma tie_pm_n_pairs (n : nat) : 0 <= gen_pm_n_pairs (Z.of_nat n) /\ Z.to_nat (gen_pm_n_pairs (Z.of_nat n)) = (n / 2)%nat.
Proof.
  unfold gen_pm_n_pairs. split; [apply Z.div_pos; lia|].
  change 2 with (Z.of_nat 2). rewrite <- Nat2Z.inj_div. apply Nat2Z.id.
Qed.

Lemma tie_pm_indices (i : nat) :
  0 <= gen_pm_receiver (Z.of_nat i) /\ 0 <= gen_pm_other (Z.of_nat i) /\
  Z.to_nat (gen_pm_receiver (Z.of_nat i)) = (2 * i)%nat /\ Z.to_nat (gen_pm_other (Z.of_nat i)) = (2 * i + 1)%nat.
Proof. unfold gen_pm_receiver, gen_pm_other. repeat split; lia. Qed.

Lemma py_range_0_n_2 (n : nat) :
  py_range 0 (Z.of_nat n) 2 = map (fun j => Z.of_nat (2 * j)) (seq 0 ((n + 1) / 2)).
Proof.
  unfold py_range, py_range_len.
  replace (Z.of_nat n - 0 + 2 - 1) with (Z.of_nat (n + 1)) by lia.
  replace (Z.of_nat (n + 1) / 2) with (Z.of_nat ((n + 1) / 2)) by (rewrite Nat2Z.inj_div; reflexivity).
  rewrite Nat2Z.id. apply map_ext. intros j. lia.
Qed.

Lemma tie_pm_keep (n : nat) :
  let '(a, b, c) := gen_pm_keep_range (Z.of_nat n) in
  0 < c /\
  Forall (fun z => 0 <= gen_pm_keep_index z) (py_range a b c) /\
  map (fun z => Z.to_nat (gen_pm_keep_index z)) (py_range a b c) = map (fun j => (2 * j)%nat) (seq 0 ((n + 1) / 2)).
Proof.
  unfold gen_pm_keep_range, gen_pm_keep_index. rewrite py_range_0_n_2. split; [lia|]. split.
  - apply Forall_forall. intros z Hz. apply in_map_iff in Hz. destruct Hz as [j [<- _]]. lia.
  - rewrite map_map. apply map_ext. intros j. apply Nat2Z.id.
Qed.

Lemma tie_pm_result : gen_pm_result_index = 0.
Proof. reflexivity. Qed.

Lemma tie_fill_pills (n : Z) : gen_fill_pills n = n.
Proof. unfold gen_fill_pills. lia. Qed.

(* ---------------- the round of the model, assembled from the generated pieces ---------------- *)
Section Assembled.
Variable Sk : Type.
Variable merge : Sk -> Sk -> Sk.

(* one merger process: _merge_worker's receiver parameter is merged with its other parameter, in place *)
Definition merge_at_gen (arr : list Sk) (i : nat) : list Sk :=
  let r := Z.to_nat (gen_pm_receiver (Z.of_nat i)) in
  let o := Z.to_nat (gen_pm_other (Z.of_nat i)) in
  match nth_error arr r, nth_error arr o with
  | Some a, Some b => set_nth r (merge a b) arr
  | _, _ => arr
  end.

Definition merge_phase_gen (arr : list Sk) (n_to_merge : nat) : list Sk :=
  fold_left merge_at_gen (seq 0 (Z.to_nat (gen_pm_n_pairs (Z.of_nat n_to_merge)))) arr.

Definition select_phase_gen (arr : list Sk) (n_to_merge : nat) : list Sk :=
  let '(a, b, c) := gen_pm_keep_range (Z.of_nat n_to_merge) in
  flat_map (fun z => match nth_error arr (Z.to_nat (gen_pm_keep_index z)) with Some s => [s] | None => [] end)
           (py_range a b c).

Definition pm_round_gen (arr : list Sk) : list Sk :=
  let n_to_merge := length arr in
  select_phase_gen (merge_phase_gen arr n_to_merge) n_to_merge.

Fixpoint pm_loop_gen (fuel : nat) (arr : list Sk) : option Sk :=
  match fuel with
  | O => None
  | S f => if gen_pm_continue (Z.of_nat (length arr)) then pm_loop_gen f (pm_round_gen arr)
           else nth_error arr (Z.to_nat gen_pm_result_index)
  end.

Lemma merge_at_gen_eq arr i : merge_at_gen arr i = merge_at Sk merge arr i.
Proof.
  unfold merge_at_gen, merge_at. cbv zeta.
  destruct (tie_pm_indices i) as (_ & _ & -> & ->). reflexivity.
Qed.

Lemma fold_merge_at_gen_eq l : forall arr, fold_left merge_at_gen l arr = fold_left (merge_at Sk merge) l arr.
Proof.
  induction l as [|i l IH]; intros arr; [reflexivity|]. cbn [fold_left]. rewrite merge_at_gen_eq. apply IH.
Qed.

Lemma merge_phase_gen_eq arr n : merge_phase_gen arr n = merge_phase Sk merge arr n.
Proof.
  unfold merge_phase_gen, merge_phase. destruct (tie_pm_n_pairs n) as [_ ->]. apply fold_merge_at_gen_eq.
Qed.

Lemma flat_map_map' {A B C} (f : B -> list C) (g : A -> B) l : flat_map f (map g l) = flat_map (fun x => f (g x)) l.
Proof. induction l as [|x l IH]; [reflexivity|]. cbn [map flat_map]. rewrite IH. reflexivity. Qed.

Lemma select_phase_gen_eq arr n : select_phase_gen arr n = select_phase Sk arr n.
Proof.
  unfold select_phase_gen, select_phase. pose proof (tie_pm_keep n) as H.
  destruct (gen_pm_keep_range (Z.of_nat n)) as [[a b] c]. destruct H as (_ & _ & H).
  rewrite <- H. rewrite flat_map_map'. reflexivity.
Qed.

Lemma pm_round_gen_eq arr : pm_round_gen arr = pm_round Sk merge arr.
Proof. unfold pm_round_gen, pm_round. cbv zeta. rewrite merge_phase_gen_eq. apply select_phase_gen_eq. Qed.

Lemma pm_loop_gen_eq fuel : forall arr, pm_loop_gen fuel arr = pm_loop Sk merge fuel arr.
Proof.
  induction fuel as [|f IH]; intros arr; [reflexivity|]. cbn [pm_loop_gen pm_loop].
  rewrite tie_pm_continue, pm_round_gen_eq, IH. reflexivity.
Qed.

(* the whole of parallel_merging's loop, run with the generated test, counts, indices and range, is the model's pm *)
Lemma tie_pm (l : list Sk) : pm_loop_gen (length l) l = pm Sk merge l.
Proof. apply pm_loop_gen_eq. Qed.
End Assembled.

Lemma tie_helpers_pieces :
  (forall n : nat, gen_pm_continue (Z.of_nat n) = (1 <? n)%nat) /\
  (forall n : nat, Z.to_nat (gen_pm_n_pairs (Z.of_nat n)) = (n / 2)%nat) /\
  (forall i : nat, Z.to_nat (gen_pm_receiver (Z.of_nat i)) = (2 * i)%nat /\ Z.to_nat (gen_pm_other (Z.of_nat i)) = (2 * i + 1)%nat) /\
  (forall n : nat, let '(a, b, c) := gen_pm_keep_range (Z.of_nat n) in
     map (fun z => Z.to_nat (gen_pm_keep_index z)) (py_range a b c) = map (fun j => (2 * j)%nat) (seq 0 ((n + 1) / 2))) /\
  gen_pm_result_index = 0 /\
  (forall n : Z, gen_fill_pills n = n).
Proof.
  repeat split.
  - exact tie_pm_continue.
  - intros n. apply tie_pm_n_pairs.
  - apply tie_pm_indices.
  - apply tie_pm_indices.
  - intros n. pose proof (tie_pm_keep n) as H. destruct (gen_pm_keep_range (Z.of_nat n)) as [[a b] c]. apply H.
Qed.
