(* KernelTieHashes.v — the definitions regenerated from the source AST (generated/KernelsHashes.v) equal the
   hand-written models the theorems are about.  An edit of one of these functions in the source
   changes the generated definition and breaks the corresponding lemma here. *)
From Coq Require Import ZArith List Lia Bool.
From Sketchnu Require Import Machine BitLemmas Consts KernelsHashes Hashes HashSpec HashProofs HashProofsMurmur.
Open Scope Z_scope.

(* ---------------- hashes.py ---------------- *)
Lemma tie_xor_shiftl v t l : gen_xor_shiftl v t l = xor_shiftl v t l.
Proof. reflexivity. Qed.

Lemma tie_fhmix64 h : 0 <= h < 2^64 -> gen_fhmix64 h = fhmix64 h.
Proof.
  intros Hh. unfold gen_fhmix64, fhmix64.
  destruct consts_fasthash as (_ & Hc & Hs1 & Hs2 & _). rewrite Hc, Hs1, Hs2.
  change (wrap64 2388976653695081527) with 2388976653695081527.
  cbv zeta. apply wrap64_small.
  set (a := Z.lxor h (Z.shiftr h 23)).
  pose proof (wrap64_range (a * 2388976653695081527)) as Hw. set (w := wrap64 _) in *.
  apply lxor_range; [lia|exact Hw|].
  rewrite shiftr_div by lia. split; [apply Z.div_pos; lia|]. apply Z.div_lt_upper_bound; lia.
Qed.

Lemma tie_xor32 x y : gen_xor32 x y = xor32 x y.
Proof. reflexivity. Qed.
Lemma tie_shift32r x y : gen_shift32r x y = shift32r x y.
Proof. reflexivity. Qed.
Lemma tie_shift32l x y : gen_shift32l x y = shift32l x y.
Proof. unfold gen_shift32l, shift32l. cbv zeta. apply wrap32_wrap64. Qed.

Lemma tie_rotl32 x r : gen_rotl32 x r = rotl32 x r.
Proof.
  unfold gen_rotl32, rotl32. cbv zeta. rewrite tie_shift32l, tie_shift32r.
  destruct consts_murmur as (_ & _ & _ & _ & _ & _ & Hw & _). rewrite Hw.
  f_equal. f_equal. unfold shift32r. rewrite wrap32_wrap64. reflexivity.
Qed.

Lemma tie_fmix32 h : gen_fmix32 h = fmix32 h.
Proof.
  unfold gen_fmix32, fmix32. cbv zeta.
  destruct consts_murmur as (_ & _ & _ & _ & _ & _ & _ & H1 & H2 & H3 & Hc1 & Hc2).
  rewrite H1, H2, H3, Hc1, Hc2.
  change (wrap32 2246822507) with 2246822507. change (wrap32 3266489909) with 3266489909.
  rewrite !tie_xor32, !tie_shift32r. reflexivity.
Qed.

Lemma tie_hashes :
  (forall v t l, gen_xor_shiftl v t l = xor_shiftl v t l) /\
  (forall h, 0 <= h < 2^64 -> gen_fhmix64 h = fhmix64 h) /\
  (forall x y, gen_xor32 x y = xor32 x y) /\ (forall x y, gen_shift32r x y = shift32r x y) /\
  (forall x y, gen_shift32l x y = shift32l x y) /\ (forall x r, gen_rotl32 x r = rotl32 x r) /\
  (forall h, gen_fmix32 h = fmix32 h).
Proof.
  exact (conj tie_xor_shiftl (conj tie_fhmix64 (conj tie_xor32 (conj tie_shift32r (conj tie_shift32l (conj tie_rotl32 tie_fmix32)))))).
Qed.

Import ListNotations.

(* ---- regions of fasthash64 / fasthash32 / murmur3 (everything except the two loop headers) ---- *)
Lemma fhmix64_range h : 0 <= h < 2^64 -> 0 <= fhmix64 h < 2^64.
Proof.
  intros Hh. unfold fhmix64. destruct consts_fasthash as (_ & Hc & Hs1 & Hs2 & _). rewrite Hc, Hs1, Hs2.
  set (a := Z.lxor h (Z.shiftr h 23)).
  pose proof (wrap64_range (a * 2388976653695081527)) as Hw. set (w := wrap64 _) in *.
  apply lxor_range; [lia|exact Hw|].
  rewrite shiftr_div by lia. split; [apply Z.div_pos; lia|]. apply Z.div_lt_upper_bound; lia.
Qed.

Lemma tie_fh_init seed len : gen_fh_init seed len = Z.lxor seed (wrap64 (wrap64 len * fh_m)).
Proof. reflexivity. Qed.

Lemma tie_fh_block h v : 0 <= v < 2^64 -> gen_fh_block h v fh_m = fh_round h v.
Proof. intros Hv. unfold gen_fh_block, fh_round. cbv zeta. rewrite tie_fhmix64 by assumption. reflexivity. Qed.

Lemma lxor_byte_range v t : 0 <= v < 2^64 -> 0 <= t < 256 -> 0 <= Z.lxor v t < 2^64.
Proof. intros Hv Ht. apply lxor_range; lia. Qed.

Lemma xor_shiftl_range v t l : 0 <= xor_shiftl v t l < 2^64.
Proof. unfold xor_shiftl. apply wrap64_range. Qed.

Lemma tie_fh_finish h key_len t0 t1 t2 t3 t4 t5 t6 :
  0 <= h < 2^64 -> bytes [t0; t1; t2; t3; t4; t5; t6] ->
  gen_fh_finish h key_len fh_m t0 t1 t2 t3 t4 t5 t6 =
  fhmix64 (fh_tail (Z.land key_len 7) [t0; t1; t2; t3; t4; t5; t6] h).
Proof.
  intros Hh Hb.
  repeat match goal with H : bytes (_ :: _) |- _ => apply bytes_cons in H; destruct H as [? H] end.
  unfold is_byte in *.
  assert (forall x, 0 <= x < 256 -> wrap64 x = x) as Wb by (intros; apply wrap64_small; lia).
  assert (forall x, 0 <= x < 2^64 -> wrap64 (gen_fhmix64 x) = fhmix64 x) as Fin.
  { intros x Hx. rewrite tie_fhmix64 by assumption. apply wrap64_small. apply fhmix64_range. assumption. }
  unfold gen_fh_finish, fh_tail. cbv zeta.
  change (wrap64 0) with 0.
  rewrite !tie_xor_shiftl. rewrite !(Wb t0) by assumption.
  cbn [nth].
  destruct (Z.land key_len 7 =? 7) eqn:E7; [|destruct (Z.land key_len 7 =? 6) eqn:E6;
    [|destruct (Z.land key_len 7 =? 5) eqn:E5; [|destruct (Z.land key_len 7 =? 4) eqn:E4;
    [|destruct (Z.land key_len 7 =? 3) eqn:E3; [|destruct (Z.land key_len 7 =? 2) eqn:E2;
    [|destruct (Z.land key_len 7 =? 1) eqn:E1]]]]]];
  try (rewrite Fin by (apply wrap64_range); unfold fh_round;
       rewrite tie_fhmix64 by (apply lxor_byte_range; [apply xor_shiftl_range || lia|assumption]); reflexivity).
  all: try (apply Fin; assumption).
  all: try (rewrite Fin by (apply wrap64_range); unfold fh_round;
            rewrite tie_fhmix64 by (rewrite Z.lxor_0_l; lia); reflexivity).
Qed.

Lemma tie_fh32_fin h : gen_fh32_fin h = fh32_fin h.
Proof.
  unfold gen_fh32_fin, fh32_fin. destruct consts_fasthash as (_ & _ & _ & _ & ->). apply wrap32_idem.
Qed.

Lemma wrap64_add_l a c : wrap64 (wrap64 a + c) = wrap64 (a + c).
Proof. rewrite !wrap64_mod. apply Zplus_mod_idemp_l. Qed.

(* the body of murmur3's block loop, as inlined in Hashes.mm_blocks *)
Definition mm_block_hand (h b : Z) : Z :=
  let k1 := mm_k1 b in
  let h := xor32 h k1 in
  let h := rotl32 h mm_r2 in
  wrap64 (h * mm_mul5 + mm_c3).

Lemma tie_mm_block h b : gen_mm_block h b mm_c1 mm_c2 mm_c3 = mm_block_hand h b.
Proof.
  unfold gen_mm_block, mm_block_hand, mm_k1. cbv zeta.
  destruct consts_murmur as (_ & _ & _ & Hr1 & Hr2 & H5 & _). rewrite Hr1, Hr2, H5.
  change (wrap32 5) with 5.
  rewrite !tie_rotl32, !tie_xor32. rewrite wrap64_add_l. reflexivity.
Qed.

Lemma mm_blocks_step n b0 b1 b2 b3 r h :
  mm_blocks (S n) (b0 :: b1 :: b2 :: b3 :: r) h = mm_blocks n r (mm_block_hand h (le4 b0 b1 b2 b3)).
Proof. reflexivity. Qed.

Lemma tie_mm_finish h key_len t0 t1 t2 :
  gen_mm_finish h key_len mm_c1 mm_c2 t0 t1 t2 =
  fmix32 (xor32 (mm_tail (Z.land key_len 3) [t0; t1; t2] h) key_len).
Proof.
  unfold gen_mm_finish, mm_tail, mm_k1. cbv zeta.
  destruct consts_murmur as (_ & _ & _ & Hr1 & _). rewrite Hr1.
  change (wrap32 0) with 0.
  rewrite !tie_xor32, !tie_shift32l, !tie_rotl32. cbn [nth].
  assert (forall x, wrap32 (gen_fmix32 x) = fmix32 x) as Fin.
  { intros x. rewrite tie_fmix32. unfold fmix32. apply wrap32_idem. }
  destruct (Z.land key_len 3 =? 3); [|destruct (Z.land key_len 3 =? 2); [|destruct (Z.land key_len 3 =? 1)]];
    rewrite Fin; reflexivity.
Qed.

(* the loop bodies are what the transcription iterates *)
Lemma fh_blocks_step n b0 b1 b2 b3 b4 b5 b6 b7 r h :
  fh_blocks (S n) (b0 :: b1 :: b2 :: b3 :: b4 :: b5 :: b6 :: b7 :: r) h =
  fh_blocks n r (fh_round h (le8 b0 b1 b2 b3 b4 b5 b6 b7)).
Proof. reflexivity. Qed.

Lemma tie_hash_regions :
  (forall seed len, gen_fh_init seed len = Z.lxor seed (wrap64 (wrap64 len * fh_m))) /\
  (forall h v, 0 <= v < 2^64 -> gen_fh_block h v fh_m = fh_round h v) /\
  (forall h key_len t0 t1 t2 t3 t4 t5 t6, 0 <= h < 2^64 -> bytes [t0; t1; t2; t3; t4; t5; t6] ->
     gen_fh_finish h key_len fh_m t0 t1 t2 t3 t4 t5 t6 = fhmix64 (fh_tail (Z.land key_len 7) [t0; t1; t2; t3; t4; t5; t6] h)) /\
  (forall h, gen_fh32_fin h = fh32_fin h) /\
  (forall h b, gen_mm_block h b mm_c1 mm_c2 mm_c3 = mm_block_hand h b) /\
  (forall h key_len t0 t1 t2, gen_mm_finish h key_len mm_c1 mm_c2 t0 t1 t2 =
     fmix32 (xor32 (mm_tail (Z.land key_len 3) [t0; t1; t2] h) key_len)).
Proof.
  exact (conj tie_fh_init (conj tie_fh_block (conj tie_fh_finish (conj tie_fh32_fin (conj tie_mm_block tie_mm_finish))))).
Qed.
