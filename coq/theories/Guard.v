(* Guard.v — model of the parameter guard at the top of the five merge() methods (property C15).
   Definitions only.

   The guard of class X is   if self.f1 != other.f1 or self.f2 != other.f2 or ...: raise TypeError
   The list [f1; f2; ...] is NOT written here: it is Consts.guard_X, extracted from the source
   AST on every run (harness/translate.py, _guard_fields).  This file gives the meaning of an
   attribute name on a sketch (`attr`) and of the short-circuit `or` chain (`guard_eval`).
   countmin.py l.688-693 (linear), l.1369-1378 (log16), l.1968-1977 (log8);
   hyperloglog.py l.488-489; heavyhitters.py l.573-578. *)
From Coq Require Import ZArith List Bool.
From Coq Require String.
Import String.StringSyntax.
From Sketchnu Require Import Machine Consts Persist.
Import ListNotations.
Open Scope string_scope.
Open Scope Z_scope.

(* value of getattr(sketch, name): a number, AttributeError, or a name this model does not know *)
Inductive attrv := AVal (v : Z) | AMissing | AUnknown.

Definition known_names : list String.string :=
  ["width"; "depth"; "uint_maxval"; "max_count"; "num_reserved"; "p"; "seed"; "max_key_len"].

Definition known_name (n : String.string) : bool := existsb (String.eqb n) known_names.

(* the counter type is represented as the code represents it: by self.uint_maxval
   (np.uint32(2**32-1) | np.uint16(2**16-1) | np.uint8(2**8-1); HeavyHitters also has one) *)
Definition attr (s : sketch) (n : String.string) : attrv :=
  if String.eqb n "width" then
    match s with
    | SLin w _ _ _ _ => AVal w | SLog _ w _ _ _ _ _ _ => AVal w
    | SHH w _ _ _ _ _ _ _ _ => AVal w | SHll _ _ _ => AMissing
    end
  else if String.eqb n "depth" then
    match s with
    | SLin _ d _ _ _ => AVal d | SLog _ _ d _ _ _ _ _ => AVal d
    | SHH _ d _ _ _ _ _ _ _ => AVal d | SHll _ _ _ => AMissing
    end
  else if String.eqb n "uint_maxval" then
    match s with
    | SLin _ _ _ _ _ => AVal lin_cap | SLog k _ _ _ _ _ _ _ => AVal (umax_of k)
    | SHH _ _ _ _ _ _ _ _ _ => AVal hh_cap | SHll _ _ _ => AMissing
    end
  else if String.eqb n "max_count" then
    match s with SLog _ _ _ mc _ _ _ _ => AVal mc | _ => AMissing end
  else if String.eqb n "num_reserved" then
    match s with SLog _ _ _ _ nres _ _ _ => AVal nres | _ => AMissing end
  else if String.eqb n "p" then
    match s with SHll p _ _ => AVal p | _ => AMissing end
  else if String.eqb n "seed" then
    match s with SHll _ seed _ => AVal seed | _ => AMissing end
  else if String.eqb n "max_key_len" then
    match s with SHH _ _ mkl _ _ _ _ _ _ => AVal mkl | _ => AMissing end
  else AUnknown.

(* outcome of the `or` chain, evaluated left to right with short circuit:
   GCompat: every term false (fall through to the kernel call);  GRefuse: some term true before
   anything failed (raise TypeError);  GAttrErr: an attribute lookup failed first;
   GUnknown: the generated list names an attribute this model does not know *)
Inductive gres := GCompat | GRefuse | GAttrErr | GUnknown.

Fixpoint guard_eval (fields : list String.string) (a b : sketch) : gres :=
  match fields with
  | [] => GCompat
  | n :: r =>
      match attr a n, attr b n with
      | AUnknown, _ => GUnknown
      | _, AUnknown => GUnknown
      | AMissing, _ => GAttrErr                  (* self.n is evaluated first *)
      | _, AMissing => GAttrErr
      | AVal x, AVal y => if x =? y then guard_eval r a b else GRefuse
      end
  end.

(* a.merge(b) runs the method of type(a) *)
Definition guard_of (c : klass) : list String.string :=
  match c with
  | KLinear => guard_linear
  | KLog16 => guard_log16
  | KLog8 => guard_log8
  | KHll => guard_hll
  | KHH => guard_hh
  end.

Definition compatible (a b : sketch) : bool :=
  match guard_eval (guard_of (class_of a)) a b with GCompat => true | _ => false end.

(* same family: the arrays the kernel call reads from `other` exist
   (other.cms | other.registers | other.lhh, other.lhh_count, other.key_lens) *)
Definition family (c : klass) : Z :=
  match c with KLinear | KLog16 | KLog8 => 0 | KHll => 1 | KHH => 2 end.
Definition same_family (a b : sketch) : bool := family (class_of a) =? family (class_of b).

(* the parameters the property lists, per family *)
Definition key_params (s : sketch) : list Z :=
  match s with
  | SLin w d _ _ _ => [w; d]
  | SLog _ w d mc nres _ _ _ => [w; d; mc; nres]
  | SHll p seed _ => [p; seed]
  | SHH w d mkl _ _ _ _ _ _ => [w; d; mkl]
  end.

Inductive mres := MOk | MErr (e : exn) | MUnknown.

Section Merge.
(* the merge kernels are modelled elsewhere (C09, C02, C03); here: any function *)
Variable kernel : sketch -> sketch -> sketch.

(* (outcome, self after, other after).  After a passed guard the arguments of the kernel call
   are evaluated; across families `other` lacks them: AttributeError before anything is written. *)
Definition merge (a b : sketch) : mres * sketch * sketch :=
  match guard_eval (guard_of (class_of a)) a b with
  | GRefuse => (MErr TypeError, a, b)
  | GAttrErr => (MErr AttributeError, a, b)
  | GUnknown => (MUnknown, a, b)
  | GCompat => if same_family a b then (MOk, kernel a b, b) else (MErr AttributeError, a, b)
  end.
End Merge.

(* ------------------------------------------------------------------ helpers for case files *)
Definition mres_code (m : mres) : Z :=
  match m with
  | MOk => 0 | MErr TypeError => 1 | MErr AttributeError => 2 | MErr _ => 3 | MUnknown => 4
  end.

(* parameter-only sketches (empty arrays): the guard never looks at the arrays *)
Definition mk_sketch (c : klass) (ps : list Z) : sketch :=
  let g := fun i => nth i ps 0 in
  match c with
  | KLinear => SLin (g 0%nat) (g 1%nat) [] 0 0
  | KLog16 => SLog L16 (g 0%nat) (g 1%nat) (g 2%nat) (g 3%nat) [] 0 0
  | KLog8 => SLog L8 (g 0%nat) (g 1%nat) (g 2%nat) (g 3%nat) [] 0 0
  | KHll => SHll (g 0%nat) (g 1%nat) []
  | KHH => SHH (g 0%nat) (g 1%nat) (g 2%nat) (g 3%nat) [] [] [] 0 0
  end.

Definition merge_code (a b : sketch) : Z :=
  mres_code (fst (fst (merge (fun x _ => x) a b))).
