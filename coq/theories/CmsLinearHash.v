(* CmsLinearHash.v — the linear count-min model instantiated with the real row hash
   (column = fasthash64(key, row) mod width): end-to-end executable model of the kernels, used by C01's
   correspondence on a subset of cases (the bucket map is then COMPUTED by the model, not observed). *)
From Coq Require Import ZArith List Bool.
From Sketchnu Require Import Machine Harness Hashes HashBucket CmsLinear CmsLinearHarness.
Import ListNotations.
Open Scope Z_scope.

Definition lin_hash_case := (nat * nat * list (ahist * expect))%type.

Definition check_lin_case_hash (c : lin_hash_case) : bool :=
  let '(w, d, hs) := c in
  let b := hash_bucket w in
  forallb (fun he => check_state w d b (aeval w d b (fst he)) (snd he)) hs.
