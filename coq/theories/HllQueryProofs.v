(* HllQueryProofs.v — lemmas about HllQuery.v (C17, C07).
   Facts about the shipped tables are proved by computation over the regenerated HllTables.v
   (finite domain: p in 7..16, 200 entries per row).  The float-order lemmas use the stdlib
   specification of the PrimFloat comparisons (FloatAxioms.ltb_spec / leb_spec) and nothing else. *)
From Coq Require Import ZArith List Bool Lia Floats.PrimFloat Uint63 Floats.SpecFloat Floats.FloatOps Floats.FloatAxioms.
From Sketchnu Require Import Machine Consts HllTables HllQuery.
Import ListNotations.
Open Scope Z_scope.

(* ================================================================ finite case split on p *)
Lemma p_cases : forall p, 7 <= p <= 16 ->
  p = 7 \/ p = 8 \/ p = 9 \/ p = 10 \/ p = 11 \/ p = 12 \/ p = 13 \/ p = 14 \/ p = 15 \/ p = 16.
Proof. intros; lia. Qed.

Ltac each_p H :=
  apply p_cases in H;
  repeat (destruct H as [H | H]); subst.

(* ================================================================ tables *)
Lemma tables_shape :
  hll_p_min = 7 /\ hll_p_max = 16 /\
  length sub_algorithm_threshold = 10%nat /\ length raw_estimate = 10%nat /\ length bias_data = 10%nat /\
  Forall (fun r => length r = 200%nat) raw_estimate /\ Forall (fun r => length r = 200%nat) bias_data.
Proof.
  repeat split; try reflexivity.
  - unfold raw_estimate. repeat (constructor; [vm_compute; reflexivity|]). constructor.
  - unfold bias_data. repeat (constructor; [vm_compute; reflexivity|]). constructor.
Qed.

Lemma rows_length : forall p, 7 <= p <= 16 ->
  length (hll_raw p) = 200%nat /\ length (hll_bias p) = 200%nat.
Proof. intros p H. each_p H; split; vm_compute; reflexivity. Qed.

Lemma incrb_spec : forall l, incrb l = true -> strictly_increasing l.
Proof.
  induction l as [|a t IH]; intros H i Hi.
  - cbn [length] in Hi. lia.
  - destruct t as [|b t'].
    + cbn [length] in Hi. lia.
    + cbn [incrb] in H. apply andb_true_iff in H. destruct H as [H1 H2].
      destruct i as [|i].
      * cbn [nth]. exact H1.
      * change (nth (S i) (a :: b :: t') nan) with (nth i (b :: t') nan).
        change (nth (S (S i)) (a :: b :: t') nan) with (nth (S i) (b :: t') nan).
        apply IH; [exact H2|]. cbn [length] in Hi |- *. lia.
Qed.

Lemma raw_increasing : forall p, 7 <= p <= 16 -> strictly_increasing (hll_raw p).
Proof. intros p H. each_p H; apply incrb_spec; vm_compute; reflexivity. Qed.

(* the tables begin where linear counting stops and reach the 5m switch; the inequalities were
   read off the shipped numbers and are frozen here *)
Lemma begin_at_threshold : forall p, 7 <= p <= 16 ->
  let m := hllq_m p in
  let thr := f_of_Z (hll_threshold p) in
  let first := (nth 0 (hll_raw p) nan - nth 0 (hll_bias p) nan)%float in
  let last_raw := nth 199 (hll_raw p) nan in
  0 < hll_threshold p < m /\
  (thr <=? first)%float = true /\ (first - thr <=? 0x1p-36)%float = true /\
  (thr <? nth 0 (hll_raw p) nan)%float = true /\
  (f_of_Z (5 * m) <=? last_raw)%float = true /\
  (last_raw <=? f_of_Z (5 * m + m / 256 + 1))%float = true.
Proof. intros p H. each_p H; vm_compute; repeat split; reflexivity. Qed.

(* ================================================================ branch structure *)
Lemma regime_spec :
  hll_raw_mult = 5 /\ hll_zero_cmp = 0 /\
  forall (m thr nzero : Z) (lc raw : float), 0 <= nzero ->
    (regime m thr nzero lc raw = LC <->
       nzero > 0 /\ (f_of_Z thr <? lc)%float = false) /\
    (regime m thr nzero lc raw = Corrected <->
       (nzero > 0 /\ (f_of_Z thr <? lc)%float = true) \/
       (nzero = 0 /\ (raw <=? f_of_Z (5 * m))%float = true)) /\
    (regime m thr nzero lc raw = Raw <->
       nzero = 0 /\ (raw <=? f_of_Z (5 * m))%float = false).
Proof.
  split; [reflexivity|]. split; [reflexivity|].
  intros m thr nzero lc raw Hnz. unfold regime.
  change hll_zero_cmp with 0. change hll_raw_mult with 5.
  destruct (nzero >? 0) eqn:Hz;
    [apply Z.gtb_lt in Hz | rewrite Z.gtb_ltb in Hz; apply Z.ltb_ge in Hz];
    destruct (f_of_Z thr <? lc)%float eqn:Hc;
    destruct (raw <=? f_of_Z (5 * m))%float eqn:Hr;
    intuition (try discriminate; try lia; try congruence).
Qed.

Lemma filter_length_le : forall {A} (f : A -> bool) l, (length (filter f l) <= length l)%nat.
Proof. induction l as [|a t IH]; cbn [filter length]; [lia|]. destruct (f a); cbn [length]; lia. Qed.

(* n_zero of l.144 is never negative for a register file of m entries *)
Lemma n_zero_nonneg : forall p regs, Z.of_nat (length regs) = hllq_m p -> 0 <= hllq_m p - count_nz regs <= hllq_m p.
Proof.
  intros p regs H. unfold count_nz. pose proof (filter_length_le nonzerob regs). lia.
Qed.

(* query_model returns the value of the branch named by regime *)
Lemma query_model_by_regime : forall p regs,
  let m := hllq_m p in
  let nz := m - count_nz regs in
  let lc := linear_counting m nz in
  let raw := estimation_function regs m (alpha_model m) in
  query_regime p regs = regime m (hll_threshold p) nz lc raw /\
  query_model p regs =
    match query_regime p regs with
    | LC => lc
    | Corrected => (raw - interp raw (hll_raw p) (hll_bias p))%float
    | Raw => raw
    end.
Proof. intros. split; reflexivity. Qed.

(* ================================================================ alpha *)
Lemma alpha_spec :
  is_binary64_of_ratio hll_alpha_num 7213 10000 = true /\
  is_binary64_of_ratio hll_alpha_den 1079 1000 = true /\
  hll_alpha_one = 1%float /\
  forall m, alpha_model m =
            (0x1.714e3bcd35a86p-1 / (1 + 0x1.14395810624ddp+0 / f_of_Z m))%float.
Proof. repeat split; vm_compute; reflexivity. Qed.

(* ================================================================ order of binary64 values *)
(* The PrimFloat comparisons are specified (FloatAxioms.ltb_spec, leb_spec) by SFcompare on
   spec_float, which is a lexicographic comparison of (class/sign, exponent, mantissa).  The key
   below makes that explicit so that order facts follow by lia. *)
Definition k1 (f : spec_float) : Z :=
  match f with
  | S754_infinity true => -2 | S754_finite true _ _ => -1
  | S754_finite false _ _ => 1 | S754_infinity false => 2
  | _ => 0
  end.
Definition k2 (f : spec_float) : Z :=
  match f with S754_finite true _ e => - e | S754_finite false _ e => e | _ => 0 end.
Definition k3 (f : spec_float) : Z :=
  match f with S754_finite true m _ => - Zpos m | S754_finite false m _ => Zpos m | _ => 0 end.
Definition sfnan (f : spec_float) : bool := match f with S754_nan => true | _ => false end.
Definition lexlt (a b : spec_float) : Prop :=
  k1 a < k1 b \/ (k1 a = k1 b /\ (k2 a < k2 b \/ (k2 a = k2 b /\ k3 a < k3 b))).

Lemma SFcompare_lex : forall a b, sfnan a = false -> sfnan b = false ->
  (SFcompare a b = Some Lt /\ lexlt a b) \/
  (SFcompare a b = Some Gt /\ lexlt b a) \/
  (SFcompare a b = Some Eq /\ ~ lexlt a b /\ ~ lexlt b a).
Proof.
  intros a b Ha Hb. unfold lexlt.
  destruct a as [sa|sa| |sa ma ea]; destruct b as [sb|sb| |sb mb eb]; try discriminate;
    try destruct sa; try destruct sb; cbn [SFcompare k1 k2 k3];
    try (left; split; [reflexivity|lia]);
    try (right; left; split; [reflexivity|lia]);
    try (right; right; split; [reflexivity|lia]).
  - (* both negative *)
    change (Pos.compare_cont Eq ma mb) with (Pos.compare ma mb).
    destruct (Z.compare_spec ea eb) as [He|He|He].
    + destruct (Pos.compare_spec ma mb) as [Hm|Hm|Hm]; cbn [CompOpp].
      * right; right. split; [reflexivity|]. subst. lia.
      * right; left. split; [reflexivity|]. lia.
      * left. split; [reflexivity|]. lia.
    + right; left. split; [reflexivity|]. lia.
    + left. split; [reflexivity|]. lia.
  - (* both positive *)
    change (Pos.compare_cont Eq ma mb) with (Pos.compare ma mb).
    destruct (Z.compare_spec ea eb) as [He|He|He].
    + destruct (Pos.compare_spec ma mb) as [Hm|Hm|Hm].
      * right; right. split; [reflexivity|]. subst. lia.
      * left. split; [reflexivity|]. lia.
      * right; left. split; [reflexivity|]. lia.
    + left. split; [reflexivity|]. lia.
    + right; left. split; [reflexivity|]. lia.
Qed.

Lemma SFltb_lex : forall a b, SFltb a b = true <-> sfnan a = false /\ sfnan b = false /\ lexlt a b.
Proof.
  intros a b. unfold SFltb. split.
  - intro H.
    assert (Ha : sfnan a = false) by (destruct a; try reflexivity; discriminate).
    assert (Hb : sfnan b = false) by (destruct a; destruct b; try reflexivity; discriminate).
    destruct (SFcompare_lex a b Ha Hb) as [[E L]|[[E L]|[E L]]]; rewrite E in H; try discriminate.
    auto.
  - intros (Ha & Hb & L).
    destruct (SFcompare_lex a b Ha Hb) as [[E L']|[[E L']|[E [L1 L2]]]]; rewrite E; try reflexivity.
    + exfalso. unfold lexlt in *. lia.
    + exfalso. tauto.
Qed.

Lemma SFleb_lex : forall a b, SFleb a b = true <-> sfnan a = false /\ sfnan b = false /\ ~ lexlt b a.
Proof.
  intros a b. unfold SFleb. split.
  - intro H.
    assert (Ha : sfnan a = false) by (destruct a; try reflexivity; discriminate).
    assert (Hb : sfnan b = false) by (destruct a; destruct b; try reflexivity; discriminate).
    destruct (SFcompare_lex a b Ha Hb) as [[E L]|[[E L]|[E [L1 L2]]]]; rewrite E in H; try discriminate.
    + repeat split; auto. unfold lexlt in *. lia.
    + repeat split; auto.
  - intros (Ha & Hb & L).
    destruct (SFcompare_lex a b Ha Hb) as [[E L']|[[E L']|[E [L1 L2]]]]; rewrite E; try reflexivity.
    exfalso. tauto.
Qed.

(* --- the same on PrimFloat, through the specification of the comparisons --- *)
Definition flt (x y : float) : Prop := lexlt (Prim2SF x) (Prim2SF y).
Definition fnum (x : float) : Prop := sfnan (Prim2SF x) = false.

Lemma ltb_lex : forall x y, (x <? y)%float = true <-> fnum x /\ fnum y /\ flt x y.
Proof. intros. rewrite ltb_spec. apply SFltb_lex. Qed.
Lemma leb_lex : forall x y, (x <=? y)%float = true <-> fnum x /\ fnum y /\ ~ flt y x.
Proof. intros. rewrite leb_spec. apply SFleb_lex. Qed.

Lemma flt_trans : forall x y z, flt x y -> flt y z -> flt x z.
Proof. unfold flt, lexlt. intros. lia. Qed.
Lemma flt_irrefl : forall x, ~ flt x x.
Proof. unfold flt, lexlt. intros. lia. Qed.
Lemma fle_lt_trans : forall x y z, ~ flt y x -> flt y z -> flt x z.
Proof. unfold flt, lexlt. intros. lia. Qed.
Lemma flt_le_trans : forall x y z, flt x y -> ~ flt z y -> flt x z.
Proof. unfold flt, lexlt. intros. lia. Qed.

Lemma ltb_false_of : forall x y, fnum x -> fnum y -> ~ flt x y -> (x <? y)%float = false.
Proof.
  intros x y Hx Hy H. destruct (x <? y)%float eqn:E; [|reflexivity].
  apply ltb_lex in E. tauto.
Qed.

(* ================================================================ np.interp *)
Lemma last_nth_nan : forall (l : list float) d, l <> [] -> last l d = nth (length l - 1) l nan.
Proof.
  induction l as [|a t IH]; intros d H; [congruence|].
  destruct t as [|b t'].
  - reflexivity.
  - change (last (a :: b :: t') d) with (last (b :: t') d).
    rewrite IH by discriminate. cbn [length].
    replace (S (S (length t')) - 1)%nat with (S (S (length t') - 1)) by lia. reflexivity.
Qed.

(* the arithmetic of one segment: exact knot, else NumPy's two-point form *)
Lemma interp_segment_spec : forall x x0 x1 y0 y1,
  ((x0 =? x)%float = true -> interp_segment x x0 x1 y0 y1 = y0) /\
  ((x0 =? x)%float = false ->
   is_nan ((y1 - y0) / (x1 - x0) * (x - x0) + y0)%float = false ->
   interp_segment x x0 x1 y0 y1 = ((y1 - y0) / (x1 - x0) * (x - x0) + y0)%float).
Proof.
  intros. unfold interp_segment. split; intros H.
  - rewrite H. reflexivity.
  - intros Hn. rewrite H. rewrite Hn. reflexivity.
Qed.

Lemma interp_scan_seg : forall (j : nat) xp fp x,
  length xp = length fp -> (S j < length xp)%nat ->
  (forall i, (1 <= i <= j)%nat -> (x <? nth i xp nan)%float = false) ->
  (x <? nth (S j) xp nan)%float = true ->
  interp_scan x xp fp =
  interp_segment x (nth j xp nan) (nth (S j) xp nan) (nth j fp nan) (nth (S j) fp nan).
Proof.
  induction j as [|j IH]; intros xp fp x Hl Hj Hb Hlt;
    destruct xp as [|x0 [|x1 xs]]; cbn [length] in Hj; try lia;
    destruct fp as [|y0 [|y1 ys]]; cbn [length] in Hl; try lia.
  - cbn [interp_scan nth] in *. rewrite Hlt. reflexivity.
  - change (interp_scan x (x0 :: x1 :: xs) (y0 :: y1 :: ys))
      with (if (x <? x1)%float then interp_segment x x0 x1 y0 y1 else interp_scan x (x1 :: xs) (y1 :: ys)).
    assert (H1 : (x <? x1)%float = false) by (apply (Hb 1%nat); lia).
    rewrite H1.
    change (nth (S j) (x0 :: x1 :: xs) nan) with (nth j (x1 :: xs) nan).
    change (nth (S (S j)) (x0 :: x1 :: xs) nan) with (nth (S j) (x1 :: xs) nan).
    change (nth (S j) (y0 :: y1 :: ys) nan) with (nth j (y1 :: ys) nan).
    change (nth (S (S j)) (y0 :: y1 :: ys) nan) with (nth (S j) (y1 :: ys) nan).
    apply IH.
    + cbn [length]. lia.
    + cbn [length]. lia.
    + intros i Hi. apply (Hb (S i)). lia.
    + exact Hlt.
Qed.

Lemma interp_scan_last : forall xp fp x,
  length xp = length fp -> (1 <= length xp)%nat ->
  (forall i, (1 <= i < length xp)%nat -> (x <? nth i xp nan)%float = false) ->
  interp_scan x xp fp = nth (length xp - 1) fp nan.
Proof.
  induction xp as [|x0 xs IH]; intros fp x Hl Hn Hb; cbn [length] in Hn; [lia|].
  destruct fp as [|y0 ys]; cbn [length] in Hl; [lia|].
  destruct xs as [|x1 xs']; destruct ys as [|y1 ys']; cbn [length] in Hl; try lia.
  - reflexivity.
  - change (interp_scan x (x0 :: x1 :: xs') (y0 :: y1 :: ys'))
      with (if (x <? x1)%float then interp_segment x x0 x1 y0 y1 else interp_scan x (x1 :: xs') (y1 :: ys')).
    assert (H1 : (x <? x1)%float = false) by (apply (Hb 1%nat); cbn [length]; lia).
    rewrite H1. rewrite IH.
    + cbn [length]. replace (S (S (length xs')) - 1)%nat with (S (S (length xs') - 1)) by lia. reflexivity.
    + cbn [length]. lia.
    + cbn [length]. lia.
    + intros i Hi. apply (Hb (S i)). cbn [length] in *. lia.
Qed.

Lemma incr_props : forall xp, strictly_increasing xp -> (2 <= length xp)%nat ->
  (forall i, (i < length xp)%nat -> fnum (nth i xp nan)) /\
  (forall i j, (i < j < length xp)%nat -> flt (nth i xp nan) (nth j xp nan)).
Proof.
  intros xp SI Hn. split.
  - intros i Hi. destruct (Nat.eq_dec (S i) (length xp)) as [E|E].
    + destruct i as [|i]; [lia|]. assert (H := SI i). rewrite ltb_lex in H. apply H. lia.
    + assert (H := SI i). rewrite ltb_lex in H. apply H. lia.
  - intros i j. revert i. induction j as [|j IH]; intros i Hij; [lia|].
    assert (H := SI j). rewrite ltb_lex in H. destruct H as (_ & _ & H); [lia|].
    destruct (Nat.eq_dec i j) as [E|E].
    + subst. exact H.
    + eapply flt_trans; [apply IH; lia | exact H].
Qed.

Lemma interp_spec : forall xp fp x,
  strictly_increasing xp -> length xp = length fp -> (2 <= length xp)%nat -> is_nan x = false ->
  let n := length xp in
  ((x <? nth 0 xp nan)%float = true -> interp x xp fp = nth 0 fp nan) /\
  ((nth (n - 1) xp nan <? x)%float = true -> interp x xp fp = nth (n - 1) fp nan) /\
  (forall j, (S j < n)%nat ->
     (nth j xp nan <=? x)%float = true -> (x <? nth (S j) xp nan)%float = true ->
     interp x xp fp =
     interp_segment x (nth j xp nan) (nth (S j) xp nan) (nth j fp nan) (nth (S j) fp nan)) /\
  ((nth (n - 1) xp nan <=? x)%float = true -> (nth (n - 1) xp nan <? x)%float = false ->
   interp x xp fp = nth (n - 1) fp nan).
Proof.
  intros xp fp x SI Hl Hn Hnan n.
  destruct (incr_props xp SI Hn) as [FN LT].
  assert (Hlastx : forall d, last xp d = nth (n - 1) xp nan).
  { intro d. apply last_nth_nan. destruct xp; [cbn [length] in Hn; lia|discriminate]. }
  assert (Hlastf : forall d, last fp d = nth (n - 1) fp nan).
  { intro d. unfold n. rewrite Hl. apply last_nth_nan. destruct fp; [cbn [length] in Hl; lia|discriminate]. }
  assert (LE : forall i j, (i <= j < n)%nat -> ~ flt (nth j xp nan) (nth i xp nan)).
  { intros i j Hij F. destruct (Nat.eq_dec i j) as [E|E].
    - subst. exact (flt_irrefl _ F).
    - assert (G : flt (nth i xp nan) (nth j xp nan)) by (apply LT; unfold n in Hij; lia).
      exact (flt_irrefl _ (flt_trans _ _ _ G F)). }
  assert (Hunf : interp x xp fp =
                 if (nth (n - 1) xp nan <? x)%float then nth (n - 1) fp nan
                 else if (x <? nth 0 xp nan)%float then nth 0 fp nan
                 else interp_scan x xp fp).
  { unfold interp. destruct xp as [|x0 xs]; [cbn [length] in Hn; lia|].
    destruct fp as [|y0 ys]; [cbn [length] in Hl; lia|].
    rewrite Hnan. rewrite (Hlastx x0), (Hlastf y0). reflexivity. }
  rewrite Hunf. clear Hunf.
  repeat split.
  - (* below the first knot *)
    intro H. assert (H' := H). rewrite ltb_lex in H'. destruct H' as (Fx & _ & L).
    rewrite (ltb_false_of (nth (n - 1) xp nan) x); [rewrite H; reflexivity| apply FN; unfold n; lia | exact Fx |].
    intro F. apply (LE 0%nat (n - 1)%nat); [unfold n; lia|].
    eapply flt_trans; [exact F|exact L].
  - (* above the last knot *)
    intro H. rewrite H. reflexivity.
  - (* inside segment j *)
    intros j Hj Hle Hlt.
    assert (Hle' := Hle). rewrite leb_lex in Hle'. destruct Hle' as (_ & Fx & NL).
    assert (Hlt' := Hlt). rewrite ltb_lex in Hlt'. destruct Hlt' as (_ & _ & L).
    rewrite (ltb_false_of (nth (n - 1) xp nan) x); [| apply FN; unfold n; lia | exact Fx |].
    2:{ intro F. apply (LE (S j) (n - 1)%nat); [lia|]. eapply flt_trans; [exact F|exact L]. }
    rewrite (ltb_false_of x (nth 0 xp nan)); [| exact Fx | apply FN; lia |].
    2:{ intro F. apply NL. eapply flt_le_trans; [exact F|]. apply LE. lia. }
    apply interp_scan_seg; [exact Hl | exact Hj | | exact Hlt].
    intros i Hi. apply ltb_false_of; [exact Fx | apply FN; unfold n in Hj; lia |].
    intro F. apply NL. eapply flt_le_trans; [exact F|]. apply LE. lia.
  - (* exactly the last knot *)
    intros Hle Hnlt.
    assert (Hle' := Hle). rewrite leb_lex in Hle'. destruct Hle' as (_ & Fx & NL).
    rewrite Hnlt.
    rewrite (ltb_false_of x (nth 0 xp nan)); [| exact Fx | apply FN; lia |].
    2:{ intro F. apply NL. eapply flt_le_trans; [exact F|]. apply LE. unfold n. lia. }
    rewrite interp_scan_last; [reflexivity | exact Hl | lia |].
    intros i Hi. apply ltb_false_of; [exact Fx | apply FN; lia |].
    intro F. apply NL. eapply flt_le_trans; [exact F|]. apply LE. unfold n. lia.
Qed.

(* the same instantiated on the shipped rows (hypotheses discharged by raw_increasing / rows_length) *)
Lemma interp_tables : forall p x, 7 <= p <= 16 -> is_nan x = false ->
  let xp := hll_raw p in
  let fp := hll_bias p in
  ((x <? nth 0 xp nan)%float = true -> interp x xp fp = nth 0 fp nan) /\
  ((nth 199 xp nan <? x)%float = true -> interp x xp fp = nth 199 fp nan) /\
  (forall j, (S j < 200)%nat ->
     (nth j xp nan <=? x)%float = true -> (x <? nth (S j) xp nan)%float = true ->
     interp x xp fp =
     interp_segment x (nth j xp nan) (nth (S j) xp nan) (nth j fp nan) (nth (S j) fp nan)) /\
  ((nth 199 xp nan <=? x)%float = true -> (nth 199 xp nan <? x)%float = false ->
   interp x xp fp = nth 199 fp nan).
Proof.
  intros p x Hp Hx xp fp. destruct (rows_length p Hp) as [Lr Lb].
  assert (H2 : (2 <= length (hll_raw p))%nat) by (rewrite Lr; lia).
  pose proof (interp_spec (hll_raw p) (hll_bias p) x (raw_increasing p Hp)
                          (eq_trans Lr (eq_sym Lb)) H2 Hx) as H.
  cbv zeta in H. rewrite Lr in H. change (200 - 1)%nat with 199%nat in H. exact H.
Qed.

(* ================================================================ C07: deterministic clauses *)
(* the empty sketch: all registers zero -> n_zero = m, m/m = 1, ln_model 1 = +0, m * 0 = 0,
   0 > threshold is false: query() = 0.0 exactly.  By computation for each of the ten precisions. *)
Lemma query_empty : forall p, 7 <= p <= 16 ->
  regs_okb p (zeros (hllq_m p)) = true /\
  query_regime p (zeros (hllq_m p)) = LC /\
  query_model p (zeros (hllq_m p)) = 0%float.
Proof. intros p H. each_p H; vm_compute; repeat split; reflexivity. Qed.

Lemma ln_model_one : ln_model 1 = 0%float.
Proof. vm_compute. reflexivity. Qed.

(* --- occupied registers <= distinct keys --- *)
Lemma nth_upd_max_other : forall regs i j v, i <> j -> nth i (upd_max regs j v) 0 = nth i regs 0.
Proof.
  induction regs as [|r t IH]; intros i j v H; [destruct j; reflexivity|].
  destruct j as [|j]; destruct i as [|i]; cbn [upd_max nth]; try reflexivity; try congruence.
  apply IH. congruence.
Qed.

Lemma upd_max_length : forall regs j v, length (upd_max regs j v) = length regs.
Proof.
  induction regs as [|r t IH]; intros j v; [destruct j; reflexivity|].
  destruct j; cbn [upd_max length]; [reflexivity|]. rewrite IH. reflexivity.
Qed.

Lemma add_keys_support : forall idx rank ks regs (S : list nat),
  (forall i, nth i regs 0 <> 0 -> In i S) ->
  forall i, nth i (add_keys idx rank regs ks) 0 <> 0 -> In i (map idx ks) \/ In i S.
Proof.
  intros idx rank. induction ks as [|k ks IH]; intros regs S H i Hi.
  - right. apply H. exact Hi.
  - cbn [add_keys fold_left] in Hi. fold (add_keys idx rank (add_key idx rank regs k) ks) in Hi.
    destruct (IH (add_key idx rank regs k) (idx k :: S)) with (i := i) as [G|G].
    + intros i' Hi'. destruct (Nat.eq_dec i' (idx k)) as [E|E]; [left; congruence|].
      right. apply H. unfold add_key in Hi'. rewrite nth_upd_max_other in Hi' by exact E. exact Hi'.
    + exact Hi.
    + left. right. exact G.
    + destruct G as [G|G]; [left; left; exact G | right; exact G].
Qed.

Lemma filter_index_length : forall regs k,
  length (filter nonzerob regs) =
  length (filter (fun i => nonzerob (nth (i - k) regs 0)) (seq k (length regs))).
Proof.
  induction regs as [|a t IH]; intros k; [reflexivity|].
  assert (E : filter (fun i => nonzerob (nth (i - S k) t 0)) (seq (S k) (length t)) =
              filter (fun i => nonzerob (nth (i - k) (a :: t) 0)) (seq (S k) (length t))).
  { apply filter_ext_in. intros i Hi. apply in_seq in Hi.
    replace (i - k)%nat with (S (i - S k)) by lia. reflexivity. }
  cbn [length seq filter]. rewrite Nat.sub_diag. change (nth 0 (a :: t) 0) with a. rewrite <- E.
  destruct (nonzerob a); cbn [length]; rewrite (IH (S k)); reflexivity.
Qed.

Lemma count_nz_le_support : forall regs (S : list nat),
  (forall i, nth i regs 0 <> 0 -> In i S) ->
  count_nz regs <= Z.of_nat (length (nodup Nat.eq_dec S)).
Proof.
  intros regs S H. unfold count_nz. rewrite (filter_index_length regs 0).
  apply inj_le. apply NoDup_incl_length.
  - apply NoDup_filter. apply seq_NoDup.
  - intros i Hi. apply filter_In in Hi. destruct Hi as [_ Hi].
    apply nodup_In. apply H. rewrite Nat.sub_0_r in Hi.
    unfold nonzerob in Hi. apply negb_true_iff in Hi. apply Z.eqb_neq in Hi. exact Hi.
Qed.

Lemma nodup_map_length : forall (f : key -> nat) (l : list key),
  (length (nodup Nat.eq_dec (map f l)) <= length (nodup keyq_eq_dec l))%nat.
Proof.
  intros f l. rewrite <- (map_length f (nodup keyq_eq_dec l)).
  apply NoDup_incl_length; [apply NoDup_nodup|].
  intros x Hx. apply nodup_In in Hx. apply in_map_iff in Hx. destruct Hx as (a & Ea & Ha).
  apply in_map_iff. exists a. split; [exact Ea|]. apply nodup_In. exact Ha.
Qed.

Lemma nth_repeat0 : forall n i, nth i (repeat 0 n) 0 = 0.
Proof. induction n as [|n IH]; intros [|i]; cbn [repeat nth]; auto. Qed.

Lemma occupied_le_n : forall (idx : key -> nat) (rank : key -> Z) (n : nat) (ks : list key),
  count_nz (add_keys idx rank (repeat 0 n) ks) <= Z.of_nat (length (nodup keyq_eq_dec ks)).
Proof.
  intros idx rank n ks.
  apply Z.le_trans with (Z.of_nat (length (nodup Nat.eq_dec (map idx ks)))).
  - apply count_nz_le_support. intros i Hi.
    destruct (add_keys_support idx rank ks (repeat 0 n) [] ) with (i := i) as [G|G].
    + intros i' Hi'. rewrite nth_repeat0 in Hi'. congruence.
    + exact Hi.
    + exact G.
    + destruct G.
  - apply inj_le. apply nodup_map_length.
Qed.

Lemma add_keys_length : forall idx rank ks regs, length (add_keys idx rank regs ks) = length regs.
Proof.
  intros idx rank. induction ks as [|k ks IH]; intros regs; [reflexivity|].
  cbn [add_keys fold_left]. fold (add_keys idx rank (add_key idx rank regs k) ks).
  rewrite IH. apply upd_max_length.
Qed.

(* ================================================================ C07: linear counting is monotone (reals) *)
From Coq Require Import Reals Lra.

Lemma lc_monotone : forall m a b : R,
  (0 <= a)%R -> (a <= b)%R -> (b < m)%R ->
  (m * ln (m / (m - a)) <= m * ln (m / (m - b)))%R.
Proof.
  intros m a b Ha Hab Hb.
  assert (Hm : (0 < m)%R) by lra.
  assert (Hmb : (0 < m - b)%R) by lra.
  assert (Hma : (0 < m - a)%R) by lra.
  apply Rmult_le_compat_l; [lra|].
  assert (Hq : (m / (m - a) <= m / (m - b))%R).
  { unfold Rdiv. apply Rmult_le_compat_l; [lra|]. apply Rinv_le_contravar; lra. }
  assert (Hpos : (0 < m / (m - a))%R) by (apply Rdiv_lt_0_compat; lra).
  destruct Hq as [Hq|Hq].
  - left. apply ln_increasing; assumption.
  - rewrite Hq. right. reflexivity.
Qed.

(* ================================================================ C07: the same over the register model of Hll.v *)
(* (qualified names: Hll.v has its own count_nonzero / hll_m / key_eq_dec) *)
From Sketchnu Require Hashes Hll HllProofs.

(* the register file of a history as the list registers[0], ..., registers[2^p - 1] *)
Definition hllq_reg_list (p seed : Z) (h : Hll.hll_hist) : list Z :=
  map (fun i : nat => Hll.hll_reg p seed h (Z.of_nat i)) (seq 0 (Z.to_nat (2 ^ p))).

Lemma filter_map_length : forall {A B} (f : A -> B) (g : B -> bool) (l : list A),
  length (filter g (map f l)) = length (filter (fun a => g (f a)) l).
Proof.
  induction l as [|a t IH]; [reflexivity|].
  cbn [map filter]. destruct (g (f a)); cbn [length]; rewrite IH; reflexivity.
Qed.

Lemma spec_reg_support : forall p seed L i,
  Hll.spec_reg p seed L i <> 0 ->
  exists k, In k L /\ Hll.spec_idx p (Hashes.fasthash64 k seed) = i.
Proof.
  intros p seed L i H. unfold Hll.spec_reg in H.
  destruct (filter (fun k => Hll.spec_idx p (Hashes.fasthash64 k seed) =? i) L) as [|k t] eqn:E.
  - cbn in H. congruence.
  - exists k.
    assert (Hk : In k (filter (fun k => Hll.spec_idx p (Hashes.fasthash64 k seed) =? i) L))
      by (rewrite E; left; reflexivity).
    apply filter_In in Hk. destruct Hk as [Hk1 Hk2]. split; [exact Hk1|]. apply Z.eqb_eq. exact Hk2.
Qed.

Lemma occupied_le_n_hll : forall p seed h,
  hll_p_min <= p <= hll_p_max /\ 0 <= seed < 2 ^ 64 ->
  length (hllq_reg_list p seed h) = Z.to_nat (2 ^ p) /\
  count_nz (hllq_reg_list p seed h) <= Z.of_nat (length (nodup keyq_eq_dec (Hll.hll_keys_raw h))).
Proof.
  intros p seed h Hok. split.
  { unfold hllq_reg_list. rewrite map_length, seq_length. reflexivity. }
  set (idxn := fun k : key => Z.to_nat (Hll.spec_idx p (Hashes.fasthash64 k seed))).
  apply Z.le_trans with (Z.of_nat (length (nodup Nat.eq_dec (map idxn (Hll.hll_keys_raw h))))).
  - unfold count_nz, hllq_reg_list. rewrite filter_map_length.
    apply inj_le. apply NoDup_incl_length.
    + apply NoDup_filter. apply seq_NoDup.
    + intros i Hi. apply filter_In in Hi. destruct Hi as [_ Hi].
      unfold nonzerob in Hi. apply negb_true_iff in Hi. apply Z.eqb_neq in Hi.
      rewrite (HllProofs.registers_raw p seed h (Z.of_nat i) Hok) in Hi.
      apply spec_reg_support in Hi. destruct Hi as (k & Hk & Ek).
      apply nodup_In. apply in_map_iff. exists k. split; [|exact Hk].
      unfold idxn. rewrite Ek. apply Nat2Z.id.
  - apply inj_le. apply nodup_map_length.
Qed.

(* the rows of the three tables are selected by p - 7 in HyperLogLog.__init__ (offset re-read from the source) *)
Lemma table_offset_ok : Consts.hll_table_offset = 7%Z.
Proof. reflexivity. Qed.
