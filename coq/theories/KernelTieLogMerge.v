(* KernelTieLogMerge.v - _merge_log16 / _merge_log8 (see KernelTieLog.v for the conventions) *)
From Coq Require Import ZArith List Lia Bool ZifyBool.
From Coq Require Import Floats.PrimFloat.
From Sketchnu Require Import Machine BitLemmas KernelsLog CmsLog KernelTieLog.
Import ListNotations.
Open Scope Z_scope.

(* ---------------- the expression with np.log, l.1120 / l.1719 ----------------
   hand transcription of `np.log((v - num_reserved) * (base - 1.0) + 1.0) / np.log(base)`, flog = np.log *)
Definition logq_source (flog : float -> float) (base : float) (nr : Z) (v : float) : float :=
  (flog ((v - z2f nr) * (base - f_one) + f_one) / flog base)%float.

Lemma tie_merge_log_logq flog base nr v :
  (0 <= nr < 2^16 -> gen_merge_log16_logq flog base nr v = logq_source flog base nr v) /\
  (0 <= nr < 2^8 -> gen_merge_log8_logq flog base nr v = logq_source flog base nr v).
Proof.
  split; intros Hn; unfold gen_merge_log16_logq, gen_merge_log8_logq, logq_source; cbv zeta.
  - unwrap. rewrite (gen_u64f_small nr) by lia. reflexivity.
  - unwrap. rewrite (gen_u64f_small nr) by lia. reflexivity.
Qed.

Section Cell.
Variable nr umax max_count : Z.
Variable decode : Z -> float.      (* decode c = _counter2value(c, num_reserved, base) *)
Variable logq : float -> float.    (* v |-> np.log((v - num_reserved) * (base - 1.0) + 1.0) / np.log(base) *)
Variable base : float.

(* the call _counter2value(c, num_reserved, base) with the sketch's own num_reserved and base is the table entry *)
Definition c2v_of : Z -> Z -> float -> float := fun c _ _ => decode c.

(* DESIGN 3.4, the modelling assumption of the merge rule, for one decoded sum v that reaches the rounding branch:
   the truncated logarithm lands on the table's lower neighbour *)
Definition log_lands16 (v : float) : Prop :=
  PrimFloat.leb v (z2f nr) = false -> PrimFloat.leb (u64_to_float max_count) v = false ->
  wrap16 (f2z_trunc (logq v)) + nr = clower_of nr umax decode v.
Definition log_lands8 (v : float) : Prop :=
  PrimFloat.leb v (z2f nr) = false -> PrimFloat.leb (u64_to_float max_count) v = false ->
  wrap8 (f2z_trunc (logq v)) + nr = clower_of nr umax decode v.

(* ---------------- _merge_log16 l.1111-1129: body of the loop over the cells ---------------- *)
Lemma tie_merge_log16_cell mine other :
  0 <= nr < 2^16 -> 0 <= umax < 2^16 -> 0 <= mine < 2^16 -> 0 <= other < 2^16 ->
  log_lands16 (decode mine + decode other)%float ->
  gen_merge_log16_cell c2v_of logq base mine other max_count umax nr = merge_cell16 nr umax max_count decode mine other.
Proof.
  intros Hn Hu Hm Ho HL. unfold gen_merge_log16_cell, merge_cell16, merge_cell, c2v_of, log_lands16 in *. cbv zeta.
  unwrap. rewrite (gen_u64f_small nr) by lia.
  change (gen_u64f max_count) with (u64_to_float max_count).
  change gen_f2z with f2z_trunc.
  set (v := (decode mine + decode other)%float) in *.
  change (PrimFloat.add (decode mine) (decode other)) with v.
  destruct (PrimFloat.leb v (z2f nr)) eqn:B1; [apply wrap16_idem|].
  destruct (PrimFloat.leb (u64_to_float max_count) v) eqn:B2; [reflexivity|].
  specialize (HL eq_refl eq_refl). rewrite HL.
  pose proof (wrap16_range (f2z_trunc (logq v))) as Hr.
  set (cl := clower_of nr umax decode v) in *.
  unwrap. rewrite ?(Z.add_comm 1 cl). reflexivity.
Qed.

(* ---------------- _merge_log8 l.1710-1728 ---------------- *)
Lemma tie_merge_log8_cell mine other :
  0 <= nr < 2^8 -> 0 <= umax < 2^8 -> 0 <= mine < 2^16 -> 0 <= other < 2^16 ->
  log_lands8 (decode mine + decode other)%float ->
  gen_merge_log8_cell c2v_of logq base mine other max_count umax nr = merge_cell8 nr umax max_count decode mine other.
Proof.
  intros Hn Hu Hm Ho HL. unfold gen_merge_log8_cell, merge_cell8, merge_cell, c2v_of, log_lands8 in *. cbv zeta.
  unwrap. rewrite (gen_u64f_small nr) by lia.
  change (gen_u64f max_count) with (u64_to_float max_count).
  change gen_f2z with f2z_trunc.
  set (v := (decode mine + decode other)%float) in *.
  change (PrimFloat.add (decode mine) (decode other)) with v.
  destruct (PrimFloat.leb v (z2f nr)) eqn:B1; [apply wrap8_idem|].
  destruct (PrimFloat.leb (u64_to_float max_count) v) eqn:B2; [reflexivity|].
  specialize (HL eq_refl eq_refl). rewrite HL.
  pose proof (wrap8_range (f2z_trunc (logq v))) as Hr.
  set (cl := clower_of nr umax decode v) in *.
  unwrap. rewrite ?(Z.add_comm 1 cl). reflexivity.
Qed.

(* the saturation branch `elif v >= max_count: cms[row, col] = uint_maxval`, whatever the logarithm does *)
Lemma tie_merge_log_saturates mine other :
  let v := (decode mine + decode other)%float in
  0 <= mine < 2^16 -> 0 <= other < 2^16 ->
  PrimFloat.leb v (z2f nr) = false -> PrimFloat.leb (u64_to_float max_count) v = true ->
  (0 <= nr < 2^16 -> 0 <= umax < 2^16 -> gen_merge_log16_cell c2v_of logq base mine other max_count umax nr = umax) /\
  (0 <= nr < 2^8 -> 0 <= umax < 2^8 -> gen_merge_log8_cell c2v_of logq base mine other max_count umax nr = umax).
Proof.
  intros v Hm Ho B1 B2. split; intros Hn Hu.
  - rewrite tie_merge_log16_cell; try assumption.
    + unfold merge_cell16, merge_cell. fold v. rewrite B1, B2. reflexivity.
    + unfold log_lands16. fold v. rewrite B2. discriminate.
  - rewrite tie_merge_log8_cell; try assumption.
    + unfold merge_cell8, merge_cell. fold v. rewrite B1, B2. reflexivity.
    + unfold log_lands8. fold v. rewrite B2. discriminate.
Qed.
End Cell.

(* ---------------- l.1132-1133 / l.1731-1732: the two special counters ---------------- *)
Lemma tie_merge_log_counters x y : 0 <= x -> 0 <= y -> x + y < 2^64 ->
  gen_merge_log16_n_added x y = x + y /\ gen_merge_log16_n_records x y = x + y /\
  gen_merge_log8_n_added x y = x + y /\ gen_merge_log8_n_records x y = x + y.
Proof.
  intros Hx Hy Hs.
  unfold gen_merge_log16_n_added, gen_merge_log16_n_records, gen_merge_log8_n_added, gen_merge_log8_n_records. cbv zeta.
  rewrite ?wrap64_idem. unwrap. repeat split; lia.
Qed.

(* the whole merge, cell by cell and counter by counter, assembled from the generated pieces *)
Lemma tie_merge_log16 nr umax max_count decode logq base (a b : lsk) :
  0 <= nr < 2^16 -> 0 <= umax < 2^16 ->
  (forall r c, 0 <= lcms a r c < 2^16) -> (forall r c, 0 <= lcms b r c < 2^16) ->
  (forall r c, log_lands16 nr umax max_count decode logq (decode (lcms a r c) + decode (lcms b r c))%float) ->
  0 <= ln_added a -> 0 <= ln_added b -> ln_added a + ln_added b < 2^64 ->
  0 <= ln_records a -> 0 <= ln_records b -> ln_records a + ln_records b < 2^64 ->
  let m := merge_log nr umax max_count decode wrap16 a b in
  (forall r c, lcms m r c = gen_merge_log16_cell (c2v_of decode) logq base (lcms a r c) (lcms b r c) max_count umax nr) /\
  ln_added m = gen_merge_log16_n_added (ln_added a) (ln_added b) /\
  ln_records m = gen_merge_log16_n_records (ln_records a) (ln_records b).
Proof.
  intros Hn Hu Ha Hb HL A1 A2 A3 R1 R2 R3 m. split; [|split].
  - intros r c. rewrite tie_merge_log16_cell by (try apply Ha; try apply Hb; try apply HL; assumption). reflexivity.
  - destruct (tie_merge_log_counters _ _ A1 A2 A3) as (-> & _). reflexivity.
  - destruct (tie_merge_log_counters _ _ R1 R2 R3) as (_ & -> & _). reflexivity.
Qed.

Lemma tie_merge_log8 nr umax max_count decode logq base (a b : lsk) :
  0 <= nr < 2^8 -> 0 <= umax < 2^8 ->
  (forall r c, 0 <= lcms a r c < 2^16) -> (forall r c, 0 <= lcms b r c < 2^16) ->
  (forall r c, log_lands8 nr umax max_count decode logq (decode (lcms a r c) + decode (lcms b r c))%float) ->
  0 <= ln_added a -> 0 <= ln_added b -> ln_added a + ln_added b < 2^64 ->
  0 <= ln_records a -> 0 <= ln_records b -> ln_records a + ln_records b < 2^64 ->
  let m := merge_log nr umax max_count decode wrap8 a b in
  (forall r c, lcms m r c = gen_merge_log8_cell (c2v_of decode) logq base (lcms a r c) (lcms b r c) max_count umax nr) /\
  ln_added m = gen_merge_log8_n_added (ln_added a) (ln_added b) /\
  ln_records m = gen_merge_log8_n_records (ln_records a) (ln_records b).
Proof.
  intros Hn Hu Ha Hb HL A1 A2 A3 R1 R2 R3 m. split; [|split].
  - intros r c. rewrite tie_merge_log8_cell by (try apply Ha; try apply Hb; try apply HL; assumption). reflexivity.
  - destruct (tie_merge_log_counters _ _ A1 A2 A3) as (_ & _ & -> & _). reflexivity.
  - destruct (tie_merge_log_counters _ _ R1 R2 R3) as (_ & _ & _ & ->). reflexivity.
Qed.
