(* CmsLinearProofs.v — invariants of the linear count-min model, for every bucket function. *)
From Coq Require Import ZArith List Lia Bool ZifyBool Arith.
From Sketchnu Require Import Machine BitLemmas Consts Ngram NgramProofs CmsLinear.
Import ListNotations.
Open Scope Z_scope.

Lemma cap_val : cap = 2^32 - 1.
Proof. reflexivity. Qed.
Lemma cap_pos : 1 <= cap.
Proof. rewrite cap_val. lia. Qed.

Section Proofs.
Variable width depth : nat.
Variable bucket : nat -> key -> nat.
Hypothesis bucket_lt : forall r k, (bucket r k < width)%nat.

Notation query := (query depth bucket).
Notation add_linear := (add_linear depth bucket).
Notation cls_add := (cls_add depth bucket).
Notation qrows := (qrows bucket).
Notation eval := (eval width depth bucket).
Notation aeval := (aeval width depth bucket).
Notation saveload := (saveload width depth).
Notation mass := (mass bucket).

(* ---------- qrows ---------- *)
Lemma qrows_le_acc t k rows acc : qrows t k rows acc <= acc.
Proof.
  revert acc; induction rows as [|r rs IH]; intros acc; cbn [CmsLinear.qrows]; [lia|].
  specialize (IH (if t r (bucket r k) <? acc then t r (bucket r k) else acc)).
  destruct (_ <? _) eqn:?; lia.
Qed.

Lemma qrows_le_cell t k rows acc r : In r rows -> qrows t k rows acc <= t r (bucket r k).
Proof.
  revert acc; induction rows as [|r' rs IH]; intros acc Hin; [destruct Hin|].
  cbn [CmsLinear.qrows]. destruct Hin as [->|Hin]; [|apply IH; exact Hin].
  pose proof (qrows_le_acc t k rs (if t r (bucket r k) <? acc then t r (bucket r k) else acc)).
  destruct (_ <? _) eqn:?; lia.
Qed.

Lemma qrows_ge t k rows acc lo :
  lo <= acc -> (forall r, In r rows -> lo <= t r (bucket r k)) -> lo <= qrows t k rows acc.
Proof.
  revert acc; induction rows as [|r rs IH]; intros acc Ha H; cbn [CmsLinear.qrows]; [lia|].
  apply IH; [|intros; apply H; right; assumption].
  specialize (H r (or_introl eq_refl)). destruct (_ <? _); lia.
Qed.

Lemma qrows_mono t t' k rows : forall acc acc',
  acc <= acc' -> (forall r, In r rows -> t r (bucket r k) <= t' r (bucket r k)) ->
  qrows t k rows acc <= qrows t' k rows acc'.
Proof.
  induction rows as [|r rs IH]; intros acc acc' Ha H; cbn [CmsLinear.qrows]; [lia|].
  apply IH; [|intros; apply H; right; assumption].
  specialize (H r (or_introl eq_refl)).
  destruct (t r (bucket r k) <? acc) eqn:?; destruct (t' r (bucket r k) <? acc') eqn:?; lia.
Qed.

Lemma qrows_ext t t' k rows acc :
  (forall r, In r rows -> t r (bucket r k) = t' r (bucket r k)) -> qrows t k rows acc = qrows t' k rows acc.
Proof.
  intros H. apply Z.le_antisymm; apply qrows_mono; try lia; intros r Hr; rewrite (H r Hr); lia.
Qed.

(* min over rows of max(cell, nw) = max(min over rows, nw) *)
Lemma qrows_max t t' k nw rows : forall acc,
  (forall r, In r rows -> t' r (bucket r k) = Z.max (t r (bucket r k)) nw) ->
  qrows t' k rows (Z.max acc nw) = Z.max (qrows t k rows acc) nw.
Proof.
  induction rows as [|r rs IH]; intros acc H; cbn [CmsLinear.qrows]; [reflexivity|].
  rewrite (H r (or_introl eq_refl)).
  rewrite <- IH by (intros; apply H; right; assumption). f_equal.
  destruct (Z.max (t r (bucket r k)) nw <? Z.max acc nw) eqn:?; destruct (t r (bucket r k) <? acc) eqn:?; lia.
Qed.

Lemma qrows_le_max t t' k nw rows : forall acc,
  (forall r, In r rows -> t' r (bucket r k) <= Z.max (t r (bucket r k)) nw) ->
  qrows t' k rows (Z.max acc nw) <= Z.max (qrows t k rows acc) nw.
Proof.
  intros acc H.
  set (tm := fun r c => Z.max (t r c) nw).
  rewrite <- (qrows_max t tm k nw rows acc) by reflexivity.
  apply qrows_mono; [lia|]. intros r Hr. unfold tm. apply H. exact Hr.
Qed.

Lemma query_le_cap s k : query s k <= cap.
Proof. unfold CmsLinear.query. apply qrows_le_acc. Qed.

Lemma query_le_cell s k r : (r < depth)%nat -> query s k <= cms s r (bucket r k).
Proof. intros. unfold CmsLinear.query. apply qrows_le_cell. apply in_seq. lia. Qed.

(* ---------- range invariant ---------- *)
Definition Rng (s : sk) : Prop := forall r c, 0 <= cms s r c <= cap.

Lemma Rng_empty : Rng empty.
Proof. intros r c. cbn. pose proof cap_pos. lia. Qed.

Lemma query_nonneg s k : Rng s -> 0 <= query s k.
Proof.
  intros H. unfold CmsLinear.query. apply qrows_ge; [pose proof cap_pos; lia|].
  intros r _. apply H.
Qed.

(* cleaner form under the conditions of use *)
Lemma add_linear_cell' s k v r c : Rng s -> 0 <= v ->
  cms (add_linear s k v) r c =
  if (r <? depth)%nat && (c =? bucket r k)%nat
  then Z.max (cms s r c) (Z.min (query s k + v) cap)
  else cms s r c.
Proof.
  intros HR Hv. unfold CmsLinear.add_linear. pose proof (query_le_cap s k) as Hq.
  destruct ((r <? depth)%nat && (c =? bucket r k)%nat) eqn:Eb.
  - apply andb_true_iff in Eb. destruct Eb as [Er Ec]. apply Nat.ltb_lt in Er. apply Nat.eqb_eq in Ec. subst c.
    pose proof (query_le_cell s k r Er). pose proof (HR r (bucket r k)).
    destruct (query s k =? cap) eqn:E; [lia|].
    cbn [cms]. apply Nat.ltb_lt in Er. rewrite Er, Nat.eqb_refl. cbn [andb].
    destruct (cms s r (bucket r k) <? query s k + Z.min v (cap - query s k)) eqn:?; lia.
  - destruct (query s k =? cap); [reflexivity|]. cbn [cms]. rewrite Eb. reflexivity.
Qed.

Lemma add_linear_nadded s k v :
  n_added (add_linear s k v) = n_added s + (if query s k =? cap then 0 else Z.min v (cap - query s k)).
Proof. unfold CmsLinear.add_linear. destruct (query s k =? cap); cbn [n_added]; lia. Qed.

Lemma add_linear_nrecords s k v : n_records (add_linear s k v) = n_records s.
Proof. unfold CmsLinear.add_linear. destruct (query s k =? cap); reflexivity. Qed.

Lemma Rng_add_linear s k v : Rng s -> Rng (add_linear s k v).
Proof.
  intros HR r c. pose proof (HR r c). pose proof (query_le_cap s k). pose proof (query_nonneg s k HR).
  unfold CmsLinear.add_linear. destruct (query s k =? cap) eqn:E; [assumption|].
  cbn [cms]. destruct (_ && _ && _) eqn:Eb; [|assumption].
  apply andb_true_iff in Eb. destruct Eb as [_ Eb]. lia.
Qed.

Lemma Rng_cls_add s k v : Rng s -> Rng (cls_add s k v).
Proof. apply Rng_add_linear. Qed.

Lemma merge_cell_min a b : 0 <= a <= cap -> 0 <= b -> merge_cell a b = Z.min (a + b) cap.
Proof. intros. unfold merge_cell. destruct (b >? cap - a) eqn:?; lia. Qed.

Lemma Rng_merge a b : Rng a -> Rng b -> Rng (merge a b).
Proof.
  intros Ha Hb r c. cbn [merge cms]. pose proof (Ha r c). pose proof (Hb r c).
  rewrite merge_cell_min by lia. lia.
Qed.

(* save/load is the identity on the real cells and zero elsewhere *)
Lemma of_rows_tabulate t r c :
  of_rows (tabulate width depth t) r c = if (r <? depth)%nat && (c <? width)%nat then t r c else 0.
Proof.
  unfold of_rows, tabulate.
  destruct (r <? depth)%nat eqn:Er; cbn [andb].
  - apply Nat.ltb_lt in Er.
    rewrite (nth_indep _ [] (map (fun c => t 0%nat c) (seq 0 width)))
      by (rewrite map_length, seq_length; exact Er).
    rewrite (map_nth (fun r => map (fun c => t r c) (seq 0 width)) (seq 0 depth) 0%nat r).
    rewrite seq_nth by exact Er. cbn [Nat.add].
    destruct (c <? width)%nat eqn:Ec.
    + apply Nat.ltb_lt in Ec.
      rewrite (nth_indep _ 0 (t r 0%nat)) by (rewrite map_length, seq_length; exact Ec).
      rewrite (map_nth (fun c => t r c) (seq 0 width) 0%nat c). rewrite seq_nth by exact Ec. reflexivity.
    + apply Nat.ltb_ge in Ec. apply nth_overflow. rewrite map_length, seq_length. exact Ec.
  - apply Nat.ltb_ge in Er. rewrite (nth_overflow _ []) by (rewrite map_length, seq_length; exact Er).
    destruct c; reflexivity.
Qed.

Lemma saveload_cell s r c :
  cms (saveload s) r c = if (r <? depth)%nat && (c <? width)%nat then cms s r c else 0.
Proof. apply of_rows_tabulate. Qed.

Lemma Rng_saveload s : Rng s -> Rng (saveload s).
Proof.
  intros H r c. rewrite saveload_cell. destruct (_ && _); [apply H|]. pose proof cap_pos. lia.
Qed.

Lemma saveload_query s k : query (saveload s) k = query s k.
Proof.
  unfold CmsLinear.query. apply qrows_ext. intros r Hr. apply in_seq in Hr.
  rewrite saveload_cell.
  assert ((r <? depth)%nat = true) as -> by (apply Nat.ltb_lt; lia).
  assert ((bucket r k <? width)%nat = true) as -> by (apply Nat.ltb_lt; apply bucket_lt).
  reflexivity.
Qed.

Theorem Rng_eval h : Rng (eval h).
Proof.
  induction h as [|h IH k v|h1 IH1 h2 IH2|h IH]; cbn [CmsLinear.eval].
  - apply Rng_empty.
  - apply Rng_cls_add. exact IH.
  - apply Rng_merge; assumption.
  - apply Rng_saveload. exact IH.
Qed.

(* ---------- C05 (linear): one add ---------- *)
Lemma query_add_linear_self s k v : Rng s -> 0 <= v ->
  query (add_linear s k v) k = Z.min (query s k + v) cap.
Proof.
  intros HR Hv. pose proof (query_le_cap s k) as Hq. pose proof (query_nonneg s k HR) as Hq0.
  set (nw := Z.min (query s k + v) cap).
  unfold CmsLinear.query at 1.
  replace cap with (Z.max cap nw) at 1 by lia.
  rewrite (qrows_max (cms s) (cms (add_linear s k v)) k nw).
  - fold (query s k). lia.
  - intros r Hr. apply in_seq in Hr. rewrite add_linear_cell' by assumption.
    assert ((r <? depth)%nat = true) as -> by (apply Nat.ltb_lt; lia).
    rewrite Nat.eqb_refl. reflexivity.
Qed.

Theorem C05_lin_self s k v : Rng s -> 0 <= v ->
  query (cls_add s k v) k = Z.min (query s k + Z.min v cap) cap.
Proof. intros. unfold CmsLinear.cls_add. apply query_add_linear_self; [assumption|pose proof cap_pos; lia]. Qed.

Lemma add_linear_cell_ge s k v r c : Rng s -> 0 <= v -> cms s r c <= cms (add_linear s k v) r c.
Proof. intros HR Hv. rewrite add_linear_cell' by assumption. destruct (_ && _); lia. Qed.

Theorem C05_lin_mono s k v j : Rng s -> 0 <= v -> query s j <= query (cls_add s k v) j.
Proof.
  intros HR Hv. unfold CmsLinear.query. apply qrows_mono; [lia|]. intros r _.
  apply add_linear_cell_ge; [assumption|pose proof cap_pos; lia].
Qed.

Theorem C05_lin_bound s k v j : Rng s -> 0 <= v ->
  query (cls_add s k v) j <= Z.max (query s j) (query (cls_add s k v) k).
Proof.
  intros HR Hv. rewrite C05_lin_self by assumption.
  set (nw := Z.min (query s k + Z.min v cap) cap).
  pose proof cap_pos. pose proof (query_le_cap s k).
  unfold CmsLinear.query at 1. replace cap with (Z.max cap nw) at 1 by lia.
  eapply Z.le_trans; [apply (qrows_le_max (cms s))|fold (query s j); lia].
  intros r _. unfold CmsLinear.cls_add. rewrite add_linear_cell' by (try assumption; lia).
  fold nw. destruct (_ && _); lia.
Qed.

Theorem C05_lin_one_per_row s k v r c :
  c <> bucket r k -> cms (cls_add s k v) r c = cms s r c.
Proof.
  intros Hc. unfold CmsLinear.cls_add, CmsLinear.add_linear. destruct (query s k =? cap); [reflexivity|].
  cbn [cms]. assert ((c =? bucket r k)%nat = false) as -> by (apply Nat.eqb_neq; exact Hc).
  rewrite andb_false_r. reflexivity.
Qed.

Theorem C05_lin_nadded s k v : Rng s -> 0 <= v ->
  n_added (cls_add s k v) = n_added s + Z.min v (cap - query s k).
Proof.
  intros HR Hv. unfold CmsLinear.cls_add. rewrite add_linear_nadded.
  pose proof (query_le_cap s k). pose proof (query_nonneg s k HR).
  destruct (query s k =? cap) eqn:?; lia.
Qed.

Corollary C05_lin_nadded_uncut s k v : Rng s -> 0 <= v -> query s k + v <= cap ->
  n_added (cls_add s k v) = n_added s + v.
Proof. intros. rewrite C05_lin_nadded by assumption. lia. Qed.

(* ---------- C01: lower and upper bound on every history ---------- *)
Definition LB (s : sk) (T : key -> Z) : Prop :=
  forall k r, (r < depth)%nat -> Z.min (T k) cap <= cms s r (bucket r k).
Definition UB (s : sk) (M : nat -> nat -> Z) : Prop :=
  forall r c, (r < depth)%nat -> cms s r c <= Z.min cap (M r c).

Lemma LB_query s T k : LB s T -> Z.min (T k) cap <= query s k.
Proof. intros H. unfold CmsLinear.query. apply qrows_ge; [lia|]. intros r Hr. apply in_seq in Hr. apply H. lia. Qed.

Lemma UB_query s M k r : UB s M -> (r < depth)%nat -> query s k <= Z.min cap (M r (bucket r k)).
Proof. intros H Hr. eapply Z.le_trans; [apply query_le_cell; exact Hr|apply H; exact Hr]. Qed.

Lemma truth_nonneg h k : wf h -> 0 <= truth h k.
Proof.
  induction h as [|h IH j v|h1 IH1 h2 IH2|h IH]; cbn [wf truth]; intros H.
  - lia.
  - destruct H as [H Hv]. specialize (IH H). destruct (keqb k j); lia.
  - destruct H as [H1 H2]. specialize (IH1 H1). specialize (IH2 H2). lia.
  - apply IH. exact H.
Qed.

Lemma mass_nonneg h r c : wf h -> 0 <= mass h r c.
Proof.
  induction h as [|h IH j v|h1 IH1 h2 IH2|h IH]; cbn [wf CmsLinear.mass]; intros H.
  - lia.
  - destruct H as [H Hv]. specialize (IH H). destruct (_ =? _)%nat; lia.
  - destruct H as [H1 H2]. specialize (IH1 H1). specialize (IH2 H2). lia.
  - apply IH. exact H.
Qed.

Lemma LB_cls_add s T k v : Rng s -> 0 <= v -> (forall j, 0 <= T j) -> LB s T ->
  LB (cls_add s k v) (fun j => T j + (if keqb j k then v else 0)).
Proof.
  intros HR Hv HT H j r Hr. unfold CmsLinear.cls_add.
  pose proof cap_pos. rewrite add_linear_cell' by (try assumption; lia).
  assert ((r <? depth)%nat = true) as -> by (apply Nat.ltb_lt; lia). cbn [andb].
  pose proof (LB_query s T k H) as Hq. pose proof (H j r Hr) as Hj. pose proof (HT j). pose proof (HT k).
  destruct (keqb_spec j k) as [->|Hne].
  - rewrite Nat.eqb_refl. lia.
  - destruct (_ =? _)%nat; lia.
Qed.

Lemma UB_cls_add s M k v : Rng s -> 0 <= v -> UB s M ->
  UB (cls_add s k v) (fun r c => M r c + (if (bucket r k =? c)%nat then v else 0)).
Proof.
  intros HR Hv H r c Hr. unfold CmsLinear.cls_add.
  pose proof cap_pos. rewrite add_linear_cell' by (try assumption; lia).
  assert ((r <? depth)%nat = true) as -> by (apply Nat.ltb_lt; lia). cbn [andb].
  pose proof (H r c Hr) as Hc. pose proof (HR r c).
  destruct (c =? bucket r k)%nat eqn:E.
  - apply Nat.eqb_eq in E. subst c. rewrite Nat.eqb_refl.
    pose proof (query_le_cell s k r Hr). lia.
  - assert ((bucket r k =? c)%nat = false) as -> by (apply Nat.eqb_neq; apply Nat.eqb_neq in E; congruence). lia.
Qed.

Lemma LB_merge a b Ta Tb : Rng a -> Rng b -> (forall j, 0 <= Ta j) -> (forall j, 0 <= Tb j) ->
  LB a Ta -> LB b Tb -> LB (merge a b) (fun j => Ta j + Tb j).
Proof.
  intros Ra Rb Pa Pb Ha Hb j r Hr. cbn [merge cms].
  pose proof (Ra r (bucket r j)). pose proof (Rb r (bucket r j)).
  rewrite merge_cell_min by lia.
  specialize (Ha j r Hr). specialize (Hb j r Hr). specialize (Pa j). specialize (Pb j). pose proof cap_pos. lia.
Qed.

Lemma UB_merge a b Ma Mb : Rng a -> Rng b -> UB a Ma -> UB b Mb ->
  UB (merge a b) (fun r c => Ma r c + Mb r c).
Proof.
  intros Ra Rb Ha Hb r c Hr. cbn [merge cms].
  pose proof (Ra r c). pose proof (Rb r c). rewrite merge_cell_min by lia.
  specialize (Ha r c Hr). specialize (Hb r c Hr). lia.
Qed.

Lemma LB_saveload s T : LB s T -> LB (saveload s) T.
Proof.
  intros H k r Hr. rewrite saveload_cell.
  assert ((r <? depth)%nat = true) as -> by (apply Nat.ltb_lt; lia).
  assert ((bucket r k <? width)%nat = true) as -> by (apply Nat.ltb_lt; apply bucket_lt).
  apply H. exact Hr.
Qed.

Lemma UB_saveload s M : Rng s -> (forall r c, 0 <= M r c) -> UB s M -> UB (saveload s) M.
Proof.
  intros HR HM H r c Hr. rewrite saveload_cell. destruct (_ && _); [apply H; exact Hr|].
  pose proof cap_pos. specialize (HM r c). lia.
Qed.

Lemma LB_eval h : wf h -> LB (eval h) (truth h).
Proof.
  induction h as [|h IH k v|h1 IH1 h2 IH2|h IH]; cbn [wf CmsLinear.eval truth]; intros H.
  - intros k r _. cbn. pose proof cap_pos. lia.
  - destruct H as [H Hv]. intros j. apply (LB_cls_add (eval h) (truth h) k v); auto using Rng_eval.
    intros; apply truth_nonneg; assumption.
  - destruct H as [H1 H2]. apply (LB_merge (eval h1) (eval h2) (truth h1) (truth h2)); auto using Rng_eval;
    intros; apply truth_nonneg; assumption.
  - apply LB_saveload. apply IH. exact H.
Qed.

Lemma UB_eval h : wf h -> UB (eval h) (mass h).
Proof.
  induction h as [|h IH k v|h1 IH1 h2 IH2|h IH]; cbn [wf CmsLinear.eval CmsLinear.mass]; intros H.
  - intros r c _. cbn. pose proof cap_pos. lia.
  - destruct H as [H Hv]. apply (UB_cls_add (eval h) (mass h) k v); auto using Rng_eval.
  - destruct H as [H1 H2]. apply (UB_merge (eval h1) (eval h2) (mass h1) (mass h2)); auto using Rng_eval.
  - apply UB_saveload; [apply Rng_eval| |apply IH; exact H]. intros. apply mass_nonneg. exact H.
Qed.

Theorem C01_lower h k : wf h -> Z.min (truth h k) cap <= query (eval h) k.
Proof. intros H. apply LB_query. apply LB_eval. exact H. Qed.

Theorem C01_upper h k r : wf h -> (r < depth)%nat ->
  query (eval h) k <= Z.min cap (mass h r (bucket r k)).
Proof. intros H Hr. apply UB_query; [apply UB_eval; exact H|exact Hr]. Qed.

(* a key that is collision-free in row r: its row mass is its own true count *)
Lemma mass_alone h k r : wf h ->
  (forall j, bucket r j = bucket r k -> j <> k -> truth h j = 0) ->
  mass h r (bucket r k) = truth h k.
Proof.
  induction h as [|h IH j v|h1 IH1 h2 IH2|h IH]; cbn [wf CmsLinear.mass truth]; intros H Hal.
  - reflexivity.
  - destruct H as [H Hv].
    assert (forall j0, bucket r j0 = bucket r k -> j0 <> k -> truth h j0 = 0 /\ (if keqb j0 j then v else 0) = 0) as Hal'.
    { intros j0 Hb Hne. specialize (Hal j0 Hb Hne). pose proof (truth_nonneg h j0 H).
      destruct (keqb j0 j); lia. }
    rewrite IH by (try assumption; intros j0 Hb Hne; apply (Hal' j0 Hb Hne)).
    f_equal. destruct (keqb_spec k j) as [->|Hne].
    + rewrite Nat.eqb_refl. reflexivity.
    + destruct (bucket r j =? bucket r k)%nat eqn:E; [|reflexivity].
      apply Nat.eqb_eq in E. destruct (Hal' j E ltac:(congruence)) as [_ Hz].
      destruct (keqb_spec j j); [exact Hz|congruence].
  - destruct H as [H1 H2].
    assert (forall j, bucket r j = bucket r k -> j <> k -> truth h1 j = 0 /\ truth h2 j = 0) as Hal'.
    { intros j Hb Hne. specialize (Hal j Hb Hne). pose proof (truth_nonneg h1 j H1). pose proof (truth_nonneg h2 j H2). lia. }
    rewrite IH1, IH2; try assumption; try reflexivity; intros j Hb Hne; apply (Hal' j Hb Hne).
  - apply IH; assumption.
Qed.

Theorem C01_exact h k r : wf h -> (r < depth)%nat ->
  (forall j, bucket r j = bucket r k -> j <> k -> truth h j = 0) ->
  query (eval h) k = Z.min (truth h k) cap.
Proof.
  intros H Hr Hal. pose proof (C01_lower h k H). pose proof (C01_upper h k r H Hr).
  rewrite (mass_alone h k r H Hal) in *. lia.
Qed.

(* ---------- the API-level entry points desugar to adds (C12, and C01's quantifier) ---------- *)
Lemma cls_add_1 s k : cls_add s k 1 = add_linear s k 1.
Proof. reflexivity. Qed.

Lemma eval_adds1 h ws :
  eval (adds1 h ws) = fold_left (fun s w => add_linear s w 1) ws (eval h).
Proof.
  revert h. induction ws as [|w ws IH]; intros h; [reflexivity|].
  unfold adds1 in *. cbn [fold_left]. rewrite IH. reflexivity.
Qed.

Theorem aeval_desugar h : aeval h = eval (desugar h).
Proof.
  induction h as [|h IH k v|h IH ks|h IH kvs|h IH k n|h IH ks n|h1 IH1 h2 IH2|h IH];
    cbn [CmsLinear.aeval desugar CmsLinear.eval]; try (rewrite ?IH, ?IH1, ?IH2; reflexivity).
  - rewrite IH. unfold update_list. rewrite eval_adds1. reflexivity.
  - rewrite IH. unfold update_dict. generalize (desugar h). induction kvs as [|kv kvs IHk]; intros g; [reflexivity|].
    cbn [fold_left]. rewrite <- IHk. reflexivity.
  - rewrite IH. unfold add_ngram. rewrite eval_adds1. reflexivity.
  - rewrite IH. unfold update_ngram. generalize (desugar h). induction ks as [|k ks IHk]; intros g; [reflexivity|].
    cbn [fold_left]. rewrite <- IHk. unfold add_ngram. rewrite eval_adds1. reflexivity.
Qed.

Fixpoint awf (h : ahist) : Prop :=
  match h with
  | AEmpty => True
  | AAdd h _ v => awf h /\ 0 <= v
  | AUpdateList h _ => awf h
  | AUpdateDict h kvs => awf h /\ Forall (fun kv => 0 <= snd kv) kvs
  | ANgram h _ _ => awf h
  | AUpdateNgram h _ _ => awf h
  | AMerge h1 h2 => awf h1 /\ awf h2
  | ASaveLoad h => awf h
  end.

Lemma wf_adds1 h ws : wf h -> wf (adds1 h ws).
Proof.
  revert h. induction ws as [|w ws IH]; intros h H; [exact H|].
  unfold adds1 in *. cbn [fold_left]. apply IH. cbn [wf]. split; [exact H|lia].
Qed.

Lemma wf_desugar h : awf h -> wf (desugar h).
Proof.
  induction h as [|h IH k v|h IH ks|h IH kvs|h IH k n|h IH ks n|h1 IH1 h2 IH2|h IH]; cbn [awf desugar wf]; intros H.
  - exact I.
  - destruct H; split; auto.
  - apply wf_adds1. auto.
  - destruct H as [H Hk]. specialize (IH H). revert IH. generalize (desugar h).
    induction Hk as [|kv kvs Hkv Hk IHk]; intros g Hg; [exact Hg|].
    cbn [fold_left]. apply IHk. cbn [wf]. split; assumption.
  - apply wf_adds1. auto.
  - specialize (IH H). revert IH. generalize (desugar h). induction ks as [|k ks IHk]; intros g Hg; [exact Hg|].
    cbn [fold_left]. apply IHk. apply wf_adds1. exact Hg.
  - destruct H; split; auto.
  - auto.
Qed.

Theorem C01_api_lower h k : awf h -> Z.min (truth (desugar h) k) cap <= query (aeval h) k.
Proof. intros H. rewrite aeval_desugar. apply C01_lower. apply wf_desugar. exact H. Qed.

Theorem C01_api_upper h k r : awf h -> (r < depth)%nat ->
  query (aeval h) k <= Z.min cap (mass (desugar h) r (bucket r k)).
Proof. intros H Hr. rewrite aeval_desugar. apply C01_upper; [apply wf_desugar; exact H|exact Hr]. Qed.

Theorem C01_api_exact h k r : awf h -> (r < depth)%nat ->
  (forall j, bucket r j = bucket r k -> j <> k -> truth (desugar h) j = 0) ->
  query (aeval h) k = Z.min (truth (desugar h) k) cap.
Proof. intros H Hr Hal. rewrite aeval_desugar. apply C01_exact with (r := r); [apply wf_desugar; exact H|exact Hr|exact Hal]. Qed.

(* ---------- C09 (linear): merge ---------- *)
Theorem C09_lin_cell a b r c : Rng a -> Rng b ->
  cms (merge a b) r c = Z.min (cms a r c + cms b r c) cap.
Proof. intros Ha Hb. cbn [merge cms]. pose proof (Ha r c). pose proof (Hb r c). apply merge_cell_min; lia. Qed.

Theorem C09_lin_counters a b :
  n_added (merge a b) = n_added a + n_added b /\ n_records (merge a b) = n_records a + n_records b.
Proof. split; reflexivity. Qed.

Theorem C09_lin_comm a b r c : Rng a -> Rng b -> cms (merge a b) r c = cms (merge b a) r c.
Proof. intros Ha Hb. rewrite !C09_lin_cell by assumption. f_equal. lia. Qed.

Theorem C09_lin_empty a r c : Rng a -> cms (merge a empty) r c = cms a r c.
Proof. intros Ha. rewrite C09_lin_cell by (try assumption; apply Rng_empty). cbn [empty cms]. pose proof (Ha r c). lia. Qed.

Theorem C09_lin_ge a b r c : Rng a -> Rng b ->
  Z.max (cms a r c) (cms b r c) <= cms (merge a b) r c.
Proof. intros Ha Hb. rewrite C09_lin_cell by assumption. pose proof (Ha r c). pose proof (Hb r c). lia. Qed.

Theorem C09_lin_est a b k : Rng a -> Rng b ->
  Z.min (query a k + query b k) cap <= query (merge a b) k.
Proof.
  intros Ha Hb. unfold CmsLinear.query at 3. apply qrows_ge; [lia|].
  intros r Hr. apply in_seq in Hr. rewrite C09_lin_cell by assumption.
  pose proof (query_le_cell a k r ltac:(lia)). pose proof (query_le_cell b k r ltac:(lia)). lia.
Qed.

(* ---------- C18 (linear): sticky ceiling, monotone ---------- *)
Theorem C18_lin_mono_merge a b k : Rng a -> Rng b -> query a k <= query (merge a b) k.
Proof.
  intros Ha Hb. unfold CmsLinear.query. apply qrows_mono; [lia|]. intros r _.
  pose proof (C09_lin_ge a b r (bucket r k) Ha Hb). lia.
Qed.

Theorem C18_lin_sticky_add s k j v : Rng s -> 0 <= v -> query s k = cap -> query (cls_add s j v) k = cap.
Proof. intros HR Hv Hq. pose proof (C05_lin_mono s j v k HR Hv). pose proof (query_le_cap (cls_add s j v) k). lia. Qed.

Theorem C18_lin_sticky_merge a b k : Rng a -> Rng b -> query a k = cap -> query (merge a b) k = cap.
Proof. intros Ha Hb Hq. pose proof (C18_lin_mono_merge a b k Ha Hb). pose proof (query_le_cap (merge a b) k). lia. Qed.

Theorem C18_lin_sticky_merge_r a b k : Rng a -> Rng b -> query b k = cap -> query (merge a b) k = cap.
Proof.
  intros Ha Hb Hq. pose proof (query_le_cap (merge a b) k).
  assert (cap <= query (merge a b) k); [|lia].
  unfold CmsLinear.query at 1. apply qrows_ge; [lia|]. intros r Hr. apply in_seq in Hr.
  pose proof (query_le_cell b k r ltac:(lia)). pose proof (C09_lin_ge a b r (bucket r k) Ha Hb). lia.
Qed.

(* ---------- C12 (linear): multiplicity = repeated unit adds ---------- *)
Definition sk_eq (a b : sk) : Prop :=
  (forall r c, cms a r c = cms b r c) /\ n_added a = n_added b /\ n_records a = n_records b.

Lemma query_ext a b k : (forall r c, cms a r c = cms b r c) -> query a k = query b k.
Proof. intros H. unfold CmsLinear.query. apply qrows_ext. intros. apply H. Qed.

Definition iter_add (s : sk) (k : key) (n : nat) : sk := Nat.iter n (fun s => cls_add s k 1) s.

Lemma Rng_iter s k n : Rng s -> Rng (iter_add s k n).
Proof. intros H. induction n as [|n IH]; [exact H|]. cbn [iter_add Nat.iter]. apply Rng_cls_add. exact IH. Qed.

Lemma iter_add_char s k n : Rng s ->
  let nw := Z.min (query s k + Z.of_nat n) cap in
  (forall r c, cms (iter_add s k n) r c =
     if (r <? depth)%nat && (c =? bucket r k)%nat then Z.max (cms s r c) nw else cms s r c)
  /\ n_added (iter_add s k n) = n_added s + (nw - query s k)
  /\ n_records (iter_add s k n) = n_records s
  /\ query (iter_add s k n) k = nw.
Proof.
  intros HR. pose proof (query_le_cap s k) as Hq. pose proof cap_pos as Hc.
  induction n as [|n IH]; cbn zeta.
  - change (iter_add s k 0) with s. cbn [Z.of_nat]. rewrite Z.add_0_r. repeat split; try lia.
    intros r c. destruct ((r <? depth)%nat && (c =? bucket r k)%nat) eqn:Eb; [|reflexivity].
    apply andb_true_iff in Eb. destruct Eb as [Er Ec]. apply Nat.ltb_lt in Er. apply Nat.eqb_eq in Ec. subst c.
    pose proof (query_le_cell s k r Er). lia.
  - cbn zeta in IH. destruct IH as (IHc & IHa & IHr & IHq).
    change (iter_add s k (S n)) with (cls_add (iter_add s k n) k 1).
    pose proof (Rng_iter s k n HR) as HRn.
    repeat split.
    + intros r c. unfold CmsLinear.cls_add. rewrite add_linear_cell' by (try assumption; lia).
      rewrite IHq, IHc. replace (Z.min 1 cap) with 1 by lia.
      destruct ((r <? depth)%nat && (c =? bucket r k)%nat); lia.
    + rewrite C05_lin_nadded by (try assumption; lia). rewrite IHa, IHq. lia.
    + unfold CmsLinear.cls_add. rewrite add_linear_nrecords. exact IHr.
    + rewrite C05_lin_self by (try assumption; lia). rewrite IHq. lia.
Qed.

Theorem C12_lin_mult s k v : Rng s -> 0 <= v -> sk_eq (cls_add s k v) (iter_add s k (Z.to_nat v)).
Proof.
  intros HR Hv. destruct (iter_add_char s k (Z.to_nat v) HR) as (Hc & Ha & Hr & _).
  rewrite Z2Nat.id in * by assumption.
  pose proof (query_le_cap s k). pose proof cap_pos. pose proof (query_nonneg s k HR).
  repeat split.
  - intros r c. rewrite Hc. unfold CmsLinear.cls_add. rewrite add_linear_cell' by (try assumption; lia).
    destruct (_ && _); lia.
  - rewrite Ha, C05_lin_nadded by assumption. lia.
  - rewrite Hr. unfold CmsLinear.cls_add. apply add_linear_nrecords.
Qed.

Theorem C12_lin_update_list s ks : update_list depth bucket s ks = fold_left (fun s k => cls_add s k 1) ks s.
Proof. reflexivity. Qed.

Theorem C12_lin_update_dict s kvs :
  update_dict depth bucket s kvs = fold_left (fun s kv => cls_add s (fst kv) (snd kv)) kvs s.
Proof. reflexivity. Qed.

Theorem C12_lin_ngram s k n : 1 <= n < 2^64 -> zlen k < 2^64 ->
  add_ngram depth bucket s k n = fold_left (fun s w => cls_add s w 1) (windows (Z.to_nat n) k) s.
Proof. intros Hn Hk. unfold add_ngram. rewrite ngram_windows_spec by assumption. reflexivity. Qed.

Theorem C12_lin_update_ngram s ks n :
  update_ngram depth bucket s ks n = fold_left (fun s k => add_ngram depth bucket s k n) ks s.
Proof. reflexivity. Qed.

End Proofs.
