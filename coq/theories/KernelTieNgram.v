(* KernelTieNgram.v — the n-gram drivers, generic part (no generated definitions here; the five instances are
   KernelTieNgram{Linear,Log16,Log8,Hll,HH}.v, one file per driver so that an edit of one driver breaks one file).

   generated/KernelsNgram.v (harness/pytrans_ngram.py) contains, for each driver, the pieces
     key_len  : len(key) -> key_len           `key_len = uint64(len(key))`
     whole    : key_len ngram -> bool         the test of the `if`
     count    : key_len ngram -> Z            the argument of range(...)
     lo, hi   : i ngram -> Z                  the bounds of the slice key[lo : hi]
   and the translator has checked (fail-closed) the shape
     if whole: kernel(args, key, mult) else: for i in range(count): kernel(args, key[lo : hi], mult)
   with the same kernel, the same pass-through arguments and the same multiplicity in both branches.
   driver_windows below is that shape, hand-written once: the list of keys the single-add kernel is called with.
   driver_windows_model: if the pieces satisfy driver_ok, it is the model's Ngram.ngram_windows for EVERY
   0 <= ngram < 2^64 (ngram = 0 included: `ngram - uint64(1)` wraps to 2^64-1, the bound to key_len + 1, and both the
   source and the model add key_len + 1 empty windows) and every key shorter than 2^63 bytes (Py_ssize_t; it is also what
   keeps the uint64 slice bounds non-negative as intp).
   driver_ok pins the pieces to the model's expressions except at key_len = ngram, where the test may go either way:
   the loop then runs once over key[0 : ngram], which is the whole key. *)
From Coq Require Import ZArith List Lia Bool Arith ZifyBool.
From Sketchnu Require Import Machine BitLemmas Ngram NgramProofs.
Import ListNotations.
Open Scope Z_scope.

(* Python's key[lo : hi] for non-negative bounds: bounds past the end are clamped, lo >= hi gives b"" *)
Definition py_slice (k : key) (lo hi : Z) : key := skipn (Z.to_nat lo) (firstn (Z.to_nat hi) k).

Definition mult_value (o : option Z) : Z := match o with Some v => v | None => 0 end.

Section Driver.
Variable klf : Z -> Z.
Variable whole : Z -> Z -> bool.
Variables count lo hi : Z -> Z -> Z.

(* the keys handed to the single-add kernel, in order *)
Definition driver_windows (k : key) (n : Z) : list key :=
  let key_len := klf (zlen k) in
  if whole key_len n then [k]
  else map (fun i => py_slice k (lo (Z.of_nat i) n) (hi (Z.of_nat i) n))
           (seq 0 (Z.to_nat (count key_len n))).

Definition driver_ok : Prop :=
  (forall l, klf l = wrap64 l) /\
  (forall kl n, 0 <= kl < 2^64 -> 0 <= n < 2^64 ->
     (kl < n -> whole kl n = true) /\ (n < kl -> whole kl n = false)) /\
  (forall kl n, 0 <= kl < 2^64 -> 0 <= n < 2^64 -> n <= kl -> count kl n = wrap64 (kl - wrap64 (n - 1))) /\
  (forall i n, 0 <= i -> 0 <= n -> i + n < 2^64 -> lo i n = i /\ hi i n = i + n).

Lemma count_value kl n : 0 <= n -> n <= kl -> kl < 2^63 -> wrap64 (kl - wrap64 (n - 1)) = kl - n + 1.
Proof.
  intros Hn Hle Hk. assert (2^63 = 9223372036854775808) as E63 by reflexivity. rewrite E63 in Hk.
  destruct (Z.eq_dec n 0) as [->|Hnz].
  - change (wrap64 (0 - 1)) with 18446744073709551615.
    rewrite wrap64_mod. change (2^64) with 18446744073709551616.
    replace (kl - 18446744073709551615) with (kl + 1 + (-1) * 18446744073709551616) by lia.
    rewrite Z_mod_plus_full. rewrite Z.mod_small; lia.
  - assert (2^64 = 18446744073709551616) as E64 by reflexivity.
    rewrite (wrap64_small (n - 1)) by lia. rewrite wrap64_small; lia.
Qed.

Lemma py_slice_slice (k : key) (i n : nat) : py_slice k (Z.of_nat i) (Z.of_nat i + Z.of_nat n) = slice k i n.
Proof.
  unfold py_slice, slice. rewrite Nat2Z.id. replace (Z.to_nat (Z.of_nat i + Z.of_nat n)) with (i + n)%nat by lia.
  symmetry. apply firstn_skipn_comm.
Qed.

Theorem driver_windows_model : driver_ok ->
  forall (k : key) (n : Z), 0 <= n < 2^64 -> zlen k < 2^63 -> driver_windows k n = ngram_windows k n.
Proof.
  intros (Hkl & Hw & Hc & Hs) k n Hn Hk.
  assert (2^63 = 9223372036854775808) as E63 by reflexivity.
  assert (2^64 = 18446744073709551616) as E64 by reflexivity.
  assert (0 <= zlen k) as H0 by (unfold zlen; lia).
  unfold driver_windows, ngram_windows. cbv zeta. rewrite Hkl.
  rewrite (wrap64_small (zlen k)) by lia.
  assert (forall c : nat, (c <= S (length k - Z.to_nat n))%nat -> n <= zlen k ->
            map (fun i => py_slice k (lo (Z.of_nat i) n) (hi (Z.of_nat i) n)) (seq 0 c) =
            map (fun i => slice k i (Z.to_nat n)) (seq 0 c)) as Hmap.
  { intros c Hcnt Hle. apply map_ext_in. intros i Hi. apply in_seq in Hi.
    destruct (Hs (Z.of_nat i) n) as [El Eh]; [lia | lia | unfold zlen in *; lia |]. rewrite El, Eh.
    rewrite <- (py_slice_slice k i (Z.to_nat n)). rewrite Z2Nat.id by lia. reflexivity. }
  destruct (Z.lt_trichotomy (zlen k) n) as [Hlt | [Heq | Hgt]].
  - destruct (Hw (zlen k) n ltac:(lia) ltac:(lia)) as [Ht _]. rewrite Ht by lia.
    assert ((zlen k <=? n) = true) as -> by lia. reflexivity.
  - assert ((zlen k <=? n) = true) as -> by lia.
    destruct (whole (zlen k) n); [reflexivity|].
    rewrite Hc by lia. rewrite count_value by lia.
    replace (Z.to_nat (zlen k - n + 1)) with 1%nat by lia.
    rewrite Hmap by (unfold zlen in *; lia). cbn [seq map]. unfold slice. cbn [skipn].
    rewrite firstn_all2 by (unfold zlen in *; lia). reflexivity.
  - destruct (Hw (zlen k) n ltac:(lia) ltac:(lia)) as [_ Hf]. rewrite Hf by lia.
    assert ((zlen k <=? n) = false) as -> by lia.
    rewrite Hc by lia. rewrite count_value by lia.
    apply Hmap; unfold zlen in *; lia.
Qed.

Corollary driver_windows_spec : driver_ok ->
  forall (k : key) (n : Z), 1 <= n < 2^64 -> zlen k < 2^63 -> driver_windows k n = windows (Z.to_nat n) k.
Proof.
  intros Hok k n Hn Hk. rewrite (driver_windows_model Hok) by lia.
  apply ngram_windows_spec; [lia|]. assert (2^63 < 2^64) by reflexivity. lia.
Qed.
End Driver.

(* the proof every instance uses: unfold the generated definitions, wraps as mod, linear arithmetic *)
Ltac Zify.zify_post_hook ::= Z.to_euclidean_division_equations.
Ltac driver_ok_tac :=
  unfold driver_ok; cbv zeta;
  assert (2^64 = 18446744073709551616) as E64 by reflexivity;
  repeat split; intros;
  rewrite ?wrap64_mod, ?wrap32_mod, ?wrap16_mod, ?wrap8_mod; rewrite ?E64 in *;
  change (2^32) with 4294967296; change (2^16) with 65536; change (2^8) with 256;
  lia.
