(* HHRunnerProofs.v — the heavy-hitter correspondence runner tabulates (hh_freeze) the table of a register after every
   mutating operation so that closure chains stay short.  Here: the tabulation is invisible to everything the runner
   observes and to every read the model's operations perform, provided columns are below width — so the runner's
   verdicts are verdicts about the un-tabulated model the theorems speak of. *)
From Coq Require Import ZArith List Lia Bool ZifyBool Arith Uint63.
From Sketchnu Require Import Machine BitLemmas Consts Ngram HH HHProofs.
Import ListNotations.
Open Scope Z_scope.

Section HHRunnerProofs.
Variable width depth max_key_len : nat.
Variable bucket : nat -> key -> nat.
Hypothesis bucket_lt : forall r k, (bucket r k < width)%nat.

Local Notation fr := (hh_freeze width depth max_key_len).

(* the fields other than the table are untouched *)
Lemma freeze_fields s :
  n_added (fr s) = n_added s /\ n_records (fr s) = n_records s /\ cand (fr s) = cand s /\
  n_added_sort (fr s) = n_added_sort s /\ thr_sort (fr s) = thr_sort s.
Proof. unfold hh_freeze. cbn. repeat split. Qed.

(* the table code the runner compares with the implementation's arrays *)
Lemma tab_code_freeze s :
  tab_code width depth max_key_len (tab (fr s)) = tab_code width depth max_key_len (tab s).
Proof.
  unfold tab_code. apply fold_left_ext. intros a [r c] Hin. cbn [fst snd].
  apply in_prod_iff in Hin. destruct Hin as [Hr Hc]. apply in_seq in Hr. apply in_seq in Hc.
  rewrite (freeze_tab width depth max_key_len s r c) by lia. reflexivity.
Qed.

(* the whole per-operation observation *)
Lemma obs_ok_freeze s res e :
  obs_ok width depth max_key_len (fr s) res e = obs_ok width depth max_key_len s res e.
Proof.
  unfold obs_ok. destruct e as [[[[[[tc na] nr] cs] nas] ts] er].
  rewrite tab_code_freeze. destruct (freeze_fields s) as (-> & -> & -> & -> & ->). reflexivity.
Qed.

(* reads: hh[k] looks only at cells (row < depth, bucket row k < width) *)
Lemma max_count_freeze s k key_len :
  max_count depth max_key_len bucket (tab (fr s)) k key_len = max_count depth max_key_len bucket (tab s) k key_len.
Proof.
  unfold max_count. apply fold_left_ext. intros mc row Hin. apply in_seq in Hin.
  rewrite (freeze_tab width depth max_key_len s row (bucket row k)) by (try lia; apply bucket_lt). reflexivity.
Qed.

Lemma hh_get_freeze s k :
  hh_get depth max_key_len bucket (fr s) k = hh_get depth max_key_len bucket s k.
Proof. unfold hh_get. apply max_count_freeze. Qed.

(* candidate generation reads cells inside the bounds only *)
Lemma gen_cands_freeze s thr :
  gen_cands width depth max_key_len bucket (tab (fr s)) thr = gen_cands width depth max_key_len bucket (tab s) thr.
Proof.
  unfold gen_cands. apply fold_left_ext. intros cs [r c] Hin.
  apply in_prod_iff in Hin. destruct Hin as [Hr Hc]. apply in_seq in Hr. apply in_seq in Hc.
  unfold gen_step. cbn [fst snd]. rewrite (freeze_tab width depth max_key_len s r c) by lia.
  rewrite max_count_freeze. reflexivity.
Qed.

(* freezing twice is freezing once, inside the bounds *)
Lemma freeze_idem s r c : (r < depth)%nat -> (c < width)%nat -> tab (fr (fr s)) r c = tab (fr s) r c.
Proof. intros Hr Hc. apply freeze_tab; assumption. Qed.

(* ---- operations are congruences for "equal inside the bounds" ----
   so an operation applied to a tabulated register gives, inside the bounds, what it gives on the un-tabulated one *)
Definition teq (s s' : sketch) : Prop :=
  (forall r c, (r < depth)%nat -> (c < width)%nat -> tab s r c = tab s' r c) /\
  n_added s = n_added s' /\ n_records s = n_records s' /\ cand s = cand s' /\
  n_added_sort s = n_added_sort s' /\ thr_sort s = thr_sort s'.

Lemma teq_refl s : teq s s.
Proof. unfold teq. repeat split. Qed.
Lemma teq_trans a b c : teq a b -> teq b c -> teq a c.
Proof.
  unfold teq. intros (H1 & -> & -> & -> & -> & ->) (H2 & -> & -> & -> & -> & ->).
  repeat split. intros r c0 Hr Hc. rewrite H1, H2 by assumption. reflexivity.
Qed.
Lemma teq_freeze s : teq (fr s) s.
Proof.
  unfold teq. destruct (freeze_fields s) as (-> & -> & -> & -> & ->). repeat split.
  intros r c Hr Hc. apply freeze_tab; assumption.
Qed.

Lemma add_rows_teq (t t' : table) k' arr key_len value rows :
  (forall r, In r rows -> (r < depth)%nat) ->
  (forall r c, (r < depth)%nat -> (c < width)%nat -> t r c = t' r c) ->
  forall r c, (r < depth)%nat -> (c < width)%nat ->
  fold_left (fun t row => let col := bucket row k' in upd t row col (cell_add (t row col) arr key_len value)) rows t r c
  = fold_left (fun t row => let col := bucket row k' in upd t row col (cell_add (t row col) arr key_len value)) rows t' r c.
Proof.
  revert t t'. induction rows as [|row rows IH]; intros t t' Hrows Ht r c Hr Hc; cbn [fold_left].
  - apply Ht; assumption.
  - apply IH; try assumption.
    + intros r0 Hin. apply Hrows. right. assumption.
    + intros r0 c0 Hr0 Hc0. unfold upd. rewrite (Ht row (bucket row k')) by (try apply bucket_lt; apply Hrows; left; reflexivity).
      destruct ((r0 =? row)%nat && (c0 =? bucket row k')%nat); [reflexivity|apply Ht; assumption].
Qed.

Lemma hh_add_raw_teq s s' k v : teq s s' ->
  teq (hh_add_raw depth max_key_len bucket s k v) (hh_add_raw depth max_key_len bucket s' k v).
Proof.
  intros (Ht & Hna & Hnr & Hc & Hnas & Hts). unfold hh_add_raw.
  destruct (prep_key max_key_len k) as [[k' arr] key_len]. unfold teq. cbn [tab n_added n_records cand n_added_sort thr_sort].
  rewrite Hna, Hnr, Hc, Hnas, Hts. repeat split.
  intros r c Hr Hcw. apply add_rows_teq; try assumption. intros r0 Hin. apply in_seq in Hin. lia.
Qed.

Lemma hh_add_teq s s' k v : teq s s' ->
  teq (hh_add depth max_key_len bucket s k v) (hh_add depth max_key_len bucket s' k v).
Proof. unfold hh_add. apply hh_add_raw_teq. Qed.

Lemma fold_teq {A} (f : sketch -> A -> sketch) (l : list A) :
  (forall s s' a, teq s s' -> teq (f s a) (f s' a)) ->
  forall s s', teq s s' -> teq (fold_left f l s) (fold_left f l s').
Proof.
  intros Hf. induction l as [|a l IH]; intros s s' H; cbn [fold_left]; [assumption|].
  apply IH, Hf, H.
Qed.

Lemma hh_add_ngram_teq s s' k n : teq s s' ->
  teq (hh_add_ngram depth max_key_len bucket s k n) (hh_add_ngram depth max_key_len bucket s' k n).
Proof. unfold hh_add_ngram. apply fold_teq. intros a b w. apply hh_add_raw_teq. Qed.
Lemma hh_update_list_teq s s' ks : teq s s' ->
  teq (hh_update_list depth max_key_len bucket s ks) (hh_update_list depth max_key_len bucket s' ks).
Proof. unfold hh_update_list. apply fold_teq. intros a b w. apply hh_add_teq. Qed.
Lemma hh_update_dict_teq s s' kvs : teq s s' ->
  teq (hh_update_dict depth max_key_len bucket s kvs) (hh_update_dict depth max_key_len bucket s' kvs).
Proof. unfold hh_update_dict. apply fold_teq. intros a b w. apply hh_add_teq. Qed.
Lemma hh_update_ngram_teq s s' ks n : teq s s' ->
  teq (hh_update_ngram depth max_key_len bucket s ks n) (hh_update_ngram depth max_key_len bucket s' ks n).
Proof. unfold hh_update_ngram. apply fold_teq. intros a b w H. apply hh_add_ngram_teq, H. Qed.

Lemma hh_merge_teq s s' o o' : teq s s' -> teq o o' ->
  teq (hh_merge width depth s o) (hh_merge width depth s' o').
Proof.
  intros (Ht & Hna & Hnr & Hc & Hnas & Hts) (Ht' & Hna' & Hnr' & _).
  unfold hh_merge, teq. cbn [tab n_added n_records cand n_added_sort thr_sort].
  rewrite Hna, Hnr, Hc, Hnas, Hts, Hna', Hnr'. repeat split.
  intros r c Hr Hcw. rewrite Ht, Ht' by assumption. reflexivity.
Qed.

(* reads and candidate generation see the same thing on equal-inside-the-bounds sketches *)
Lemma max_count_teq (t t' : table) k key_len :
  (forall r c, (r < depth)%nat -> (c < width)%nat -> t r c = t' r c) ->
  max_count depth max_key_len bucket t k key_len = max_count depth max_key_len bucket t' k key_len.
Proof.
  intros Ht. unfold max_count. apply fold_left_ext. intros mc row Hin. apply in_seq in Hin.
  rewrite (Ht row (bucket row k)) by (try lia; apply bucket_lt). reflexivity.
Qed.
Lemma hh_get_teq s s' k : teq s s' -> hh_get depth max_key_len bucket s k = hh_get depth max_key_len bucket s' k.
Proof. intros (Ht & _). unfold hh_get. apply max_count_teq, Ht. Qed.
Lemma gen_cands_teq (t t' : table) thr :
  (forall r c, (r < depth)%nat -> (c < width)%nat -> t r c = t' r c) ->
  gen_cands width depth max_key_len bucket t thr = gen_cands width depth max_key_len bucket t' thr.
Proof.
  intros Ht. unfold gen_cands. apply fold_left_ext. intros cs [r c] Hin.
  apply in_prod_iff in Hin. destruct Hin as [Hr Hc]. apply in_seq in Hr. apply in_seq in Hc.
  unfold gen_step. cbn [fst snd]. rewrite (Ht r c) by lia. rewrite (max_count_teq t t') by assumption. reflexivity.
Qed.

Variable default_thr : Z -> Z.
Lemma hh_generate_teq s s' thr : teq s s' ->
  teq (hh_generate width depth max_key_len bucket default_thr s thr)
      (hh_generate width depth max_key_len bucket default_thr s' thr).
Proof.
  intros (Ht & Hna & Hnr & Hc & Hnas & Hts). unfold hh_generate, thr_of, teq.
  cbn [tab n_added n_records cand n_added_sort thr_sort]. rewrite Hna, Hnr. repeat split; try assumption.
  apply gen_cands_teq, Ht.
Qed.
Lemma hh_query_teq s s' k thr : teq s s' ->
  teq (fst (hh_query width depth max_key_len bucket default_thr s k thr))
      (fst (hh_query width depth max_key_len bucket default_thr s' k thr)) /\
  snd (hh_query width depth max_key_len bucket default_thr s k thr)
  = snd (hh_query width depth max_key_len bucket default_thr s' k thr).
Proof.
  intros H. pose proof H as (Ht & Hna & Hnr & Hc & Hnas & Hts). unfold hh_query, thr_of. rewrite Hna, Hnas, Hts.
  destruct ((n_added_sort s' <? n_added s') || negb (thr_sort s' =? _)); cbn [fst snd].
  - pose proof (hh_generate_teq s s' (Some (wrap32 match thr with None => default_thr (n_added s') | Some t => t end)) H) as G.
    split; [exact G|]. destruct G as (_ & _ & _ & -> & _). reflexivity.
  - split; [exact H|]. rewrite Hc. reflexivity.
Qed.
Lemma hh_load_teq s s' : teq s s' ->
  teq (hh_load width depth max_key_len bucket default_thr s) (hh_load width depth max_key_len bucket default_thr s').
Proof.
  intros (Ht & Hna & Hnr & _). unfold hh_load. apply hh_generate_teq. unfold teq.
  cbn [tab n_added n_records cand n_added_sort thr_sort]. repeat split; assumption.
Qed.

(* ---- every register of the runner is, inside the bounds, the model state of some history ----
   (the runner applies the model's own step functions and tabulates; a register nobody wrote is the empty sketch) *)
Local Notation ev := (eval width depth max_key_len bucket default_thr).
Definition rep (s : sketch) : Prop := exists h, teq s (ev h).

Lemma rep_getreg regs i : Forall rep regs -> rep (getreg max_key_len regs i).
Proof.
  intros H. unfold getreg. destruct (nth_in_or_default (ni i) regs (hh_empty max_key_len)) as [Hin | ->].
  - rewrite Forall_forall in H. apply H, Hin.
  - exists HEmpty. apply teq_refl.
Qed.
Lemma rep_setreg regs i s : Forall rep regs -> rep s -> Forall rep (setreg regs i s).
Proof.
  revert i. induction regs as [|x regs IH]; intros i H Hs; cbn [setreg]; [destruct i; constructor|].
  inversion H as [|? ? Hx Hr]; subst. destruct i as [|j]; constructor; auto.
Qed.
Lemma rep_freeze_of s s' h : teq s' (ev h) -> teq s s' -> rep (fr s).
Proof. intros H1 H2. exists h. eapply teq_trans; [apply teq_freeze|]. eapply teq_trans; eassumption. Qed.

Theorem step_rep regs o :
  Forall rep regs -> Forall rep (fst (fst (step width depth max_key_len bucket default_thr regs o))).
Proof.
  intros H. destruct o as [i k v|i ks|i kvs|i k n|i ks n|i j|i|i k thr|i thr|i k]; unfold step, freeze;
    try (destruct (rep_getreg regs i H) as (h & Hh)).
  - cbn [fst]. apply rep_setreg; [assumption|].
    apply (rep_freeze_of _ _ (HAdd h (ki k) (zi v)) (teq_refl _)). cbn [eval]. apply hh_add_teq, Hh.
  - cbn [fst]. apply rep_setreg; [assumption|].
    apply (rep_freeze_of _ _ (HUpdateList h (map ki ks)) (teq_refl _)). rewrite eval_update_list. apply hh_update_list_teq, Hh.
  - cbn [fst]. apply rep_setreg; [assumption|].
    apply (rep_freeze_of _ _ (HUpdateDict h (map (fun kv => (ki (fst kv), zi (snd kv))) kvs)) (teq_refl _)).
    rewrite eval_update_dict. apply hh_update_dict_teq, Hh.
  - cbn [fst]. apply rep_setreg; [assumption|].
    apply (rep_freeze_of _ _ (HNgram h (ki k) (zi n)) (teq_refl _)). cbn [eval]. apply hh_add_ngram_teq, Hh.
  - cbn [fst]. apply rep_setreg; [assumption|].
    apply (rep_freeze_of _ _ (HUpdateNgram h (map ki ks) (zi n)) (teq_refl _)). rewrite eval_update_ngram. apply hh_update_ngram_teq, Hh.
  - destruct (rep_getreg regs j H) as (h2 & Hh2). cbn [fst]. apply rep_setreg; [assumption|].
    apply (rep_freeze_of _ _ (HMerge h h2) (teq_refl _)). cbn [eval]. apply hh_merge_teq; assumption.
  - cbn [fst]. apply rep_setreg; [assumption|].
    apply (rep_freeze_of _ _ (HSaveLoad h) (teq_refl _)). cbn [eval]. apply hh_load_teq, Hh.
  - pose proof (hh_query_teq (getreg max_key_len regs i) (ev h) (oi k) (oi thr) Hh) as [Hq _].
    destruct (hh_query width depth max_key_len bucket default_thr (getreg max_key_len regs i) (oi k) (oi thr)) as [s' ans].
    cbn [fst] in *. apply rep_setreg; [assumption|]. exists (HQuery h (oi thr)). cbn [eval]. exact Hq.
  - cbn [fst]. apply rep_setreg; [assumption|]. exists (HGen h (oi thr)). cbn [eval]. apply hh_generate_teq, Hh.
  - cbn [fst]. assumption.
Qed.

Lemma init_regs_rep : Forall rep (init_regs max_key_len).
Proof. unfold init_regs. cbn [repeat]. repeat constructor; exists HEmpty; apply teq_refl. Qed.

(* every state the runner reaches while executing any program *)
Theorem runner_registers_are_model_states (prog : list wop) :
  Forall rep (fold_left (fun regs o => fst (fst (step width depth max_key_len bucket default_thr regs o))) prog
                        (init_regs max_key_len)).
Proof.
  generalize init_regs_rep. generalize (init_regs max_key_len).
  induction prog as [|o prog IH]; intros regs H; cbn [fold_left]; [assumption|]. apply IH, step_rep, H.
Qed.

(* and what the runner observes or answers on such a register is what the model state of that history gives *)
Theorem rep_observation s h : teq s (ev h) ->
  tab_code width depth max_key_len (tab s) = tab_code width depth max_key_len (tab (ev h)) /\
  (forall k, hh_get depth max_key_len bucket s k = hh_get depth max_key_len bucket (ev h) k) /\
  (forall k thr, snd (hh_query width depth max_key_len bucket default_thr s k thr)
                 = snd (hh_query width depth max_key_len bucket default_thr (ev h) k thr)).
Proof.
  intros H. split; [|split].
  - destruct H as (Ht & _). unfold tab_code. apply fold_left_ext. intros a [r c] Hin. cbn [fst snd].
    apply in_prod_iff in Hin. destruct Hin as [Hr Hc]. apply in_seq in Hr. apply in_seq in Hc.
    rewrite (Ht r c) by lia. reflexivity.
  - intros k. apply hh_get_teq, H.
  - intros k thr. apply hh_query_teq, H.
Qed.

End HHRunnerProofs.

(* the bucket function the runner uses is the table of columns observed on the implementation (first entry of a key
   wins, column 0 for anything unobserved): it is below width as soon as width > 0 and every observed column is — the
   hypothesis bucket_lt of the section above, for the instance the runner actually executes *)
Lemma bucket_of_lt w m : cols_ok w m = true -> forall r k, (bucket_of m r k < w)%nat.
Proof.
  unfold cols_ok. intros H r k. apply andb_prop in H. destruct H as [Hw Hm]. apply Nat.ltb_lt in Hw.
  unfold bucket_of. induction m as [|[k' cols] m IH]; cbn [map fst snd]; [assumption|].
  cbn [forallb snd] in Hm. apply andb_prop in Hm. destruct Hm as [Hc Hm].
  destruct (keqb (ki k') k).
  - destruct (nth_in_or_default r (map ni cols) O) as [Hin | ->]; [|assumption].
    apply in_map_iff in Hin. destruct Hin as (c & <- & Hin).
    rewrite forallb_forall in Hc. apply Nat.ltb_lt, Hc, Hin.
  - apply IH, Hm.
Qed.

(* the strict case check the harness evaluates implies the hypothesis for that case's bucket function *)
Lemma check_case_strict_bucket (w d L : int) (phi : PrimFloat.float) bm prog :
  check_case_strict (mkcase w d L phi bm prog) = true ->
  (forall r k, (bucket_of bm r k < ni w)%nat) /\ check_case (mkcase w d L phi bm prog) = true.
Proof.
  unfold check_case_strict, mkcase. intros H. apply andb_prop in H. destruct H as [Hc Hr].
  split; [apply bucket_of_lt, Hc|exact Hr].
Qed.
