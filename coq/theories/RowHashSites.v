(* RowHashSites.v — the source-level obligation of C14: what every kernel that maps a key to its counters computes as
   the column.  Kept apart from HashInj.v: the properties that hold for EVERY row hash (C01, C05, C09, ...) import
   HashInj only for the instance at the real hash and must not break when the row hash is changed. *)
From Coq Require Import String.
From Sketchnu Require Import Consts.

(* every kernel that maps a key to its counters computes the column, in its loop over the rows, with the expression
   read from the source on this run (the Consts.rowhash constants): the row index is the seed and the reduction is modulo width *)
Lemma rowhash_sites_ok :
  let e := "for row in range(depth): fasthash64(key, row) % width"%string in
  Consts.rowhash_query_linear = e /\ Consts.rowhash_query_log16 = e /\ Consts.rowhash_query_log8 = e /\
  Consts.rowhash_hh_add = e /\ Consts.rowhash_hh_max_count = e.
Proof. repeat split; reflexivity. Qed.
