(* GuardProofs.v — lemmas about Guard.v (property C15).  Every lemma computes on the attribute
   lists Consts.guard_X read from the source: removing a comparison from a merge() breaks them. *)
From Coq Require Import ZArith List Lia Bool.
From Coq Require String.
Import String.StringSyntax.
From Sketchnu Require Import Machine Consts Persist Guard.
Import ListNotations.
Open Scope string_scope.
Open Scope Z_scope.

Definition inclb (l m : list String.string) : bool :=
  forallb (fun x => existsb (String.eqb x) m) l.

Lemma inclb_incl l m : inclb l m = true -> incl l m.
Proof.
  unfold inclb, incl. intros H x Hx. rewrite forallb_forall in H. specialize (H x Hx).
  apply existsb_exists in H. destruct H as [y [Hy E]]. apply String.eqb_eq in E. subst. exact Hy.
Qed.

(* the parameters the property text lists, as attribute names *)
Definition required_linear := ["width"; "depth"; "uint_maxval"].
Definition required_log := ["width"; "depth"; "uint_maxval"; "max_count"; "num_reserved"].
Definition required_hll := ["p"; "seed"].
Definition required_hh := ["width"; "depth"; "max_key_len"].

Theorem guard_complete :
  incl required_linear guard_linear /\ incl required_log guard_log16 /\ incl required_log guard_log8
  /\ incl required_hll guard_hll /\ incl required_hh guard_hh.
Proof. repeat split; apply inclb_incl; vm_compute; reflexivity. Qed.

(* every generated name is one the model interprets, and nothing beyond the required names is
   compared (so `compatible` is exactly equality of the listed parameters) *)
Theorem guard_names_known :
  forallb known_name (guard_linear ++ guard_log16 ++ guard_log8 ++ guard_hll ++ guard_hh) = true
  /\ incl guard_linear required_linear /\ incl guard_log16 required_log /\ incl guard_log8 required_log
  /\ incl guard_hll required_hll /\ incl guard_hh required_hh.
Proof. split; [vm_compute; reflexivity|]. repeat split; apply inclb_incl; vm_compute; reflexivity. Qed.

(* the distinct counter types have distinct uint_maxval *)
Lemma umax_distinct : lin_cap <> log16_umax /\ lin_cap <> log8_umax /\ log16_umax <> log8_umax.
Proof. repeat split; discriminate. Qed.

Ltac eqbs :=
  repeat match goal with
         | |- context [?x =? ?y] => destruct (Z.eqb_spec x y); try (exfalso; congruence)
         | H : context [?x =? ?y] |- _ => destruct (Z.eqb_spec x y); try (exfalso; congruence)
         end.

Ltac dsk s := destruct s as [?w ?d ?t ?na ?nr|?k ?w ?d ?mc ?nres ?t ?na ?nr|?p ?seed ?regs|?w ?d ?mkl ?phi ?lhh ?cnt ?kl ?na ?nr];
              try match goal with k : logk |- _ => destruct k end.

(* outcome of the guard on two count-min sketches of any classes: never an AttributeError *)
Theorem cms_guard_total : forall a b : sketch,
  is_cms (class_of a) = true -> is_cms (class_of b) = true ->
  guard_eval (guard_of (class_of a)) a b = GCompat \/ guard_eval (guard_of (class_of a)) a b = GRefuse.
Proof.
  intros a b Ha Hb. dsk a; try discriminate Ha; dsk b; try discriminate Hb;
    cbv [class_of klass_of_logk guard_of guard_linear guard_log16 guard_log8 guard_eval attr
         String.eqb Ascii.eqb Bool.eqb umax_of lin_cap log16_umax log8_umax];
    eqbs; try (left; reflexivity); try (right; reflexivity); try discriminate.
Qed.

Theorem compatible_iff : forall a b : sketch,
  same_family a b = true ->
  (compatible a b = true <-> class_of a = class_of b /\ key_params a = key_params b).
Proof.
  intros a b F. unfold compatible.
  dsk a; dsk b; try discriminate F;
    cbv [class_of klass_of_logk guard_of guard_linear guard_log16 guard_log8 guard_hll guard_hh
         guard_eval attr String.eqb Ascii.eqb Bool.eqb umax_of lin_cap log16_umax log8_umax hh_cap key_params];
    eqbs; split; intros H; try discriminate H; try reflexivity;
    try (destruct H; congruence);
    try (split; [reflexivity|congruence]); try (exfalso; lia).
Qed.

Section WithKernel.
Variable kernel : sketch -> sketch -> sketch.

(* within a family an incompatible pair is refused with TypeError, operands as they were *)
Theorem refuse : forall a b : sketch,
  same_family a b = true -> compatible a b = false -> merge kernel a b = (MErr TypeError, a, b).
Proof.
  intros a b F. unfold compatible, merge.
  dsk a; dsk b; try discriminate F;
    cbv [class_of klass_of_logk guard_of guard_linear guard_log16 guard_log8 guard_hll guard_hh
         guard_eval attr String.eqb Ascii.eqb Bool.eqb umax_of lin_cap log16_umax log8_umax hh_cap];
    eqbs; intros H; try discriminate H; reflexivity.
Qed.

Theorem accept : forall a b : sketch,
  same_family a b = true -> compatible a b = true -> merge kernel a b = (MOk, kernel a b, b).
Proof.
  intros a b F. unfold compatible, merge. rewrite F.
  destruct (guard_eval (guard_of (class_of a)) a b); intros H; try discriminate H. reflexivity.
Qed.

(* count-min sketches of different classes: whichever operand's method runs, the outcome is
   TypeError (the short-circuit `or` stops at uint_maxval before max_count is looked up on a
   CountMinLinear, which has no such attribute) *)
Theorem mixed_cms : forall a b : sketch,
  is_cms (class_of a) = true -> is_cms (class_of b) = true -> class_of a <> class_of b ->
  merge kernel a b = (MErr TypeError, a, b).
Proof.
  intros a b Ha Hb Hne. apply refuse.
  - dsk a; try discriminate Ha; dsk b; try discriminate Hb; reflexivity.
  - destruct (compatible a b) eqn:E; [|reflexivity]. exfalso.
    assert (F : same_family a b = true) by (dsk a; try discriminate Ha; dsk b; try discriminate Hb; reflexivity).
    apply (compatible_iff a b F) in E. destruct E as [E _]. exact (Hne E).
Qed.

(* across families nothing ever merges, and nothing is written *)
Theorem cross_family : forall a b : sketch,
  same_family a b = false ->
  merge kernel a b = (MErr TypeError, a, b) \/ merge kernel a b = (MErr AttributeError, a, b).
Proof.
  intros a b F. unfold merge. rewrite F.
  dsk a; dsk b; try discriminate F;
    cbv [class_of klass_of_logk guard_of guard_linear guard_log16 guard_log8 guard_hll guard_hh
         guard_eval attr String.eqb Ascii.eqb Bool.eqb umax_of lin_cap log16_umax log8_umax hh_cap];
    eqbs; try (left; reflexivity); try (right; reflexivity).
Qed.

End WithKernel.

(* ------------------------------------------------------------------ non-vacuity *)
Definition g_lin := SLin 4 2 [1;0;0;0; 0;1;0;0] 1 0.
Definition g_lin_w := SLin 5 2 [1;0;0;0;0; 0;1;0;0;0] 1 0.
Definition g_l16 := SLog L16 4 2 4294967295 1023 [1;0;0;0; 0;1;0;0] 1 0.
Definition g_l16_nr := SLog L16 4 2 4294967295 1022 [1;0;0;0; 0;1;0;0] 1 0.
Definition g_l8 := SLog L8 4 2 4294967295 1023 [1;0;0;0; 0;1;0;0] 1 0.
Definition g_hll := SHll 7 0 (repeat 0 127 ++ [3]).
Definition g_hll_seed := SHll 7 9223372036854775808 (repeat 0 127 ++ [3]).
Definition g_hh := SHH 4 2 3 4598175219545276416 [] [] [] 1 0.
Definition g_hh_phi := SHH 4 2 3 f64_one_bits [] [] [] 1 0.

Lemma guard_examples :
  (* compatible pairs (phi is not compared) *)
  map (fun p => merge_code (fst p) (snd p)) [(g_lin, g_lin); (g_l16, g_l16); (g_l8, g_l8); (g_hll, g_hll); (g_hh, g_hh_phi)]
    = [0; 0; 0; 0; 0]
  (* refused pairs, each differing in one parameter or in the counter type at equal shape *)
  /\ map (fun p => merge_code (fst p) (snd p))
       [(g_lin, g_lin_w); (g_l16, g_l16_nr); (g_hll, g_hll_seed); (g_lin, g_l16); (g_l16, g_lin); (g_l16, g_l8); (g_l8, g_l16)]
     = [1; 1; 1; 1; 1; 1; 1]
  (* the short circuit matters: a CountMinLinear has no max_count, yet log16.merge(linear) is a TypeError *)
  /\ attr g_lin "max_count" = AMissing /\ In "max_count" guard_log16
  /\ guard_eval guard_log16 g_l16 g_lin = GRefuse
  (* across families: linear.merge(heavy hitters) passes the three comparisons and fails on other.cms *)
  /\ merge_code g_lin g_hh = 2 /\ merge_code g_hh g_lin = 2 /\ merge_code g_hll g_lin = 2 /\ merge_code g_lin_w g_hh = 1.
Proof. vm_compute. repeat split; try reflexivity. right; right; right; left; reflexivity. Qed.
