(* Machine.v — fixed-width words over Z, byte lists, little-endian decoding.
   Definitions only (no proofs that could block execution). *)
From Coq Require Import ZArith List.
Import ListNotations.
Open Scope Z_scope.

Definition mask64 : Z := Eval compute in 2^64 - 1.
Definition mask32 : Z := Eval compute in 2^32 - 1.
Definition mask16 : Z := Eval compute in 2^16 - 1.
Definition mask8  : Z := 255.

(* uintN truncation: what Numba does when a value is stored into / passed as uintN *)
Definition wrap64 (x : Z) : Z := Z.land x mask64.
Definition wrap32 (x : Z) : Z := Z.land x mask32.
Definition wrap16 (x : Z) : Z := Z.land x mask16.
Definition wrap8  (x : Z) : Z := Z.land x mask8.

Definition key := list Z.           (* a bytes object: list of byte values *)
Definition is_byte (b : Z) : Prop := 0 <= b < 256.
Definition bytes (k : key) : Prop := Forall is_byte k.
Definition is_byteb (b : Z) : bool := (0 <=? b) && (b <? 256).
Definition bytesb (k : key) : bool := forallb is_byteb k.

Definition zlen (k : key) : Z := Z.of_nat (length k).

(* Little-endian value of a byte string: b0 + 256*b1 + ... *)
Fixpoint le_decode (k : key) : Z :=
  match k with
  | [] => 0
  | b :: r => b + 256 * le_decode r
  end.

(* key equality (decidable) *)
Fixpoint keqb (a b : key) : bool :=
  match a, b with
  | [], [] => true
  | x :: a', y :: b' => (x =? y) && keqb a' b'
  | _, _ => false
  end.

(* python slice key[i : i+n] *)
Definition slice (k : key) (i n : nat) : key := firstn n (skipn i k).

(* Z-indexed helpers used by case files (no nat literals) *)
Definition znth {A} (l : list A) (i : Z) (d : A) : A := nth (Z.to_nat i) l d.
