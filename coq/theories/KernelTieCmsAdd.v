(* KernelTieCmsAdd.v — _add_linear (see KernelTieCms.v for the conventions) *)
From Coq Require Import ZArith List Lia Bool ZifyBool.
From Sketchnu Require Import Machine BitLemmas Consts KernelsCms CmsLinear CmsLinearProofs KernelTieCms.
Import ListNotations.
Open Scope Z_scope.
(* ---------------- _add_linear l.331-345 ---------------- *)
Lemma tie_add_linear_pre mc v na : 0 <= mc <= cap -> 0 <= v <= cap -> 0 <= na -> na + v < 2^64 ->
  gen_add_linear_pre mc v cap na =
  if mc =? cap then None
  else let v' := Z.min v (cap - mc) in Some (v', mc + v', na + v').
Proof.
  intros Hm Hv Hn Hs. pose proof cap_u32 as Hc. unfold gen_add_linear_pre. cbv zeta.
  rewrite wrap32_cap. rewrite (wrap32_small v) by lia. rewrite (wrap64_small (cap - mc)) by lia.
  set (v' := Z.min v (cap - mc)). assert (0 <= v' <= v) by lia.
  rewrite (wrap64_small (mc + v')) by lia. rewrite (wrap64_small v') by lia.
  rewrite wrap64_idem. rewrite (wrap64_small (na + v')) by lia.
  split_ifs; try reflexivity; lia.
Qed.

Lemma tie_add_linear_cell old nc : 0 <= nc <= cap ->
  gen_add_linear_cell old nc = if old <? nc then nc else old.
Proof.
  intros Hn. pose proof cap_u32 as Hc. unfold gen_add_linear_cell. cbv zeta.
  rewrite (wrap32_small nc) by lia. split_ifs; lia.
Qed.

(* the state _add_linear leaves behind, assembled from the generated pieces: the query (tie_query_linear), the
   straight-line part, and the loop body applied to the cell buckets[row] of every row below depth *)
Definition add_assembled (depth : nat) (bucket : nat -> key -> nat) (s : sk) (k : key) (v : Z) : sk :=
  match gen_add_linear_pre (query depth bucket s k) v cap (n_added s) with
  | None => s
  | Some (_, new_count, na) =>
      {| cms := fun r c => if (r <? depth)%nat && (c =? bucket r k)%nat
                           then gen_add_linear_cell (cms s r c) new_count else cms s r c;
         n_added := na;
         n_records := n_records s |}
  end.

Lemma tie_add_linear depth bucket (s : sk) (k : key) (v : Z) :
  Rng s -> 0 <= v <= cap -> 0 <= n_added s -> n_added s + v < 2^64 ->
  sk_eq (add_linear depth bucket s k v) (add_assembled depth bucket s k v).
Proof.
  intros HR Hv Hn Hs. pose proof (query_nonneg depth bucket s k HR) as Q0. pose proof (query_le_cap depth bucket s k) as Q1.
  unfold add_assembled, add_linear. rewrite tie_add_linear_pre by lia. cbv zeta.
  destruct (query depth bucket s k =? cap) eqn:E.
  - repeat split; reflexivity.
  - unfold sk_eq. cbn [cms n_added n_records]. split; [|split; reflexivity].
    intros r c. rewrite tie_add_linear_cell by lia.
    destruct (r <? depth)%nat; destruct (c =? bucket r k)%nat; cbn [andb]; reflexivity.
Qed.

Lemma tie_add :
  (forall mc v na, 0 <= mc <= cap -> 0 <= v <= cap -> 0 <= na -> na + v < 2^64 ->
     gen_add_linear_pre mc v cap na =
     if mc =? cap then None else let v' := Z.min v (cap - mc) in Some (v', mc + v', na + v')) /\
  (forall old nc, 0 <= nc <= cap -> gen_add_linear_cell old nc = if old <? nc then nc else old) /\
  (forall depth bucket (s : sk) (k : key) (v : Z),
     Rng s -> 0 <= v <= cap -> 0 <= n_added s -> n_added s + v < 2^64 ->
     sk_eq (add_linear depth bucket s k v) (add_assembled depth bucket s k v)).
Proof. exact (conj tie_add_linear_pre (conj tie_add_linear_cell tie_add_linear)). Qed.

