(* KernelTieApiLinear.v — CountMinLinear.add as regenerated from the source AST on every run (generated/KernelsApi.v,
   harness/pytrans_api.py): the multiplicity it hands to _add_linear is the clamp of the model's class glue
   (CmsLinear.cls_add).  That every other argument is self.<the kernel's parameter> is checked by the translator. *)
From Coq Require Import ZArith Lia Bool ZifyBool.
From Sketchnu Require Import Machine Consts KernelsApi CmsLinear.
Open Scope Z_scope.

Lemma tie_api_linear_value v : gen_api_linear_add_value v cap = Some (Z.min v cap).
Proof. unfold gen_api_linear_add_value. cbv zeta. f_equal;
  first [reflexivity | repeat match goal with |- context [if ?c then _ else _] => destruct c eqn:? end; lia]. Qed.

Lemma tie_api_linear :
  (forall v, gen_api_linear_add_value v cap = Some (Z.min v cap)) /\
  gen_api_linear_add_writes_back = false /\
  (forall depth bucket (s : sk) (k : key) (v : Z),
     option_map (add_linear depth bucket s k) (gen_api_linear_add_value v cap) = Some (cls_add depth bucket s k v)).
Proof.
  split; [exact tie_api_linear_value|]. split; [reflexivity|].
  intros. rewrite tie_api_linear_value. reflexivity.
Qed.
