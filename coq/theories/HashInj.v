(* HashInj.v — every step of FastHash is a bijection of the 64-bit running state, so for a
   fixed key the map seed -> fasthash64 key seed is injective: two different rows of a
   count-min / heavy-hitter sketch (seed = row index) never apply the same function. *)
From Coq Require Import ZArith List Lia Bool String.
From Sketchnu Require Import Machine BitLemmas Consts Hashes HashSpec HashProofs.
From Sketchnu Require Export HashBucket.
Import ListNotations.
Open Scope Z_scope.

Definition R64 (x : Z) : Prop := 0 <= x < 2^64.

Lemma shiftr_big x s : R64 x -> 64 <= s -> x / 2^s = 0.
Proof.
  intros Hx Hs. apply Z.div_small. unfold R64 in Hx.
  split; [lia|]. apply Z.lt_le_trans with (2^64); [lia|]. apply Z.pow_le_mono_r; lia.
Qed.

(* x ^ (x >> s) is inverted by z ^ (z>>s) ^ (z>>2s) when 3s >= 64 *)
Lemma xs_inv s x : R64 x -> 0 < s -> 64 <= 3 * s ->
  let z := Z.lxor x (x / 2^s) in Z.lxor (Z.lxor z (z / 2^s)) (z / 2^(2*s)) = x.
Proof.
  intros Hx Hs H3 z. subst z.
  rewrite <- !shiftr_div by lia.
  rewrite !Z.shiftr_lxor, !Z.shiftr_shiftr by lia.
  replace (s + 2 * s) with (3 * s) by lia. replace (s + s) with (2 * s) by lia.
  rewrite (shiftr_div x (3 * s)) by lia. rewrite (shiftr_big x (3 * s)) by (assumption || lia).
  rewrite Z.lxor_0_r.
  set (b := Z.shiftr x s). set (c := Z.shiftr x (2 * s)).
  replace (Z.lxor (Z.lxor (Z.lxor x b) (Z.lxor b c)) c) with (Z.lxor x (Z.lxor (Z.lxor b b) (Z.lxor c c))).
  - rewrite !Z.lxor_nilpotent. rewrite !Z.lxor_0_r. reflexivity.
  - rewrite !Z.lxor_assoc. reflexivity.
Qed.

Lemma xs_inj s x y : R64 x -> R64 y -> 0 < s -> 64 <= 3 * s ->
  Z.lxor x (x / 2^s) = Z.lxor y (y / 2^s) -> x = y.
Proof.
  intros Hx Hy Hs H3 E. rewrite <- (xs_inv s x Hx Hs H3), <- (xs_inv s y Hy Hs H3). cbv zeta. rewrite E. reflexivity.
Qed.

Lemma xs_range s x : R64 x -> 0 < s -> R64 (Z.lxor x (x / 2^s)).
Proof.
  intros Hx Hs. unfold R64 in *. apply lxor_range; [lia|assumption|].
  assert (0 < 2^s) by (apply Z.pow_pos_nonneg; lia).
  split; [apply Z.div_pos; lia|]. apply Z.div_lt_upper_bound; nia.
Qed.

(* multiplication by an odd constant modulo 2^64 is injective: exhibit the inverse *)
Definition inv64 (c : Z) : Z :=
  let it y := Z.land (y * (2 - c * y)) mask64 in it (it (it (it (it (it 1))))).
Definition fh_c_inv : Z := Eval vm_compute in inv64 0x2127599bf4325c37.
Definition fh_m_inv : Z := Eval vm_compute in inv64 0x880355f21e6d1965.
Lemma fh_c_inv_ok : (0x2127599bf4325c37 * fh_c_inv) mod 2^64 = 1. Proof. vm_compute. reflexivity. Qed.
Lemma fh_m_inv_ok : (0x880355f21e6d1965 * fh_m_inv) mod 2^64 = 1. Proof. vm_compute. reflexivity. Qed.

Lemma mul_inj c ci x y : (c * ci) mod 2^64 = 1 -> R64 x -> R64 y ->
  (x * c) mod 2^64 = (y * c) mod 2^64 -> x = y.
Proof.
  intros Hc Hx Hy E. unfold R64 in *.
  assert (forall t, 0 <= t < 2^64 -> ((t * c) mod 2^64 * ci) mod 2^64 = t) as K.
  { intros t Ht. rewrite Z.mul_mod_idemp_l by lia. rewrite <- Z.mul_assoc.
    rewrite <- Z.mul_mod_idemp_r by lia. rewrite Hc. rewrite Z.mul_1_r. apply Z.mod_small. lia. }
  rewrite <- (K x Hx), <- (K y Hy), E. reflexivity.
Qed.

Lemma fh_mix_range h : R64 (fh_mix h).
Proof.
  unfold fh_mix, M64. apply xs_range; [|lia]. unfold R64. apply Z.mod_pos_bound. lia.
Qed.

Lemma fh_mix_inj x y : R64 x -> R64 y -> fh_mix x = fh_mix y -> x = y.
Proof.
  intros Hx Hy E. unfold fh_mix, M64 in E.
  apply (xs_inj 47) in E; try lia; try (unfold R64; apply Z.mod_pos_bound; lia).
  apply (mul_inj _ fh_c_inv _ _ fh_c_inv_ok) in E; try (apply xs_range; [assumption|lia]).
  apply (xs_inj 23) in E; try assumption; lia.
Qed.

Lemma lxor_const_inj a b c : Z.lxor a c = Z.lxor b c -> a = b.
Proof. intros E. apply (f_equal (fun t => Z.lxor t c)) in E. rewrite !Z.lxor_assoc, !Z.lxor_nilpotent, !Z.lxor_0_r in E. exact E. Qed.

Lemma fh_step_range h v : R64 (fh_step h v).
Proof. unfold fh_step, M64, R64. apply Z.mod_pos_bound. lia. Qed.

Lemma fh_step_inj v x y : R64 x -> R64 y -> fh_step x v = fh_step y v -> x = y.
Proof.
  intros Hx Hy E. unfold fh_step, M64 in E.
  pose proof (fh_mix_range v) as Hv.
  apply (mul_inj _ fh_m_inv _ _ fh_m_inv_ok) in E;
    try (unfold R64 in *; apply lxor_range; [lia|assumption|assumption]).
  apply lxor_const_inj in E. exact E.
Qed.

Lemma fold_step_inj cs : forall x y, R64 x -> R64 y ->
  fold_left (fun h c => fh_step h (le_decode c)) cs x = fold_left (fun h c => fh_step h (le_decode c)) cs y -> x = y.
Proof.
  induction cs as [|c cs IH]; intros x y Hx Hy E; [exact E|].
  cbn [fold_left] in E. apply IH in E; try apply fh_step_range.
  apply fh_step_inj in E; assumption.
Qed.

Lemma fold_step_range cs : forall x, R64 x -> R64 (fold_left (fun h c => fh_step h (le_decode c)) cs x).
Proof.
  induction cs as [|c cs IH]; intros x Hx; [exact Hx|]. cbn [fold_left]. apply IH. apply fh_step_range.
Qed.

Theorem spec_fasthash64_seed_inj k s1 s2 : R64 s1 -> R64 s2 ->
  spec_fasthash64 k s1 = spec_fasthash64 k s2 -> s1 = s2.
Proof.
  intros H1 H2 E. unfold spec_fasthash64 in E.
  set (c := (zlen k * 0x880355f21e6d1965) mod M64) in *.
  assert (R64 c) as Hc by (unfold R64, c, M64; apply Z.mod_pos_bound; lia).
  assert (forall s, R64 s -> R64 (Z.lxor s c)) as Hr
    by (intros s Hs; unfold R64 in *; apply lxor_range; [lia|assumption|assumption]).
  apply fh_mix_inj in E; try (apply fold_step_range; apply Hr; assumption).
  apply fold_step_inj in E; try (apply Hr; assumption).
  apply lxor_const_inj in E. exact E.
Qed.

Theorem fasthash64_seed_inj k s1 s2 : bytes k -> zlen k < 2^64 -> R64 s1 -> R64 s2 ->
  fasthash64 k s1 = fasthash64 k s2 -> s1 = s2.
Proof.
  intros Hb Hl H1 H2 E. rewrite !fasthash64_correct in E by assumption.
  apply (spec_fasthash64_seed_inj k); assumption.
Qed.

Theorem rows_differ k (r1 r2 : nat) : bytes k -> zlen k < 2^64 ->
  Z.of_nat r1 < 2^64 -> Z.of_nat r2 < 2^64 -> r1 <> r2 ->
  fasthash64 k (Z.of_nat r1) <> fasthash64 k (Z.of_nat r2).
Proof.
  intros Hb Hl H1 H2 Hne E. apply fasthash64_seed_inj in E; try assumption; unfold R64; lia.
Qed.

(* rowhash_sites_ok (the row-hash expression read from the source) lives in RowHashSites.v, so that a changed row hash
   breaks only the obligations of the property that is about the row hash (C14), not every theory that uses hash_bucket *)
