(* Harness.v — helpers used only by generated case files. *)
From Coq Require Import ZArith List Bool.
Import ListNotations.
Open Scope Z_scope.

Definition bad_cases {A} (chk : A -> bool) (cs : list (Z * A)) : list Z :=
  map fst (filter (fun p => negb (chk (snd p))) cs).

Fixpoint zlist_eqb (a b : list Z) : bool :=
  match a, b with
  | [], [] => true
  | x :: a', y :: b' => (x =? y) && zlist_eqb a' b'
  | _, _ => false
  end.

Fixpoint zlist2_eqb (a b : list (list Z)) : bool :=
  match a, b with
  | [], [] => true
  | x :: a', y :: b' => zlist_eqb x y && zlist2_eqb a' b'
  | _, _ => false
  end.
