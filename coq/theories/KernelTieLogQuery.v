(* KernelTieLogQuery.v - _query_log16 / _query_log8 (see KernelTieLog.v for the conventions) *)
From Coq Require Import ZArith List Lia Bool ZifyBool.
From Sketchnu Require Import Machine BitLemmas KernelsLog CmsLog KernelTieLog.
Import ListNotations.
Open Scope Z_scope.

(* ---------------- _query_log16 l.859-864 / _query_log8 l.1456-1461 ---------------- *)
Lemma tie_query_log16_init umax : 0 <= umax < 2^16 -> gen_query_log16_init umax = umax.
Proof. intros H. unfold gen_query_log16_init. cbv zeta. unwrap. reflexivity. Qed.
Lemma tie_query_log8_init umax : 0 <= umax < 2^8 -> gen_query_log8_init umax = umax.
Proof. intros H. unfold gen_query_log8_init. cbv zeta. unwrap. reflexivity. Qed.

Lemma tie_query_log16_step acc c : gen_query_log16_step acc c = if c <? acc then c else acc.
Proof. unfold gen_query_log16_step. cbv zeta. split_ifs; lia. Qed.
Lemma tie_query_log8_step acc c : gen_query_log8_step acc c = if c <? acc then c else acc.
Proof. unfold gen_query_log8_step. cbv zeta. split_ifs; lia. Qed.

Section Rows.
Variable step : Z -> Z -> Z.
Hypothesis step_eq : forall acc c, step acc c = if c <? acc then c else acc.

(* the model's row loop iterates exactly the generated loop body, applied to the cell of each row *)
Lemma tie_lqrows bucket (t : ltable) (k : key) rows : forall acc,
  lqrows bucket t k rows acc = fold_left (fun acc r => step acc (t r (bucket r k))) rows acc.
Proof.
  induction rows as [|r rs IH]; intros acc; [reflexivity|].
  cbn [lqrows fold_left]. rewrite step_eq. apply IH.
Qed.
End Rows.

Lemma tie_query_log16 depth bucket umax (t : ltable) (k : key) : 0 <= umax < 2^16 ->
  lquery_t depth bucket umax t k =
  fold_left (fun acc r => gen_query_log16_step acc (t r (bucket r k))) (seq 0 depth) (gen_query_log16_init umax).
Proof. intros H. rewrite tie_query_log16_init by exact H. unfold lquery_t. apply tie_lqrows. exact tie_query_log16_step. Qed.

Lemma tie_query_log8 depth bucket umax (t : ltable) (k : key) : 0 <= umax < 2^8 ->
  lquery_t depth bucket umax t k =
  fold_left (fun acc r => gen_query_log8_step acc (t r (bucket r k))) (seq 0 depth) (gen_query_log8_init umax).
Proof. intros H. rewrite tie_query_log8_init by exact H. unfold lquery_t. apply tie_lqrows. exact tie_query_log8_step. Qed.

Lemma tie_query_log :
  (forall umax, 0 <= umax < 2^16 -> gen_query_log16_init umax = umax) /\
  (forall umax, 0 <= umax < 2^8 -> gen_query_log8_init umax = umax) /\
  (forall acc c, gen_query_log16_step acc c = if c <? acc then c else acc) /\
  (forall acc c, gen_query_log8_step acc c = if c <? acc then c else acc) /\
  (forall depth bucket umax (t : ltable) (k : key), 0 <= umax < 2^16 ->
     lquery_t depth bucket umax t k =
     fold_left (fun acc r => gen_query_log16_step acc (t r (bucket r k))) (seq 0 depth) (gen_query_log16_init umax)) /\
  (forall depth bucket umax (t : ltable) (k : key), 0 <= umax < 2^8 ->
     lquery_t depth bucket umax t k =
     fold_left (fun acc r => gen_query_log8_step acc (t r (bucket r k))) (seq 0 depth) (gen_query_log8_init umax)).
Proof.
  exact (conj tie_query_log16_init (conj tie_query_log8_init (conj tie_query_log16_step (conj tie_query_log8_step
          (conj tie_query_log16 tie_query_log8))))).
Qed.
