(* HllProofs.v — lemmas about the HyperLogLog register model (Hll.v) for property C02. *)
From Coq Require Import ZArith List Lia Bool ZifyBool.
From Sketchnu Require Import Machine Consts BitLemmas Hashes HashProofs Ngram NgramProofs Hll.
Import ListNotations.
Open Scope Z_scope.

(* ---------------- conversions that never change a value ---------------- *)
Lemma wrap8_small x : 0 <= x < 256 -> wrap8 x = x.
Proof. intros. rewrite wrap8_mod. apply Z.mod_small. change (2^8) with 256. lia. Qed.

Lemma wrap_i64_small x : 0 <= x < 2^63 -> wrap_i64 x = x.
Proof.
  intros H. unfold wrap_i64. rewrite wrap64_small by lia.
  unfold two63. change (2^63) with 9223372036854775808 in H.
  destruct (x <? 9223372036854775808) eqn:E; lia.
Qed.

(* ---------------- _n_leading_zeros64 ---------------- *)
Definition bitlen (x : Z) : Z := if x =? 0 then 0 else Z.log2 x + 1.

Definition nlz_step (k : Z) (st : Z * Z) : Z * Z :=
  let '(n, x) := st in
  let y := Z.shiftr x (wrap64 k) in
  if negb (y =? wrap64 0) then (wrap64 (n - wrap8 k), y) else (n, x).

(* the written-out transcription is five identical steps and a final test *)
Lemma nlz64_steps x :
  nlz64 x =
  let '(n, x) := nlz_step 2 (nlz_step 4 (nlz_step 8 (nlz_step 16 (nlz_step 32 (wrap8 64, x))))) in
  let y := Z.shiftr x (wrap64 1) in
  if negb (y =? wrap64 0) then wrap8 (wrap64 (n - wrap8 2)) else wrap8 (wrap64 (n - wrap8 x)).
Proof.
  unfold nlz64, nlz_step. cbv zeta.
  repeat (match goal with |- context [if negb ?c then _ else _] => destruct c end;
          change (negb true) with false; change (negb false) with true; cbv beta iota).
  all: reflexivity.
Qed.

Lemma shiftr_zero_iff x k : 0 <= x -> 0 <= k -> (Z.shiftr x k =? 0) = (x <? 2^k).
Proof.
  intros Hx Hk. rewrite Z.shiftr_div_pow2 by lia.
  assert (0 < 2^k) by (apply Z.pow_pos_nonneg; lia).
  destruct (x <? 2^k) eqn:E.
  - apply Z.eqb_eq. apply Z.div_small. lia.
  - apply Z.eqb_neq. intro Hq. assert (x < 2^k); [|lia].
    rewrite (Z.div_mod x (2^k)) by lia. rewrite Hq. pose proof (Z.mod_pos_bound x (2^k)). lia.
Qed.

Lemma bitlen_shift x k : 0 <= k -> 2^k <= x -> bitlen x = k + bitlen (Z.shiftr x k).
Proof.
  intros Hk Hx. unfold bitlen.
  assert (0 < 2^k) by (apply Z.pow_pos_nonneg; lia).
  rewrite shiftr_zero_iff by lia.
  destruct (x =? 0) eqn:?; [lia|]. destruct (x <? 2^k) eqn:?; [lia|].
  rewrite Z.log2_shiftr by lia.
  assert (k <= Z.log2 x) by (apply Z.log2_le_pow2; lia). lia.
Qed.

Lemma bitlen_small x : 0 <= x < 2 -> bitlen x = x.
Proof. intros. assert (x = 0 \/ x = 1) as [->| ->] by lia; reflexivity. Qed.
Lemma bitlen_23 x : 2 <= x < 4 -> bitlen x = 2.
Proof. intros. assert (x = 2 \/ x = 3) as [->| ->] by lia; reflexivity. Qed.

Lemma bitlen_nonneg x : 0 <= x -> 0 <= bitlen x.
Proof. intros. unfold bitlen. destruct (x =? 0); [lia|]. pose proof (Z.log2_nonneg x). lia. Qed.

Lemma bitlen_le x w : 0 <= w -> 0 <= x < 2^w -> bitlen x <= w.
Proof.
  intros Hw Hx. unfold bitlen. destruct (x =? 0) eqn:E; [lia|].
  assert (Z.log2 x < w) by (apply Z.log2_lt_pow2; lia). lia.
Qed.

Lemma shiftr_lt x k w : 0 <= x < 2^w -> 0 <= k <= w -> Z.shiftr x k < 2^(w-k).
Proof.
  intros Hx Hk. rewrite Z.shiftr_div_pow2 by lia.
  apply Z.div_lt_upper_bound. apply Z.pow_pos_nonneg; lia.
  rewrite <- Z.pow_add_r by lia. replace (k + (w-k)) with w by lia. lia.
Qed.

(* one step keeps  n - bitlen x  and halves the width; no subtraction wraps *)
Lemma nlz_step_inv k n x : 0 < k <= 32 -> 0 <= x < 2^(2*k) -> 2*k <= n <= 64 ->
  let '(n', x') := nlz_step k (n, x) in
  n' - bitlen x' = n - bitlen x /\ 0 <= x' < 2^k /\ k <= n' <= 64.
Proof.
  intros Hk Hx Hn. unfold nlz_step.
  rewrite (wrap64_small k) by lia. rewrite (wrap8_small k) by lia. change (wrap64 0) with 0.
  pose proof (shiftr_zero_iff x k ltac:(lia) ltac:(lia)) as E.
  destruct (Z.shiftr x k =? 0) eqn:Zk; cbn [negb].
  - split; [reflexivity|lia].
  - rewrite wrap64_small by lia. split; [|split].
    + rewrite (bitlen_shift x k) by lia. lia.
    + split; [apply Z.shiftr_nonneg; lia|].
      replace k with (2*k - k) at 2 by lia. apply shiftr_lt; lia.
    + lia.
Qed.

Theorem nlz64_bitlen x : 0 <= x < 2^64 -> nlz64 x = 64 - bitlen x.
Proof.
  intros Hx. rewrite nlz64_steps. change (wrap8 64) with 64.
  pose proof (nlz_step_inv 32 64 x ltac:(lia) Hx ltac:(lia)) as H32.
  destruct (nlz_step 32 (64, x)) as [n1 x1]. destruct H32 as (I1 & B1 & N1).
  pose proof (nlz_step_inv 16 n1 x1 ltac:(lia) B1 ltac:(lia)) as H16.
  destruct (nlz_step 16 (n1, x1)) as [n2 x2]. destruct H16 as (I2 & B2 & N2).
  pose proof (nlz_step_inv 8 n2 x2 ltac:(lia) B2 ltac:(lia)) as H8.
  destruct (nlz_step 8 (n2, x2)) as [n3 x3]. destruct H8 as (I3 & B3 & N3).
  pose proof (nlz_step_inv 4 n3 x3 ltac:(lia) B3 ltac:(lia)) as H4.
  destruct (nlz_step 4 (n3, x3)) as [n4 x4]. destruct H4 as (I4 & B4 & N4).
  pose proof (nlz_step_inv 2 n4 x4 ltac:(lia) B4 ltac:(lia)) as H2.
  destruct (nlz_step 2 (n4, x4)) as [n5 x5]. destruct H2 as (I5 & B5 & N5).
  cbv beta iota zeta.
  change (2^2) with 4 in B5. change (wrap64 1) with 1. change (wrap64 0) with 0. change (wrap8 2) with 2.
  pose proof (shiftr_zero_iff x5 1 ltac:(lia) ltac:(lia)) as E. change (2^1) with 2 in E.
  destruct (Z.shiftr x5 1 =? 0) eqn:Z1; cbn [negb].
  - rewrite (wrap8_small x5) by lia. rewrite wrap64_small by lia. rewrite wrap8_small by lia.
    rewrite <- (bitlen_small x5) at 1 by lia. lia.
  - rewrite wrap64_small by lia. rewrite wrap8_small by lia.
    pose proof (bitlen_23 x5 ltac:(lia)). lia.
Qed.

Theorem nlz64_spec x : 0 <= x < 2^64 -> nlz64 x = if x =? 0 then 64 else 63 - Z.log2 x.
Proof.
  intros Hx. rewrite nlz64_bitlen by assumption. unfold bitlen. destruct (x =? 0); lia.
Qed.

Lemma nlz64_range x : 0 <= x < 2^64 -> 0 <= nlz64 x <= 64.
Proof.
  intros Hx. rewrite nlz64_bitlen by assumption.
  pose proof (bitlen_nonneg x ltac:(lia)). pose proof (bitlen_le x 64 ltac:(lia) Hx). lia.
Qed.

(* ---------------- index and rank ---------------- *)
Lemma pow2_bounds p : 0 <= p < 63 -> 1 <= 2^p /\ 2 * 2^p <= 2^63.
Proof.
  intros Hp. split.
  - pose proof (Z.pow_pos_nonneg 2 p ltac:(lia) ltac:(lia)). lia.
  - replace (2 * 2^p) with (2^(p+1)) by (rewrite Z.pow_add_r by lia; lia).
    apply Z.pow_le_mono_r; lia.
Qed.

Lemma hll_m_spec p : 0 <= p < 63 -> wrap64 (Z.shiftl 1 p) = 2^p.
Proof.
  intros Hp. rewrite Z.shiftl_mul_pow2 by lia. rewrite Z.mul_1_l.
  pose proof (pow2_bounds p Hp). apply wrap64_small. change (2^64) with (2 * 2^63). lia.
Qed.

Theorem hll_idx_spec p hv : 0 <= p < 63 -> hll_idx (2^p) hv = spec_idx p hv.
Proof.
  intros Hp. unfold hll_idx, spec_idx. pose proof (pow2_bounds p Hp) as [H1 H2].
  rewrite (wrap_i64_small (2^p)) by lia.
  rewrite (wrap_i64_small (2^p - 1)) by lia.
  rewrite wrap64_small by (change (2^64) with (2 * 2^63); lia).
  replace (2^p - 1) with (Z.ones p) by (rewrite Z.ones_equiv; lia).
  apply Z.land_ones. lia.
Qed.

Lemma spec_idx_range p hv : 0 <= p -> 0 <= spec_idx p hv < 2^p.
Proof. intros. unfold spec_idx. apply Z.mod_pos_bound. apply Z.pow_pos_nonneg; lia. Qed.

Lemma bits_range p hv : 0 <= p <= 64 -> 0 <= hv < 2^64 -> 0 <= hv / 2^p < 2^(64 - p).
Proof.
  intros Hp Hv. assert (0 < 2^p) by (apply Z.pow_pos_nonneg; lia).
  split; [apply Z.div_pos; lia|]. apply Z.div_lt_upper_bound; [lia|].
  rewrite <- Z.pow_add_r by lia. replace (p + (64 - p)) with 64 by lia. lia.
Qed.

Lemma spec_rank_range p hv : 0 <= p <= 64 -> 0 <= hv < 2^64 -> 1 <= spec_rank p hv <= 64 - p + 1.
Proof.
  intros Hp Hv. unfold spec_rank. pose proof (bits_range p hv Hp Hv) as Hb.
  destruct (hv / 2^p =? 0) eqn:E; [lia|].
  pose proof (Z.log2_nonneg (hv / 2^p)).
  assert (Z.log2 (hv / 2^p) < 64 - p) by (apply Z.log2_lt_pow2; lia). lia.
Qed.

Theorem hll_rank_spec p hv : 0 <= p < 63 -> 0 <= hv < 2^64 -> hll_rank p hv = spec_rank p hv.
Proof.
  intros Hp Hv. unfold hll_rank, spec_rank.
  rewrite Z.shiftr_div_pow2 by lia.
  pose proof (bits_range p hv ltac:(lia) Hv) as Hb. set (bits := hv / 2^p) in *.
  assert (2^(64 - p) <= 2^64) by (apply Z.pow_le_mono_r; lia).
  rewrite nlz64_bitlen by lia.
  pose proof (bitlen_nonneg bits ltac:(lia)). pose proof (bitlen_le bits (64 - p) ltac:(lia) Hb).
  rewrite wrap64_small by lia.
  rewrite (wrap_i64_small (64 - bitlen bits - p)) by lia.
  rewrite wrap_i64_small by lia.
  unfold bitlen. destruct (bits =? 0); lia.
Qed.

Theorem rank_range p hv :
  hll_p_min <= p <= hll_p_max -> 0 <= hv < 2^64 ->
  1 <= hll_rank p hv <= 64 - p + 1 /\ 64 - p + 1 <= 58.
Proof.
  unfold hll_p_min, hll_p_max. intros Hp Hv.
  rewrite hll_rank_spec by lia. pose proof (spec_rank_range p hv ltac:(lia) Hv). lia.
Qed.

Theorem rank_zero p : hll_p_min <= p <= hll_p_max -> hll_rank p 0 = 64 - p + 1.
Proof.
  unfold hll_p_min, hll_p_max. intros Hp. rewrite hll_rank_spec by lia.
  unfold spec_rank. rewrite Z.div_0_l by (pose proof (Z.pow_pos_nonneg 2 p); lia). reflexivity.
Qed.

Theorem idx_range p hv : hll_p_min <= p <= hll_p_max -> 0 <= hll_idx (2^p) hv < 2^p.
Proof.
  unfold hll_p_min, hll_p_max. intros Hp. rewrite hll_idx_spec by lia. apply spec_idx_range. lia.
Qed.

(* ---------------- list_max0 ---------------- *)
Lemma list_max0_nonneg l : 0 <= list_max0 l.
Proof. induction l as [|x l IH]; cbn [list_max0 fold_right]; [lia|]. fold (list_max0 l). lia. Qed.

Lemma list_max0_ge l x : In x l -> x <= list_max0 l.
Proof.
  induction l as [|y l IH]; cbn [In list_max0 fold_right]; [tauto|]. fold (list_max0 l).
  intros [->|H]; [lia|]. specialize (IH H). lia.
Qed.

Lemma list_max0_in l : list_max0 l = 0 \/ In (list_max0 l) l.
Proof.
  induction l as [|y l IH]; cbn [In list_max0 fold_right]; [left; reflexivity|]. fold (list_max0 l).
  destruct (Z.max_spec y (list_max0 l)) as [[_ ->]|[_ ->]]; [|right; left; reflexivity].
  destruct IH as [->|H]; [left; reflexivity|right; right; exact H].
Qed.

Lemma list_max0_app a b : list_max0 (a ++ b) = Z.max (list_max0 a) (list_max0 b).
Proof.
  induction a as [|x a IH]; cbn [app list_max0 fold_right].
  - fold (list_max0 b). pose proof (list_max0_nonneg b). lia.
  - fold (list_max0 (a ++ b)). fold (list_max0 a). rewrite IH. lia.
Qed.

Lemma list_max0_incl a b : (forall x, In x a -> In x b) -> list_max0 a <= list_max0 b.
Proof.
  intros H. destruct (list_max0_in a) as [->|Hin]; [apply list_max0_nonneg|].
  apply list_max0_ge. apply H. exact Hin.
Qed.

Lemma list_max0_le l c : 0 <= c -> (forall x, In x l -> x <= c) -> list_max0 l <= c.
Proof.
  intros Hc H. destruct (list_max0_in l) as [->|Hin]; [assumption|]. apply H. exact Hin.
Qed.

(* ---------------- spec_reg ---------------- *)
Lemma spec_reg_app p seed a b i :
  spec_reg p seed (a ++ b) i = Z.max (spec_reg p seed a i) (spec_reg p seed b i).
Proof. unfold spec_reg. rewrite filter_app, map_app. apply list_max0_app. Qed.

Lemma spec_reg_nil p seed i : spec_reg p seed [] i = 0.
Proof. reflexivity. Qed.

Lemma spec_reg_nonneg p seed l i : 0 <= spec_reg p seed l i.
Proof. apply list_max0_nonneg. Qed.

Lemma spec_reg_single p seed k i :
  spec_reg p seed [k] i =
  if spec_idx p (fasthash64 k seed) =? i then Z.max (spec_rank p (fasthash64 k seed)) 0 else 0.
Proof.
  unfold spec_reg. cbn [filter]. destruct (spec_idx p (fasthash64 k seed) =? i); reflexivity.
Qed.

Lemma spec_reg_le p seed l i :
  0 <= p <= 64 -> 0 <= seed < 2^64 -> spec_reg p seed l i <= 64 - p + 1.
Proof.
  intros Hp Hs. apply list_max0_le; [lia|].
  intros x Hx. apply in_map_iff in Hx. destruct Hx as (k & <- & _).
  apply spec_rank_range; [assumption|]. apply fasthash64_range. assumption.
Qed.

Lemma spec_reg_outside p seed l i : 0 <= p -> ~ (0 <= i < 2^p) -> spec_reg p seed l i = 0.
Proof.
  intros Hp Hi. unfold spec_reg.
  replace (filter (fun k => spec_idx p (fasthash64 k seed) =? i) l) with (@nil key); [reflexivity|].
  symmetry. induction l as [|k l IH]; [reflexivity|]. cbn [filter].
  pose proof (spec_idx_range p (fasthash64 k seed) Hp).
  destruct (spec_idx p (fasthash64 k seed) =? i) eqn:E; [exfalso; lia|exact IH].
Qed.

Lemma spec_reg_incl p seed a b i :
  (forall k, In k a -> In k b) -> spec_reg p seed a i <= spec_reg p seed b i.
Proof.
  intros H. apply list_max0_incl. intros x Hx.
  apply in_map_iff in Hx. destruct Hx as (k & <- & Hk). apply filter_In in Hk. destruct Hk as [Hk Hf].
  apply in_map_iff. exists k. split; [reflexivity|]. apply filter_In. split; [apply H; exact Hk|exact Hf].
Qed.

Theorem spec_reg_set_only p seed a b i :
  (forall k, In k a <-> In k b) -> spec_reg p seed a i = spec_reg p seed b i.
Proof.
  intros H. apply Z.le_antisymm; apply spec_reg_incl; intros k; apply H.
Qed.

(* ---------------- kernels ---------------- *)
Section Kernels.
Variable p seed : Z.
Hypothesis Hp : hll_p_min <= p <= hll_p_max.
Hypothesis Hseed : 0 <= seed < 2^64.

Let Hp' : 7 <= p <= 16. Proof. exact Hp. Qed.

(* _add on a register file whose values fit: none of the conversions changes anything *)
Lemma hll_add_spec r k i :
  (0 <= r (spec_idx p (fasthash64 k seed)) <= 255) ->
  hll_add r seed p (2^p) k i =
  if i =? spec_idx p (fasthash64 k seed)
  then Z.max (r i) (spec_rank p (fasthash64 k seed)) else r i.
Proof.
  intros Hr. unfold hll_add.
  pose proof (fasthash64_range k seed Hseed) as Hh.
  rewrite hll_idx_spec, hll_rank_spec by lia.
  pose proof (spec_rank_range p (fasthash64 k seed) ltac:(lia) Hh).
  rewrite wrap8_small by lia.
  destruct (i =? spec_idx p (fasthash64 k seed)) eqn:E; [|reflexivity].
  apply Z.eqb_eq in E. subst i. reflexivity.
Qed.

(* a sketch of this precision and seed whose registers are the spec of the key list L *)
Definition Rep (s : hll) (L : list key) : Prop :=
  hll_p s = p /\ hll_seed s = seed /\ hll_m s = 2^p /\
  forall i, hll_registers s i = spec_reg p seed L i.

Lemma Rep_new : Rep (hll_new p seed) [].
Proof.
  unfold Rep, hll_new. cbn [hll_p hll_seed hll_m hll_registers].
  repeat split. apply hll_m_spec. lia.
Qed.

Lemma Rep_add s L k v : Rep s L -> Rep (cls_add s k v) (L ++ [k]).
Proof.
  intros (Ep & Es & Em & Hr). unfold Rep, cls_add, hll_set_registers.
  cbn [hll_p hll_seed hll_m hll_registers]. repeat split; try assumption.
  intros i. rewrite Ep, Es, Em.
  pose proof (spec_reg_le p seed L) as Hle. pose proof (spec_reg_nonneg p seed L) as Hge.
  rewrite hll_add_spec by (rewrite Hr; split; [apply Hge|etransitivity; [apply Hle; lia|lia]]).
  rewrite spec_reg_app, spec_reg_single, Hr.
  pose proof (fasthash64_range k seed Hseed) as Hh.
  pose proof (spec_rank_range p (fasthash64 k seed) ltac:(lia) Hh).
  specialize (Hge i).
  rewrite (Z.eqb_sym i). destruct (spec_idx p (fasthash64 k seed) =? i); lia.
Qed.

Lemma Rep_update s L ks : Rep s L -> Rep (cls_update s ks) (L ++ ks).
Proof.
  revert s L. induction ks as [|k ks IH]; intros s L H.
  - rewrite app_nil_r. exact H.
  - cbn [cls_update fold_left]. change (L ++ k :: ks) with (L ++ [k] ++ ks). rewrite app_assoc.
    apply IH. apply Rep_add. exact H.
Qed.

(* add_ngram is update over the windows (also the HyperLogLog part of C12) *)
Lemma cls_add_ngram_update s k n : cls_add_ngram s k n = cls_update s (ngram_windows k n).
Proof.
  unfold cls_add_ngram, hll_add_ngram, cls_update.
  generalize (ngram_windows k n) as ws. intros ws.
  destruct s as [sp ss sm sr]. unfold hll_set_registers. cbn [hll_p hll_seed hll_m hll_registers].
  revert sr. induction ws as [|w ws IH]; intros sr; [reflexivity|].
  cbn [fold_left]. rewrite IH. reflexivity.
Qed.

Lemma cls_update_app s a b : cls_update s (a ++ b) = cls_update (cls_update s a) b.
Proof. unfold cls_update. apply fold_left_app. Qed.

Lemma cls_update_ngram_update s ks n :
  cls_update_ngram s ks n = cls_update s (flat_map (fun k => ngram_windows k n) ks).
Proof.
  unfold cls_update_ngram. revert s. induction ks as [|k ks IH]; intros s; [reflexivity|].
  cbn [fold_left flat_map]. rewrite cls_update_app, IH, cls_add_ngram_update. reflexivity.
Qed.

Lemma Rep_merge a b La Lb : Rep a La -> Rep b Lb ->
  exists s, cls_merge a b = Some s /\ Rep s (La ++ Lb).
Proof.
  intros (Ep & Es & Em & Hr) (Ep' & Es' & Em' & Hr'). unfold cls_merge.
  rewrite Ep, Ep', Es, Es', !Z.eqb_refl. cbn [negb orb].
  eexists. split; [reflexivity|]. unfold Rep, hll_set_registers.
  cbn [hll_p hll_seed hll_m hll_registers]. repeat split; try assumption.
  intros i. unfold hll_merge. rewrite Em, spec_reg_app, Hr, Hr'.
  pose proof (spec_reg_le p seed La i ltac:(lia) Hseed). pose proof (spec_reg_nonneg p seed La i).
  pose proof (spec_reg_le p seed Lb i ltac:(lia) Hseed). pose proof (spec_reg_nonneg p seed Lb i).
  destruct ((0 <=? i) && (i <? 2^p)) eqn:E.
  - apply wrap8_small. lia.
  - rewrite (spec_reg_outside p seed Lb i) by lia. lia.
Qed.

Theorem eval_Rep h : Rep (hll_eval p seed h) (hll_keys_raw h).
Proof.
  induction h as [|h IH k v|h IH ks|h IH d|h IH k n|h IH ks n|h1 IH1 h2 IH2];
    cbn [hll_eval hll_keys_raw].
  - apply Rep_new.
  - apply Rep_add. exact IH.
  - apply Rep_update. exact IH.
  - unfold cls_update_dict. apply Rep_update. exact IH.
  - rewrite cls_add_ngram_update. apply Rep_update. exact IH.
  - rewrite cls_update_ngram_update. apply Rep_update. exact IH.
  - destruct (Rep_merge _ _ _ _ IH1 IH2) as (s & -> & Hs). exact Hs.
Qed.

End Kernels.

(* ---------------- key lists ---------------- *)
Lemma hll_keys_raw_wf h : hll_wf h -> hll_keys_raw h = hll_keys h.
Proof.
  induction h as [|h IH k v|h IH ks|h IH d|h IH k n|h IH ks n|h1 IH1 h2 IH2];
    cbn [hll_wf hll_keys hll_keys_raw]; intros W.
  - reflexivity.
  - rewrite IH by exact W. reflexivity.
  - rewrite IH by exact W. reflexivity.
  - rewrite IH by exact W. reflexivity.
  - destruct W as (W & Hn & Hk). rewrite IH by exact W. rewrite ngram_windows_spec by assumption. reflexivity.
  - destruct W as (W & Hn & Hk). rewrite IH by exact W. f_equal.
    induction Hk as [|k ks Hk1 Hk2 IHk]; [reflexivity|].
    cbn [flat_map]. rewrite IHk, ngram_windows_spec by assumption. reflexivity.
  - destruct W as (W1 & W2). rewrite IH1, IH2 by assumption. reflexivity.
Qed.

Lemma hl_adds_keys h ks : hll_keys (hl_adds h ks) = hll_keys h ++ ks.
Proof.
  unfold hl_adds. revert h. induction ks as [|k ks IH]; intros h; cbn [fold_left].
  - rewrite app_nil_r. reflexivity.
  - rewrite IH. cbn [hll_keys]. rewrite <- app_assoc. reflexivity.
Qed.

Lemma hl_adds_keys_raw h ks : hll_keys_raw (hl_adds h ks) = hll_keys_raw h ++ ks.
Proof.
  unfold hl_adds. revert h. induction ks as [|k ks IH]; intros h; cbn [fold_left].
  - rewrite app_nil_r. reflexivity.
  - rewrite IH. cbn [hll_keys_raw]. rewrite <- app_assoc. reflexivity.
Qed.

Lemma hl_adds_wf h ks : hll_wf h -> hll_wf (hl_adds h ks).
Proof.
  unfold hl_adds. revert h. induction ks as [|k ks IH]; intros h W; cbn [fold_left]; [exact W|].
  apply IH. exact W.
Qed.

(* ---------------- desugaring (update / ngram entry points are loops of add) ---------------- *)
Lemma hl_adds_eval p seed h ks :
  hll_eval p seed (hl_adds h ks) = cls_update (hll_eval p seed h) ks.
Proof.
  unfold hl_adds, cls_update. revert h. induction ks as [|k ks IH]; intros h; cbn [fold_left]; [reflexivity|].
  rewrite IH. reflexivity.
Qed.

Lemma cls_add_value s k v : cls_add s k v = cls_add s k 1.
Proof. reflexivity. Qed.

Theorem hll_desugar_eval p seed h : hll_eval p seed (hll_desugar h) = hll_eval p seed h.
Proof.
  induction h as [|h IH k v|h IH ks|h IH d|h IH k n|h IH ks n|h1 IH1 h2 IH2];
    cbn [hll_desugar hll_eval]; rewrite ?hl_adds_eval, ?IH.
  - reflexivity.
  - reflexivity.
  - reflexivity.
  - reflexivity.
  - rewrite cls_add_ngram_update. reflexivity.
  - rewrite cls_update_ngram_update. reflexivity.
  - rewrite IH1, IH2. reflexivity.
Qed.

Theorem hll_desugar_keys h : hll_keys_raw (hll_desugar h) = hll_keys_raw h.
Proof.
  induction h as [|h IH k v|h IH ks|h IH d|h IH k n|h IH ks n|h1 IH1 h2 IH2];
    cbn [hll_desugar hll_keys_raw]; rewrite ?hl_adds_keys_raw, ?IH; try reflexivity.
  rewrite IH1, IH2. reflexivity.
Qed.

(* ---------------- the property ---------------- *)
Definition hll_params_ok (p seed : Z) : Prop := hll_p_min <= p <= hll_p_max /\ 0 <= seed < 2^64.

Lemma hll_params_init p seed : hll_params_ok p seed -> hll_init p seed = Some (hll_new p seed).
Proof.
  intros [Hp _]. unfold hll_init.
  destruct (p >? hll_p_max) eqn:E1; [lia|]. destruct (p <? hll_p_min) eqn:E2; [lia|]. reflexivity.
Qed.

Theorem registers_raw p seed h i : hll_params_ok p seed ->
  hll_reg p seed h i = spec_reg p seed (hll_keys_raw h) i.
Proof. intros [Hp Hs]. unfold hll_reg. apply (eval_Rep p seed Hp Hs h). Qed.

Theorem registers_spec p seed h i : hll_params_ok p seed -> hll_wf h ->
  hll_reg p seed h i = spec_reg p seed (hll_keys h) i.
Proof. intros H W. rewrite registers_raw by exact H. rewrite hll_keys_raw_wf by exact W. reflexivity. Qed.

Theorem eval_params p seed h : hll_params_ok p seed ->
  hll_p (hll_eval p seed h) = p /\ hll_seed (hll_eval p seed h) = seed /\ hll_m (hll_eval p seed h) = 2^p.
Proof. intros [Hp Hs]. destruct (eval_Rep p seed Hp Hs h) as (A & B & C & _). auto. Qed.

Theorem reg_range p seed h i : hll_params_ok p seed ->
  0 <= hll_reg p seed h i <= 64 - p + 1 /\ (~ (0 <= i < 2^p) -> hll_reg p seed h i = 0).
Proof.
  intros H. rewrite registers_raw by exact H. destruct H as [Hp Hs].
  unfold hll_p_min, hll_p_max in Hp. split; [split|].
  - apply spec_reg_nonneg.
  - apply spec_reg_le; lia.
  - apply spec_reg_outside. lia.
Qed.

Theorem set_only_raw p seed h1 h2 : hll_params_ok p seed ->
  (forall k, In k (hll_keys_raw h1) <-> In k (hll_keys_raw h2)) ->
  forall i, hll_reg p seed h1 i = hll_reg p seed h2 i.
Proof. intros H E i. rewrite !registers_raw by exact H. apply spec_reg_set_only. exact E. Qed.

Theorem set_only p seed h1 h2 : hll_params_ok p seed -> hll_wf h1 -> hll_wf h2 ->
  (forall k, In k (hll_keys h1) <-> In k (hll_keys h2)) ->
  forall i, hll_reg p seed h1 i = hll_reg p seed h2 i.
Proof. intros H W1 W2 E i. rewrite !registers_spec by assumption. apply spec_reg_set_only. exact E. Qed.

(* the registers are those of a fresh sketch fed each distinct key exactly once, in any order *)
Theorem fresh_once p seed h ks : hll_params_ok p seed -> hll_wf h ->
  NoDup ks -> (forall k, In k ks <-> In k (hll_keys h)) ->
  forall i, hll_reg p seed h i = hll_reg p seed (hl_adds HlNew ks) i.
Proof.
  intros H W _ E i. apply set_only; try assumption.
  - apply hl_adds_wf. exact I.
  - intros k. rewrite hl_adds_keys. cbn [hll_keys app]. symmetry. apply E.
Qed.

Theorem fresh_nodup p seed h : hll_params_ok p seed -> hll_wf h ->
  forall i, hll_reg p seed h i = hll_reg p seed (hl_adds HlNew (nodup key_eq_dec (hll_keys h))) i.
Proof.
  intros H W. apply fresh_once; try assumption.
  - apply NoDup_nodup.
  - intros k. apply nodup_In.
Qed.

(* anything computed from registers 0..m-1 only *)
Theorem query_of_registers p seed h1 h2 (A : Type) (q : regs -> A) :
  (forall r1 r2 : regs, (forall i, 0 <= i < 2^p -> r1 i = r2 i) -> q r1 = q r2) ->
  hll_params_ok p seed -> hll_wf h1 -> hll_wf h2 ->
  (forall k, In k (hll_keys h1) <-> In k (hll_keys h2)) ->
  q (hll_registers (hll_eval p seed h1)) = q (hll_registers (hll_eval p seed h2)).
Proof.
  intros Hq H W1 W2 E. apply Hq. intros i _. apply (set_only p seed h1 h2 H W1 W2 E i).
Qed.

(* the register list depends on registers 0..m-1 only *)
Lemma reg_list_from_ext r1 r2 n : forall i0,
  (forall i, i0 <= i < i0 + Z.of_nat n -> r1 i = r2 i) -> reg_list_from r1 i0 n = reg_list_from r2 i0 n.
Proof.
  induction n as [|n IH]; intros i0 H; [reflexivity|].
  cbn [reg_list_from]. rewrite (H i0) by lia. f_equal. apply IH. intros i Hi. apply H. lia.
Qed.

Lemma reg_list_ext r1 r2 m :
  (forall i, 0 <= i < m -> r1 i = r2 i) -> hll_reg_list r1 m = hll_reg_list r2 m.
Proof. intros H. unfold hll_reg_list. apply reg_list_from_ext. intros i Hi. apply H. lia. Qed.

Lemma reg_list_from_length r n : forall i0, length (reg_list_from r i0 n) = n.
Proof. induction n as [|n IH]; intros i0; cbn [reg_list_from length]; [reflexivity|]. rewrite IH. reflexivity. Qed.

Lemma reg_list_from_nth r n : forall i0 j, (j < n)%nat -> nth j (reg_list_from r i0 n) 0 = r (i0 + Z.of_nat j).
Proof.
  induction n as [|n IH]; intros i0 j Hj; [exfalso; lia|].
  destruct j as [|j]; cbn [reg_list_from nth].
  - f_equal. lia.
  - rewrite IH by lia. f_equal. lia.
Qed.

Theorem reg_list_spec r m : 0 <= m ->
  Z.of_nat (length (hll_reg_list r m)) = m /\
  (forall i, 0 <= i < m -> nth (Z.to_nat i) (hll_reg_list r m) 0 = r i).
Proof.
  intros Hm. unfold hll_reg_list. split.
  - rewrite reg_list_from_length. lia.
  - intros i Hi. rewrite reg_list_from_nth by lia. f_equal. lia.
Qed.

Theorem query_of_register_list p seed h1 h2 (A : Type) (f : list Z -> A) :
  hll_params_ok p seed -> hll_wf h1 -> hll_wf h2 ->
  (forall k, In k (hll_keys h1) <-> In k (hll_keys h2)) ->
  f (hll_reg_list (hll_registers (hll_eval p seed h1)) (2^p)) =
  f (hll_reg_list (hll_registers (hll_eval p seed h2)) (2^p)).
Proof.
  intros H W1 W2 E.
  apply (query_of_registers p seed h1 h2 A (fun r => f (hll_reg_list r (2^p)))); try assumption.
  intros r1 r2 Hr. f_equal. apply reg_list_ext. exact Hr.
Qed.

(* ---------------- merge algebra ---------------- *)
Definition regs_u8 (r : regs) : Prop := forall i, 0 <= r i < 256.

Theorem merge_comm a b m i : 0 <= i < m -> hll_merge a b m i = hll_merge b a m i.
Proof.
  intros Hi. unfold hll_merge.
  destruct ((0 <=? i) && (i <? m)) eqn:E; [|exfalso; lia]. rewrite Z.max_comm. reflexivity.
Qed.

Theorem merge_assoc a b c m i : regs_u8 a -> regs_u8 b -> regs_u8 c ->
  hll_merge (hll_merge a b m) c m i = hll_merge a (hll_merge b c m) m i.
Proof.
  intros Ha Hb Hc. unfold hll_merge. specialize (Ha i). specialize (Hb i). specialize (Hc i).
  destruct ((0 <=? i) && (i <? m)) eqn:E; [|reflexivity].
  rewrite (wrap8_small (Z.max (a i) (b i))), (wrap8_small (Z.max (b i) (c i))) by lia.
  rewrite Z.max_assoc. reflexivity.
Qed.

Theorem merge_idem a m i : regs_u8 a -> hll_merge a a m i = a i.
Proof.
  intros Ha. unfold hll_merge. specialize (Ha i).
  destruct ((0 <=? i) && (i <? m)); [|reflexivity]. rewrite Z.max_id. apply wrap8_small. lia.
Qed.

Theorem merge_u8 a b m : regs_u8 a -> regs_u8 b -> regs_u8 (hll_merge a b m).
Proof.
  intros Ha Hb i. unfold hll_merge. specialize (Ha i). specialize (Hb i).
  destruct ((0 <=? i) && (i <? m)); [|lia]. rewrite wrap8_small; lia.
Qed.

(* the same on histories: any two merge trees over the same leaves, leaves repeated or not *)
Theorem hist_merge_comm p seed h1 h2 i : hll_params_ok p seed ->
  hll_reg p seed (HlMerge h1 h2) i = hll_reg p seed (HlMerge h2 h1) i.
Proof.
  intros H. apply set_only_raw; [exact H|]. intros k. cbn [hll_keys_raw]. rewrite !in_app_iff. tauto.
Qed.

Theorem hist_merge_assoc p seed h1 h2 h3 i : hll_params_ok p seed ->
  hll_reg p seed (HlMerge (HlMerge h1 h2) h3) i = hll_reg p seed (HlMerge h1 (HlMerge h2 h3)) i.
Proof.
  intros H. apply set_only_raw; [exact H|]. intros k. cbn [hll_keys_raw]. rewrite !in_app_iff. tauto.
Qed.

Theorem hist_merge_idem p seed h i : hll_params_ok p seed ->
  hll_reg p seed (HlMerge h h) i = hll_reg p seed h i.
Proof.
  intros H. apply set_only_raw; [exact H|]. intros k. cbn [hll_keys_raw]. rewrite !in_app_iff. tauto.
Qed.

Theorem hist_merge_never_raises p seed h1 h2 : hll_params_ok p seed ->
  exists s, cls_merge (hll_eval p seed h1) (hll_eval p seed h2) = Some s.
Proof.
  intros [Hp Hs].
  destruct (Rep_merge p seed Hp Hs _ _ _ _ (eval_Rep p seed Hp Hs h1) (eval_Rep p seed Hp Hs h2)) as (s & E & _).
  exists s. exact E.
Qed.
