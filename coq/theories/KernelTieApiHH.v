(* KernelTieApiHH.v — HeavyHitters.add as regenerated from the source AST on every run (generated/KernelsApi.v): the
   multiplicity handed to _add is the clamp of the model's class glue (HH.hh_add; the uint32 parameter of the kernel
   then truncates it, which is the identity after the clamp for non-negative values). *)
From Coq Require Import ZArith Lia Bool ZifyBool.
From Sketchnu Require Import Machine Consts KernelsApi HH.
Open Scope Z_scope.

Lemma tie_api_hh_value v : gen_api_hh_add_value v hh_cap = Some (Z.min v hh_cap).
Proof. unfold gen_api_hh_add_value. cbv zeta. f_equal;
  first [reflexivity | repeat match goal with |- context [if ?c then _ else _] => destruct c eqn:? end; lia]. Qed.

Lemma tie_api_hh :
  (forall v, gen_api_hh_add_value v hh_cap = Some (Z.min v hh_cap)) /\
  gen_api_hh_add_writes_back = false /\
  (forall depth max_key_len bucket (s : sketch) (k : key) (v : Z),
     option_map (fun v' => hh_add_raw depth max_key_len bucket s k (wrap32 v')) (gen_api_hh_add_value v hh_cap)
       = Some (hh_add depth max_key_len bucket s k v)).
Proof.
  split; [exact tie_api_hh_value|]. split; [reflexivity|].
  intros. rewrite tie_api_hh_value. reflexivity.
Qed.
