(* CmsLogFloat.v — facts about the merge cell rule of CmsLog.v that reason ABOUT binary64 results
   (DESIGN section 4: through the standard library's FloatAxioms specification and Flocq's bridge
   to real numbers).  Print Assumptions lists FloatAxioms.* and the real-number axioms here. *)
From Coq Require Import ZArith Reals Lia Lra Bool List.
From Coq Require Import Floats.PrimFloat Floats.SpecFloat Floats.FloatOps Floats.FloatAxioms.
From Flocq Require Import Core.Core IEEE754.BinarySingleNaN.
Require Flocq.IEEE754.PrimFloat.
Module FP := Flocq.IEEE754.PrimFloat.
From Sketchnu Require Import Machine CmsLog CmsLogProofs.
Import ListNotations.
Open Scope Z_scope.

Notation pfloat := PrimFloat.float.

(* ================================================================== commutativity, no reals needed *)
Lemma SFadd_comm x y : SFadd prec emax x y = SFadd prec emax y x.
Proof.
  destruct x as [sx|sx| |sx mx ex], y as [sy|sy| |sy my ey]; cbn [SFadd]; try reflexivity.
  - destruct sx, sy; reflexivity.
  - destruct sx, sy; reflexivity.
  - rewrite (Z.min_comm ey ex). rewrite (Z.add_comm (cond_Zopp sy _)). reflexivity.
Qed.

Lemma float_add_comm (x y : pfloat) : (x + y = y + x)%float.
Proof. apply Prim2SF_inj. rewrite !add_spec. apply SFadd_comm. Qed.

(* C09: merging is commutative cell by cell, for every table *)
Theorem C09_log_comm nr umax max_count decode castc a b :
  merge_cell nr umax max_count decode castc a b = merge_cell nr umax max_count decode castc b a.
Proof. unfold merge_cell. rewrite (float_add_comm (decode a) (decode b)). reflexivity. Qed.

(* ================================================================== real-number view of a float *)
Definition FR (x : pfloat) : R := B2R (FP.Prim2B x).
Definition fin (x : pfloat) : Prop := is_finite (FP.Prim2B x) = true.
Notation fexp64 := (SpecFloat.fexp prec emax).
Notation rnd := (round radix2 fexp64 (round_mode mode_NE)).
Notation format := (generic_format radix2 fexp64).
Local Instance Hprec64 : FLX.Prec_gt_0 prec := eq_refl _.
Local Instance Hmax64 : Prec_lt_emax prec emax := eq_refl _.
Local Instance fexp64_valid : Valid_exp fexp64 := fexp_correct prec emax _.

Lemma leb_FR x y : fin x -> fin y -> PrimFloat.leb x y = Rle_bool (FR x) (FR y).
Proof. intros Hx Hy. rewrite FP.leb_equiv. apply Bleb_correct; assumption. Qed.

Lemma ltb_FR x y : fin x -> fin y -> PrimFloat.ltb x y = Rlt_bool (FR x) (FR y).
Proof. intros Hx Hy. rewrite FP.ltb_equiv. apply Bltb_correct; assumption. Qed.

Lemma bpow2_IZR e : 0 <= e -> bpow radix2 e = IZR (2 ^ e).
Proof. intros H. rewrite <- IZR_Zpower by assumption. reflexivity. Qed.

(* integers below 2^53 are binary64 numbers *)
Lemma F2R_int n : F2R (Float radix2 n 0) = IZR n.
Proof. unfold F2R; simpl; ring. Qed.

Lemma int_format n : Z.abs n < 2 ^ 53 -> format (IZR n).
Proof.
  intros Hn. rewrite <- F2R_int.
  apply generic_format_F2R. intros Hn0. unfold cexp. rewrite F2R_int.
  assert (Hm : (mag radix2 (IZR n) <= 53)%Z).
  { apply mag_le_bpow.
    - apply IZR_neq. exact Hn0.
    - rewrite <- abs_IZR. rewrite bpow2_IZR by lia. apply IZR_lt. exact Hn. }
  unfold SpecFloat.fexp, SpecFloat.emin. unfold prec, emax. lia.
Qed.

Lemma rnd_int n : Z.abs n < 2 ^ 53 -> rnd (IZR n) = IZR n.
Proof. intros H. apply round_generic; [typeclasses eauto|]. apply int_format. exact H. Qed.

Lemma small_lt_emax n : Z.abs n < 2 ^ 100 -> (Rabs (IZR n) < bpow radix2 emax)%R.
Proof.
  intros H. rewrite <- abs_IZR. apply Rlt_le_trans with (bpow radix2 100).
  - rewrite bpow2_IZR by lia. apply IZR_lt. exact H.
  - apply bpow_le. unfold emax. lia.
Qed.

Lemma small_le_1000 n : Z.abs n < 2 ^ 100 -> (Rabs (IZR n) <= bpow radix2 1000)%R.
Proof.
  intros H. rewrite <- abs_IZR. apply Rle_trans with (bpow radix2 100).
  - rewrite bpow2_IZR by lia. apply IZR_le. lia.
  - apply bpow_le. lia.
Qed.

(* float64(n) for 0 <= n < 2^53 is finite and exact *)
Lemma z2f_FR n : 0 <= n < 2 ^ 53 -> fin (z2f n) /\ FR (z2f n) = IZR n.
Proof.
  intros Hn. unfold fin, FR, z2f. rewrite FP.of_int63_equiv.
  assert (E : Uint63.to_Z (Uint63.of_Z n) = n).
  { rewrite Uint63.of_Z_spec. apply Z.mod_small. unfold Uint63.wB, Uint63.size. simpl. lia. }
  rewrite E.
  pose proof (binary_normalize_correct prec emax FP.Hprec FP.Hmax mode_NE n 0 false) as H.
  cbv zeta in H.
  rewrite F2R_int in H.
  rewrite rnd_int in H by lia.
  rewrite Rlt_bool_true in H by (apply small_lt_emax; lia).
  destruct H as (H1 & H2 & _). split; assumption.
Qed.

(* x + y without overflow *)
Lemma add_FR x y : fin x -> fin y -> (Rabs (FR x + FR y) <= bpow radix2 1000)%R ->
  fin (x + y) /\ FR (x + y) = rnd (FR x + FR y).
Proof.
  intros Hx Hy Hb. unfold fin, FR. rewrite FP.add_equiv.
  pose proof (Bplus_correct prec emax FP.Hprec FP.Hmax mode_NE _ _ Hx Hy) as H.
  rewrite Rlt_bool_true in H.
  - destruct H as (H1 & H2 & _). split; assumption.
  - apply Rle_lt_trans with (bpow radix2 1000).
    + apply abs_round_le_generic; try typeclasses eauto; [|exact Hb].
      apply generic_format_bpow. unfold SpecFloat.fexp, SpecFloat.emin, prec, emax. lia.
    + apply bpow_lt. unfold emax. lia.
Qed.

(* truncation of a float that holds an integer *)
Lemma f2z_trunc_FR x n : fin x -> FR x = IZR n -> f2z_trunc x = n.
Proof.
  unfold fin, FR, f2z_trunc. rewrite <- FP.B2SF_Prim2B.
  destruct (FP.Prim2B x) as [s|s| |s m e Hb]; cbn [is_finite B2SF B2R]; intros Hf E; try discriminate.
  - symmetry. apply eq_IZR. symmetry. exact E.
  - unfold F2R in E. cbn [Fnum Fexp] in E.
    destruct (0 <=? e) eqn:He.
    + apply Z.leb_le in He. rewrite bpow2_IZR in E by assumption. rewrite <- mult_IZR in E.
      apply eq_IZR in E. destruct s; cbn [cond_Zopp] in E; lia.
    + apply Z.leb_gt in He.
      assert (E' : IZR (cond_Zopp s (Zpos m)) = (IZR n * bpow radix2 (- e))%R).
      { rewrite <- E. rewrite Rmult_assoc. rewrite <- bpow_plus. replace (e + - e) with 0 by lia.
        simpl. ring. }
      rewrite bpow2_IZR in E' by lia. rewrite <- mult_IZR in E'. apply eq_IZR in E'.
      assert (0 < 2 ^ (- e)) by (apply Z.pow_pos_nonneg; lia).
      destruct s; cbn [cond_Zopp] in E'.
      * assert (Zpos m = (- n) * 2 ^ (- e)) as -> by lia. rewrite Z.div_mul by lia. lia.
      * rewrite E'. rewrite Z.div_mul by lia. reflexivity.
Qed.

(* ================================================================== the reserved range of a merge *)
Section Reserved.
Variable nr umax max_count : Z.
Variable decode : Z -> pfloat.
Variable castc : Z -> Z.
Hypothesis nr_small : 0 <= nr < 2 ^ 52.
Hypothesis decode_reserved : forall c, 0 <= c <= nr -> decode c = z2f c.

(* C09: inside the reserved range the merged counter is exactly the sum *)
Theorem C09_log_reserved a b : 0 <= a -> 0 <= b -> a + b <= nr ->
  merge_cell nr umax max_count decode castc a b = castc (a + b).
Proof.
  intros Ha Hb Hab. unfold merge_cell.
  rewrite (decode_reserved a), (decode_reserved b) by lia.
  destruct (z2f_FR a ltac:(lia)) as [Fa Ra]. destruct (z2f_FR b ltac:(lia)) as [Fb Rb].
  destruct (z2f_FR nr ltac:(lia)) as [Fn Rn].
  assert (Hs : (Rabs (FR (z2f a) + FR (z2f b)) <= bpow radix2 1000)%R).
  { rewrite Ra, Rb, <- plus_IZR. apply small_le_1000. lia. }
  destruct (add_FR _ _ Fa Fb Hs) as [Fv Rv].
  rewrite Ra, Rb, <- plus_IZR, rnd_int in Rv by lia.
  rewrite (leb_FR _ _ Fv Fn), Rv, Rn.
  rewrite Rle_bool_true by (apply IZR_le; lia).
  rewrite (f2z_trunc_FR _ (a + b) Fv Rv). reflexivity.
Qed.
End Reserved.

(* ================================================================== more float operations over the reals *)
Lemma rnd_le x y : (x <= y)%R -> (rnd x <= rnd y)%R.
Proof. intros H. apply round_le; try typeclasses eauto. exact H. Qed.

Lemma rnd_FR x : rnd (FR x) = FR x.
Proof. apply round_generic; [typeclasses eauto|]. apply generic_format_B2R. Qed.

Lemma rnd_0 : rnd 0 = 0%R.
Proof. apply round_0. typeclasses eauto. Qed.

Lemma bound_le_emax r : (Rabs r <= bpow radix2 1000)%R -> (Rabs (rnd r) < bpow radix2 emax)%R.
Proof.
  intros Hb. apply Rle_lt_trans with (bpow radix2 1000).
  - apply abs_round_le_generic; try typeclasses eauto; [|exact Hb].
    apply generic_format_bpow. unfold SpecFloat.fexp, SpecFloat.emin, prec, emax. lia.
  - apply bpow_lt. unfold emax. lia.
Qed.

Lemma sub_FR x y : fin x -> fin y -> (Rabs (FR x - FR y) <= bpow radix2 1000)%R ->
  fin (x - y) /\ FR (x - y) = rnd (FR x - FR y).
Proof.
  intros Hx Hy Hb. unfold fin, FR. rewrite FP.sub_equiv.
  pose proof (Bminus_correct prec emax FP.Hprec FP.Hmax mode_NE _ _ Hx Hy) as H.
  rewrite Rlt_bool_true in H by (apply bound_le_emax; exact Hb).
  destruct H as (H1 & H2 & _). split; assumption.
Qed.

Lemma div_FR x y : fin x -> FR y <> 0%R -> (Rabs (FR x / FR y) <= bpow radix2 1000)%R ->
  fin (x / y) /\ FR (x / y) = rnd (FR x / FR y).
Proof.
  intros Hx Hy Hb. unfold fin, FR. rewrite FP.div_equiv.
  pose proof (Bdiv_correct prec emax FP.Hprec FP.Hmax mode_NE (FP.Prim2B x) (FP.Prim2B y) Hy) as H.
  rewrite Rlt_bool_true in H by (apply bound_le_emax; exact Hb).
  destruct H as (H1 & H2 & _). split; [rewrite H2; exact Hx|exact H1].
Qed.

(* a float given by its decoded form *)
Lemma FR_of_SF x s m e : Prim2SF x = S754_finite s m e ->
  fin x /\ FR x = F2R (Float radix2 (cond_Zopp s (Zpos m)) e).
Proof.
  intros E. unfold fin, FR. pose proof (FP.B2SF_Prim2B x) as H. rewrite E in H.
  destruct (FP.Prim2B x) as [s'|s'| |s' m' e' Hb]; cbn [B2SF] in H; try discriminate.
  inversion H; subst. split; reflexivity.
Qed.

Lemma FR_half : fin f_half /\ FR f_half = (/ 2)%R.
Proof.
  destruct (FR_of_SF f_half false 4503599627370496 (-53) eq_refl) as [F E]. split; [exact F|].
  rewrite E. unfold F2R. cbn [Fnum Fexp cond_Zopp]. change (-53) with (- (53)).
  rewrite (bpow_opp radix2 53), bpow2_IZR by lia.
  change (2 ^ 53) with (4503599627370496 * 2). rewrite mult_IZR. field.
Qed.

Lemma FR_one : fin f_one /\ FR f_one = 1%R.
Proof.
  destruct (FR_of_SF f_one false 4503599627370496 (-52) eq_refl) as [F E]. split; [exact F|].
  rewrite E. unfold F2R. cbn [Fnum Fexp cond_Zopp]. change (-52) with (- (52)).
  rewrite (bpow_opp radix2 52), bpow2_IZR by lia.
  change (2 ^ 52) with 4503599627370496. field.
Qed.

(* ================================================================== bisection over the decode table *)
Ltac div_lia := let H := fresh in (pose proof I as H); Z.to_euclidean_division_equations; lia.

Section Bisect.
Variable decode : Z -> pfloat.
Variable v : pfloat.
Variable top : Z.
Let P (c : Z) : bool := PrimFloat.leb (decode c) v.

Lemma find_lower_spec fuel : forall lo hi,
  lo < hi -> hi - lo <= 2 ^ Z.of_nat fuel -> P lo = true -> (hi = top \/ P hi = false) ->
  let c := find_lower decode fuel lo hi v in
  lo <= c < hi /\ P c = true /\ (c + 1 = top \/ P (c + 1) = false).
Proof.
  induction fuel as [|f IH]; intros lo hi Hlt Hsz Hlo Hhi; cbn [find_lower]; cbv zeta.
  - change (2 ^ Z.of_nat 0) with 1 in Hsz. assert (hi = lo + 1) as -> by lia.
    split; [lia|]. split; [exact Hlo|exact Hhi].
  - rewrite Nat2Z.inj_succ, Z.pow_succ_r in Hsz by lia.
    destruct (hi - lo <=? 1) eqn:E1.
    + apply Z.leb_le in E1. assert (hi = lo + 1) as -> by lia.
      split; [lia|]. split; [exact Hlo|exact Hhi].
    + apply Z.leb_gt in E1.
      assert (Hmid : lo < (lo + hi) / 2 < hi) by div_lia.
      assert (Hsz1 : hi - (lo + hi) / 2 <= 2 ^ Z.of_nat f) by div_lia.
      assert (Hsz2 : (lo + hi) / 2 - lo <= 2 ^ Z.of_nat f) by div_lia.
      fold (P ((lo + hi) / 2)). destruct (P ((lo + hi) / 2)) eqn:Em.
      * specialize (IH ((lo + hi) / 2) hi ltac:(lia) Hsz1 Em Hhi). cbv zeta in IH. lia.
      * specialize (IH lo ((lo + hi) / 2) ltac:(lia) Hsz2 Hlo (or_intror Em)). cbv zeta in IH. lia.
Qed.
End Bisect.

Lemma clower_of_spec nr umax decode v : nr <= umax -> umax + 1 - nr <= 2 ^ 20 ->
  PrimFloat.leb (decode nr) v = true ->
  nr <= clower_of nr umax decode v <= umax /\
  PrimFloat.leb (decode (clower_of nr umax decode v)) v = true /\
  (clower_of nr umax decode v + 1 = umax + 1 \/ PrimFloat.leb (decode (clower_of nr umax decode v + 1)) v = false).
Proof.
  intros H1 H2 H3. unfold clower_of.
  pose proof (find_lower_spec decode v (umax + 1) search_fuel nr (umax + 1) ltac:(lia) H2 H3 (or_introl eq_refl)) as Hs.
  cbv zeta in Hs. destruct Hs as (Ha & Hb & Hc). split; [lia|]. split; assumption.
Qed.

(* ================================================================== the merge cell rule, every pair *)
Lemma abs_rnd_le k r : -1000 <= k <= 1000 -> (Rabs r <= bpow radix2 k)%R -> (Rabs (rnd r) <= bpow radix2 k)%R.
Proof.
  intros Hk Hb. apply abs_round_le_generic; try typeclasses eauto; [|exact Hb].
  apply generic_format_bpow. unfold SpecFloat.fexp, SpecFloat.emin, prec, emax. lia.
Qed.

Lemma bpow_900_1000 x y : (Rabs x <= bpow radix2 902)%R -> (Rabs y <= bpow radix2 902)%R ->
  (Rabs (x + y) <= bpow radix2 1000)%R /\ (Rabs (x - y) <= bpow radix2 1000)%R.
Proof.
  intros Hx Hy.
  assert (H : (2 * bpow radix2 902 <= bpow radix2 1000)%R).
  { replace (2 * bpow radix2 902)%R with (bpow radix2 903).
    - apply bpow_le. lia.
    - change 903 with (1 + 902). rewrite bpow_plus. reflexivity. }
  split.
  - eapply Rle_trans; [apply Rabs_triang|]. lra.
  - unfold Rminus. eapply Rle_trans; [apply Rabs_triang|]. rewrite Rabs_Ropp. lra.
Qed.

Lemma Rle_bool_iff x y : Rle_bool x y = true <-> (x <= y)%R.
Proof. destruct (Rle_bool_spec x y); split; intros; try reflexivity; try assumption; try discriminate; lra. Qed.
Lemma Rle_bool_false_iff x y : Rle_bool x y = false <-> (y < x)%R.
Proof. destruct (Rle_bool_spec x y); split; intros; try reflexivity; try assumption; try discriminate; lra. Qed.

Lemma bpow_900_902 r : (Rabs r <= bpow radix2 900)%R -> (Rabs r <= bpow radix2 902)%R.
Proof. intros H. apply Rle_trans with (1 := H). apply bpow_le. lia. Qed.

Section Merge.
Variable nr umax max_count : Z.
Variable decode : Z -> pfloat.
Variable castc : Z -> Z.
Notation mcf := (u64_to_float max_count).
Notation nextf := (decode (wrap16 (umax + 1))).   (* what _counter2value receives for clower + 1 at the ceiling *)
Notation topf := (decode umax).
Notation merge_cell := (merge_cell nr umax max_count decode castc).

Hypothesis nr_range : 0 <= nr < umax.
Hypothesis umax_range : umax < 2 ^ 16.
Hypothesis castc_id : forall x, 0 <= x <= umax -> castc x = x.
Hypothesis dec_fin : forall c, 0 <= c <= umax -> fin (decode c).
Hypothesis dec_res : forall c, 0 <= c <= nr + 1 -> FR (decode c) = IZR c.
Hypothesis dec_mono : forall c, 0 <= c < umax -> (FR (decode c) < FR (decode (c + 1)))%R.
Hypothesis dec_bound : (FR topf <= bpow radix2 900)%R.
Hypothesis mcf_ok : fin mcf /\ (Rabs (FR mcf) <= bpow radix2 900)%R.
Hypothesis next_ok : fin nextf /\ (Rabs (FR nextf) <= bpow radix2 900)%R.
(* the rounding test can never select umax + 1 (which would wrap): one of three conditions, each
   decided by evaluating a few float expressions on the concrete table *)
Hypothesis top_ok :
  (FR mcf <= FR topf)%R \/
  ((1 <= FR (nextf - topf)%float)%R /\
   PrimFloat.leb ((mcf - topf) / (nextf - topf))%float f_half = true) \/
  (FR (nextf - topf)%float <= -1)%R.

Lemma dec_mono_le c : forall n : nat, 0 <= c -> c + Z.of_nat n <= umax ->
  (FR (decode c) <= FR (decode (c + Z.of_nat n)))%R.
Proof.
  induction n as [|n IH]; intros Hc Hn.
  - replace (c + Z.of_nat 0) with c by lia. lra.
  - specialize (IH Hc ltac:(lia)). pose proof (dec_mono (c + Z.of_nat n) ltac:(lia)) as Hm.
    replace (c + Z.of_nat (S n)) with (c + Z.of_nat n + 1) by lia. lra.
Qed.

Lemma dec_le c c' : 0 <= c <= c' -> c' <= umax -> (FR (decode c) <= FR (decode c'))%R.
Proof.
  intros Hc Hc'. pose proof (dec_mono_le c (Z.to_nat (c' - c)) ltac:(lia) ltac:(lia)) as H.
  replace (c + Z.of_nat (Z.to_nat (c' - c))) with c' in H by lia. exact H.
Qed.

Lemma dec_lt c c' : 0 <= c < c' -> c' <= umax -> (FR (decode c) < FR (decode c'))%R.
Proof.
  intros Hc Hc'. pose proof (dec_mono c ltac:(lia)). pose proof (dec_le (c + 1) c' ltac:(lia) Hc'). lra.
Qed.

Lemma dec_int c : 0 <= c <= nr + 1 -> FR (decode c) = IZR c.
Proof. apply dec_res. Qed.

Lemma dec_nonneg c : 0 <= c <= umax -> (0 <= FR (decode c))%R.
Proof. intros H. pose proof (dec_le 0 c ltac:(lia) ltac:(lia)) as H0. rewrite (dec_int 0) in H0 by lia. exact H0. Qed.

Lemma dec_abs c : 0 <= c <= umax -> (Rabs (FR (decode c)) <= bpow radix2 900)%R.
Proof.
  intros H. rewrite Rabs_pos_eq by (apply dec_nonneg; exact H).
  pose proof (dec_le c umax ltac:(lia) ltac:(lia)). lra.
Qed.

(* v = decode a + decode b *)
Lemma sum_facts a b : 0 <= a <= umax -> 0 <= b <= umax ->
  let v := (decode a + decode b)%float in
  fin v /\ FR v = rnd (FR (decode a) + FR (decode b)) /\
  (FR (decode a) <= FR v)%R /\ (FR (decode b) <= FR v)%R /\ (Rabs (FR v) <= bpow radix2 901)%R.
Proof.
  intros Ha Hb v. pose proof (dec_abs a Ha) as Aa. pose proof (dec_abs b Hb) as Ab.
  pose proof (dec_nonneg a Ha) as Na. pose proof (dec_nonneg b Hb) as Nb.
  destruct (bpow_900_1000 _ _ (bpow_900_902 _ Aa) (bpow_900_902 _ Ab)) as [Hs _].
  destruct (add_FR _ _ (dec_fin a Ha) (dec_fin b Hb) Hs) as [Fv Rv]. fold v in Fv, Rv.
  split; [exact Fv|]. split; [exact Rv|]. rewrite Rv.
  split; [rewrite <- (rnd_FR (decode a)) at 1; apply rnd_le; lra|].
  split; [rewrite <- (rnd_FR (decode b)) at 1; apply rnd_le; lra|].
  apply abs_rnd_le; [lia|]. rewrite Rabs_pos_eq in * by lra.
  change 901 with (1 + 900). rewrite bpow_plus. change (bpow radix2 1) with 2%R. lra.
Qed.

Lemma wrap16_id c : 0 <= c <= umax -> wrap16 c = c.
Proof. intros H. rewrite BitLemmas.wrap16_mod. apply Z.mod_small. lia. Qed.

(* the rounding test at the ceiling always keeps umax *)
Lemma top_test v : fin v -> (FR topf <= FR v)%R -> (FR v < FR mcf)%R -> (Rabs (FR v) <= bpow radix2 901)%R ->
  PrimFloat.leb ((v - topf) / (nextf - topf))%float f_half = true.
Proof.
  intros Fv Hlo Hhi Hb.
  pose proof (dec_fin umax ltac:(lia)) as Ft. pose proof (dec_abs umax ltac:(lia)) as At.
  destruct mcf_ok as [Fm Am]. destruct next_ok as [Fn An].
  destruct FR_half as [Fh Rh].
  assert (Bv : (Rabs (FR v) <= bpow radix2 902)%R) by (apply Rle_trans with (1 := Hb); apply bpow_le; lia).
  destruct (bpow_900_1000 _ _ Bv (bpow_900_902 _ At)) as [_ Hd].
  destruct (sub_FR v topf Fv Ft Hd) as [Fd Rd].
  assert (Nd : (0 <= FR (v - topf)%float)%R).
  { rewrite Rd. rewrite <- rnd_0. apply rnd_le. lra. }
  destruct (bpow_900_1000 _ _ (bpow_900_902 _ An) (bpow_900_902 _ At)) as [_ Hw].
  destruct (sub_FR nextf topf Fn Ft Hw) as [Fw Rw].
  assert (Ad : (Rabs (FR (v - topf)%float) <= bpow radix2 1000)%R).
  { rewrite Rd. apply abs_rnd_le; [lia|exact Hd]. }
  destruct top_ok as [T1|[[T2 T2b]|T3]].
  - exfalso. lra.
  - (* positive gap: the test is monotone in v, and it holds at v = max_count *)
    assert (Wpos : (0 < FR (nextf - topf)%float)%R) by lra.
    assert (Hq : (Rabs (FR (v - topf)%float / FR (nextf - topf)%float) <= bpow radix2 1000)%R).
    { unfold Rdiv. rewrite Rabs_mult. rewrite (Rabs_pos_eq (/ _)) by (left; apply Rinv_0_lt_compat; exact Wpos).
      apply Rle_trans with (Rabs (FR (v - topf)%float) * 1)%R; [|lra].
      apply Rmult_le_compat_l; [apply Rabs_pos|]. rewrite <- Rinv_1. apply Rinv_le_contravar; lra. }
    destruct (div_FR (v - topf)%float (nextf - topf)%float Fd ltac:(lra) Hq) as [Fq Rq].
    destruct (bpow_900_1000 _ _ (bpow_900_902 _ Am) (bpow_900_902 _ At)) as [_ Hdm].
    destruct (sub_FR mcf topf Fm Ft Hdm) as [Fdm Rdm].
    assert (Adm : (Rabs (FR (mcf - topf)%float) <= bpow radix2 1000)%R).
    { rewrite Rdm. apply abs_rnd_le; [lia|exact Hdm]. }
    assert (Hqm : (Rabs (FR (mcf - topf)%float / FR (nextf - topf)%float) <= bpow radix2 1000)%R).
    { unfold Rdiv. rewrite Rabs_mult. rewrite (Rabs_pos_eq (/ _)) by (left; apply Rinv_0_lt_compat; exact Wpos).
      apply Rle_trans with (Rabs (FR (mcf - topf)%float) * 1)%R; [|lra].
      apply Rmult_le_compat_l; [apply Rabs_pos|]. rewrite <- Rinv_1. apply Rinv_le_contravar; lra. }
    destruct (div_FR (mcf - topf)%float (nextf - topf)%float Fdm ltac:(lra) Hqm) as [Fqm Rqm].
    rewrite (leb_FR _ _ Fqm Fh) in T2b. apply Rle_bool_iff in T2b.
    rewrite (leb_FR _ _ Fq Fh). apply Rle_bool_iff.
    apply Rle_trans with (2 := T2b). rewrite Rq, Rqm. apply rnd_le.
    unfold Rdiv. apply Rmult_le_compat_r; [left; apply Rinv_0_lt_compat; exact Wpos|].
    rewrite Rd, Rdm. apply rnd_le. lra.
  - (* negative gap (log16: decode 0 at the wrapped index): the quotient is <= 0 *)
    assert (Wneg : (FR (nextf - topf)%float < 0)%R) by lra.
    assert (Hq : (Rabs (FR (v - topf)%float / FR (nextf - topf)%float) <= bpow radix2 1000)%R).
    { unfold Rdiv. rewrite Rabs_mult. rewrite Rabs_inv.
      apply Rle_trans with (Rabs (FR (v - topf)%float) * 1)%R; [|lra].
      apply Rmult_le_compat_l; [apply Rabs_pos|]. rewrite <- Rinv_1. apply Rinv_le_contravar; [lra|].
      rewrite Rabs_left by exact Wneg. lra. }
    destruct (div_FR (v - topf)%float (nextf - topf)%float Fd ltac:(lra) Hq) as [Fq Rq].
    rewrite (leb_FR _ _ Fq Fh). apply Rle_bool_iff. rewrite Rq, Rh.
    apply Rle_trans with 0%R; [|lra]. rewrite <- rnd_0. apply rnd_le.
    unfold Rdiv. replace 0%R with (FR (v - topf)%float * 0)%R by ring.
    apply Rmult_le_compat_l; [exact Nd|]. left. apply Rinv_lt_0_compat. exact Wneg.
Qed.

Theorem merge_cell_float a b : 0 <= a <= umax -> 0 <= b <= umax ->
  let m := merge_cell a b in
  Z.max a b <= m <= umax /\ Z.min (a + b) (nr + 1) <= m /\ (a + b <= nr -> m = a + b).
Proof.
  intros Ha Hb. cbv zeta.
  destruct (sum_facts a b Ha Hb) as (Fv & Rv & HA & HB & Bv). cbv zeta in *.
  set (v := (decode a + decode b)%float) in *.
  destruct (z2f_FR nr ltac:(lia)) as [Fn Rn].
  destruct mcf_ok as [Fm Am].
  unfold CmsLog.merge_cell. fold v.
  rewrite (leb_FR _ _ Fv Fn), Rn.
  destruct (Rle_bool (FR v) (IZR nr)) eqn:B1.
  - (* reserved branch: both counters are in the reserved range and the sum is exact *)
    apply Rle_bool_iff in B1.
    assert (Ha' : a <= nr).
    { destruct (Z_le_gt_dec a nr); [assumption|exfalso].
      pose proof (dec_le (nr + 1) a ltac:(lia) ltac:(lia)) as H. rewrite (dec_int (nr + 1)) in H by lia.
      rewrite plus_IZR in H. lra. }
    assert (Hb' : b <= nr).
    { destruct (Z_le_gt_dec b nr); [assumption|exfalso].
      pose proof (dec_le (nr + 1) b ltac:(lia) ltac:(lia)) as H. rewrite (dec_int (nr + 1)) in H by lia.
      rewrite plus_IZR in H. lra. }
    rewrite (dec_int a), (dec_int b), <- plus_IZR, rnd_int in Rv by lia.
    rewrite Rv in B1. apply le_IZR in B1.
    rewrite (f2z_trunc_FR v (a + b) Fv Rv). rewrite castc_id by lia. lia.
  - apply Rle_bool_false_iff in B1.
    assert (Hnab : ~ a + b <= nr).
    { intros Hab. pose proof Rv as Rv'.
      rewrite (dec_int a), (dec_int b), <- plus_IZR, rnd_int in Rv' by lia.
      rewrite Rv' in B1. apply lt_IZR in B1. lia. }
    rewrite (leb_FR _ _ Fm Fv).
    destruct (Rle_bool (FR mcf) (FR v)) eqn:B2; [lia|].
    apply Rle_bool_false_iff in B2.
    (* the sum is at least nr + 1 *)
    assert (Hv1 : (IZR (nr + 1) <= FR v)%R).
    { destruct (Z_le_gt_dec a (nr + 1)) as [La|La]; [destruct (Z_le_gt_dec b (nr + 1)) as [Lb|Lb]|].
      - rewrite (dec_int a), (dec_int b), <- plus_IZR, rnd_int in Rv by lia.
        rewrite Rv in *. apply IZR_le. apply lt_IZR in B1. lia.
      - pose proof (dec_le (nr + 1) b ltac:(lia) ltac:(lia)) as H. rewrite (dec_int (nr + 1)) in H by lia. lra.
      - pose proof (dec_le (nr + 1) a ltac:(lia) ltac:(lia)) as H. rewrite (dec_int (nr + 1)) in H by lia. lra. }
    (* the lower neighbour found by the bisection *)
    assert (Hp0 : PrimFloat.leb (decode nr) v = true).
    { rewrite (leb_FR _ _ (dec_fin nr ltac:(lia)) Fv). apply Rle_bool_iff. rewrite (dec_int nr) by lia. lra. }
    pose proof (clower_of_spec nr umax decode v ltac:(lia) ltac:(lia) Hp0) as Hs.
    set (c := clower_of nr umax decode v) in *.
    destruct Hs as (Hc & Pc & Pn).
    rewrite (leb_FR _ _ (dec_fin c ltac:(lia)) Fv) in Pc. apply Rle_bool_iff in Pc.
    assert (Pn' : c = umax \/ (FR v < FR (decode (c + 1)))%R).
    { destruct Pn as [Pn|Pn]; [left; lia|]. destruct (Z.eq_dec c umax) as [->|Hne]; [left; reflexivity|right].
      rewrite (leb_FR _ _ (dec_fin (c + 1) ltac:(lia)) Fv) in Pn. apply Rle_bool_false_iff in Pn. exact Pn. }
    assert (Hge : forall x, 0 <= x <= umax -> (FR (decode x) <= FR v)%R -> x <= c).
    { intros x Hx Hxv. destruct Pn' as [->|Pn']; [lia|].
      destruct (Z_le_gt_dec x c); [assumption|exfalso].
      pose proof (dec_le (c + 1) x ltac:(lia) ltac:(lia)). lra. }
    assert (Hca : a <= c) by (apply Hge; assumption).
    assert (Hcb : b <= c) by (apply Hge; assumption).
    assert (Hcn : nr + 1 <= c) by (apply Hge; [lia|rewrite (dec_int (nr + 1)) by lia; exact Hv1]).
    rewrite (wrap16_id c) by lia.
    destruct (Z.eq_dec c umax) as [Ec|Ec].
    + (* at the ceiling the test keeps umax *)
      rewrite Ec in *. rewrite (top_test v Fv Pc B2 Bv). rewrite castc_id by lia. lia.
    + clearbody c. destruct (PrimFloat.leb ((v - decode c) / (decode (wrap16 (c + 1)) - decode c)) f_half);
        rewrite castc_id by lia; (split; [lia|split; [lia|intros; exfalso; lia]]).
Qed.

(* the two conditions the integer theorems of CmsLogProofs.v ask of the cell rule *)
Corollary merge_ge_ok_float : merge_ge_ok nr umax max_count decode castc.
Proof. intros a b Ha Hb. pose proof (merge_cell_float a b Ha Hb) as H. cbv zeta in H. lia. Qed.

Corollary merge_lower_ok_float : merge_lower_ok nr umax max_count decode castc.
Proof. intros a b Ha Hb. pose proof (merge_cell_float a b Ha Hb) as H. cbv zeta in H. lia. Qed.

(* C09: never below either input; exact in the reserved range *)
Theorem C09_log_ge a b : 0 <= a <= umax -> 0 <= b <= umax -> Z.max a b <= merge_cell a b <= umax.
Proof. intros Ha Hb. pose proof (merge_cell_float a b Ha Hb) as H. cbv zeta in H. lia. Qed.

(* C09: merging with an empty cell changes nothing.  Two more conditions on the table: consecutive
   decoded values differ as floats (the divisor of the rounding test is not zero) and only the
   maximum counter decodes to max_count or more. *)
Hypothesis gap_pos : forall c, nr <= c < umax -> (0 < FR (decode (c + 1) - decode c)%float)%R.
Hypothesis below_max : (FR (decode (umax - 1)) < FR mcf)%R.

Theorem C09_log_empty a : 0 <= a <= umax -> merge_cell a 0 = a.
Proof.
  intros Ha. assert (Hb : 0 <= 0 <= umax) by lia.
  pose proof (merge_cell_float a 0 Ha Hb) as Hm. cbv zeta in Hm.
  destruct (Z_le_gt_dec a nr) as [Hle|Hgt]; [destruct Hm as (_ & _ & Hm); rewrite Hm by lia; lia|].
  destruct (sum_facts a 0 Ha Hb) as (Fv & Rv & HA & _ & Bv). cbv zeta in *.
  rewrite (dec_int 0) in Rv by lia. rewrite Rplus_0_r, rnd_FR in Rv.
  set (v := (decode a + decode 0)%float) in *.
  destruct (z2f_FR nr ltac:(lia)) as [Fn Rn]. destruct mcf_ok as [Fm Am].
  unfold CmsLog.merge_cell. fold v.
  rewrite (leb_FR _ _ Fv Fn), Rn, Rv.
  assert (Hnr1 : (IZR (nr + 1) <= FR (decode a))%R).
  { pose proof (dec_le (nr + 1) a ltac:(lia) ltac:(lia)) as H. rewrite (dec_int (nr + 1)) in H by lia. exact H. }
  rewrite plus_IZR in Hnr1.
  assert (B1 : Rle_bool (FR (decode a)) (IZR nr) = false) by (apply Rle_bool_false_iff; lra).
  rewrite B1. rewrite (leb_FR _ _ Fm Fv), Rv.
  destruct (Rle_bool (FR mcf) (FR (decode a))) eqn:B2.
  - apply Rle_bool_iff in B2. destruct (Z.eq_dec a umax) as [->|Hne]; [reflexivity|exfalso].
    pose proof (dec_le a (umax - 1) ltac:(lia) ltac:(lia)). lra.
  - apply Rle_bool_false_iff in B2.
    assert (Hp0 : PrimFloat.leb (decode nr) v = true).
    { rewrite (leb_FR _ _ (dec_fin nr ltac:(lia)) Fv). apply Rle_bool_iff. rewrite Rv, (dec_int nr) by lia. lra. }
    pose proof (clower_of_spec nr umax decode v ltac:(lia) ltac:(lia) Hp0) as Hs.
    set (c := clower_of nr umax decode v) in *.
    destruct Hs as (Hc & Pc & Pn).
    rewrite (leb_FR _ _ (dec_fin c ltac:(lia)) Fv), Rv in Pc. apply Rle_bool_iff in Pc.
    assert (Eca : c = a).
    { destruct (Z.lt_trichotomy c a) as [Hlt|[E|Hg]]; [exfalso|exact E|exfalso].
      - destruct Pn as [Pn|Pn]; [lia|].
        rewrite (leb_FR _ _ (dec_fin (c + 1) ltac:(lia)) Fv), Rv in Pn. apply Rle_bool_false_iff in Pn.
        pose proof (dec_le (c + 1) a ltac:(lia) ltac:(lia)). lra.
      - pose proof (dec_lt a c ltac:(lia) ltac:(lia)). lra. }
    clearbody c. subst c. rewrite (wrap16_id a) by lia.
    destruct (Z.eq_dec a umax) as [Ea|Ea].
    + subst a. rewrite (top_test v Fv ltac:(rewrite Rv; lra) ltac:(rewrite Rv; lra) Bv). apply castc_id. lia.
    + (* delta = 0, the divisor is not 0: the quotient is 0 <= 0.5 *)
      rewrite (wrap16_id (a + 1)) by lia.
      pose proof (dec_fin a Ha) as Fa. pose proof (dec_abs a Ha) as Aa.
      assert (Bv2 : (Rabs (FR v) <= bpow radix2 902)%R) by (rewrite Rv; apply bpow_900_902; exact Aa).
      destruct (bpow_900_1000 _ _ Bv2 (bpow_900_902 _ Aa)) as [_ Hd].
      destruct (sub_FR v (decode a) Fv Fa Hd) as [Fd Rd].
      rewrite Rv in Rd. replace (FR (decode a) - FR (decode a))%R with 0%R in Rd by ring. rewrite rnd_0 in Rd.
      pose proof (gap_pos a ltac:(lia)) as Hw.
      assert (Hq : (Rabs (FR (v - decode a)%float / FR (decode (a + 1) - decode a)%float) <= bpow radix2 1000)%R).
      { rewrite Rd. unfold Rdiv. rewrite Rmult_0_l, Rabs_R0. apply bpow_ge_0. }
      destruct (div_FR (v - decode a)%float (decode (a + 1) - decode a)%float Fd ltac:(lra) Hq) as [Fq Rq].
      destruct FR_half as [Fh Rh].
      rewrite (leb_FR _ _ Fq Fh), Rq, Rd, Rh. unfold Rdiv. rewrite Rmult_0_l, rnd_0.
      rewrite Rle_bool_true by lra. apply castc_id. lia.
Qed.
End Merge.

(* ================================================================== the conditions as one boolean,
   evaluated on the concrete tables of a configuration *)
Lemma fin_b_sound x : fin_b x = true -> fin x.
Proof.
  unfold fin_b, fin. rewrite <- FP.B2SF_Prim2B. destruct (FP.Prim2B x); cbn [B2SF is_finite]; congruence.
Qed.

Lemma FR_big : fin f_big /\ FR f_big = bpow radix2 900.
Proof.
  destruct (FR_of_SF f_big false 4503599627370496 848 eq_refl) as [F E]. split; [exact F|].
  rewrite E. unfold F2R. cbn [Fnum Fexp cond_Zopp]. change 4503599627370496 with (2 ^ 52).
  rewrite <- bpow2_IZR by lia. rewrite <- bpow_plus. reflexivity.
Qed.

Lemma FR_mone : fin f_mone /\ FR f_mone = (-1)%R.
Proof.
  destruct (FR_of_SF f_mone true 4503599627370496 (-52) eq_refl) as [F E]. split; [exact F|].
  rewrite E. unfold F2R. cbn [Fnum Fexp cond_Zopp]. change (-52) with (- (52)).
  rewrite (bpow_opp radix2 52), bpow2_IZR by lia. change (2 ^ 52) with 4503599627370496.
  change (- 4503599627370496) with (- (4503599627370496)). rewrite opp_IZR. field.
Qed.

Lemma FR_zero : fin f_zero /\ FR f_zero = 0%R.
Proof. unfold fin, FR. change f_zero with PrimFloat.zero. rewrite FP.zero_equiv, FP.Prim2B_B2Prim. split; reflexivity. Qed.

Lemma eqb_FR x y : fin x -> fin y -> PrimFloat.eqb x y = true -> FR x = FR y.
Proof.
  intros Hx Hy H. rewrite FP.eqb_equiv in H. rewrite (Beqb_correct _ _ _ _ Hx Hy) in H.
  unfold FR. destruct (Req_bool_spec (B2R (FP.Prim2B x)) (B2R (FP.Prim2B y))); [assumption|discriminate].
Qed.

Lemma leb_true_FR x y : fin x -> fin y -> PrimFloat.leb x y = true -> (FR x <= FR y)%R.
Proof. intros Hx Hy H. rewrite (leb_FR _ _ Hx Hy) in H. apply Rle_bool_iff. exact H. Qed.

Section Sound.
Variable nr umax max_count : Z.
Variable decode : Z -> pfloat.
Variable castc : Z -> Z.
Hypothesis castc_id : forall x, 0 <= x <= umax -> castc x = x.
Hypothesis tables_ok : float_tables_ok_b nr umax max_count decode = true.

Lemma float_tables_hyps :
  0 <= nr < umax /\ umax < 2 ^ 16 /\
  (forall c, 0 <= c <= umax -> fin (decode c)) /\
  (forall c, 0 <= c <= nr + 1 -> FR (decode c) = IZR c) /\
  (forall c, 0 <= c < umax -> (FR (decode c) < FR (decode (c + 1)))%R) /\
  (FR (decode umax) <= bpow radix2 900)%R /\
  (fin (u64_to_float max_count) /\ (Rabs (FR (u64_to_float max_count)) <= bpow radix2 900)%R) /\
  (fin (decode (wrap16 (umax + 1))) /\ (Rabs (FR (decode (wrap16 (umax + 1)))) <= bpow radix2 900)%R) /\
  ((FR (u64_to_float max_count) <= FR (decode umax))%R \/
   ((1 <= FR (decode (wrap16 (umax + 1)) - decode umax)%float)%R /\
    PrimFloat.leb ((u64_to_float max_count - decode umax) / (decode (wrap16 (umax + 1)) - decode umax))%float f_half = true) \/
   (FR (decode (wrap16 (umax + 1)) - decode umax)%float <= -1)%R).
Proof.
  pose proof tables_ok as H. unfold float_tables_ok_b in H. cbv zeta in H.
  rewrite !andb_true_iff in H.
  destruct H as (((((((((((((H1 & H2) & H3) & H4) & H5) & H6) & H7) & H8) & H9) & H10) & H11) & H12) & H13) & H14).
  apply Z.leb_le in H1. apply Z.ltb_lt in H2, H3.
  rewrite forallb_forall in H4, H6.
  destruct FR_big as [Fbig Rbig]. destruct FR_zero as [Fz Rz]. destruct FR_one as [Fo Ro].
  destruct FR_mone as [Fmo Rmo]. destruct FR_half as [Fh Rh].
  assert (dec_fin : forall c, 0 <= c <= umax -> fin (decode c)).
  { intros c Hc. destruct (Z.eq_dec c umax) as [->|Hne]; [apply fin_b_sound; exact H5|].
    assert (Hc' : 0 <= c < umax) by (clear - Hc Hne; lia).
    specialize (H4 c (zrange_In c umax Hc')). apply andb_true_iff in H4. apply fin_b_sound. apply H4. }
  assert (dec_mono : forall c, 0 <= c < umax -> (FR (decode c) < FR (decode (c + 1)))%R).
  { intros c Hc. specialize (H4 c (zrange_In c umax Hc)). apply andb_true_iff in H4. destruct H4 as [_ H4].
    assert (Hc1 : 0 <= c <= umax) by (clear - Hc; lia). assert (Hc2 : 0 <= c + 1 <= umax) by (clear - Hc; lia).
    rewrite (ltb_FR _ _ (dec_fin c Hc1) (dec_fin (c + 1) Hc2)) in H4.
    destruct (Rlt_bool_spec (FR (decode c)) (FR (decode (c + 1)))); [assumption|discriminate]. }
  assert (dec_res : forall c, 0 <= c <= nr + 1 -> FR (decode c) = IZR c).
  { intros c Hc. assert (Hc1 : 0 <= c < nr + 2) by (clear - Hc; lia).
    assert (Hc2 : 0 <= c < 2 ^ 53) by (clear - Hc H2 H3; lia).
    assert (Hc3 : 0 <= c <= umax) by (clear - Hc H2; lia).
    specialize (H6 c (zrange_In c (nr + 2) Hc1)).
    destruct (z2f_FR c Hc2) as [Fc Rc]. rewrite <- Rc.
    apply eqb_FR; [apply dec_fin; exact Hc3|exact Fc|exact H6]. }
  assert (Hu : 0 <= umax <= umax) by (clear - H1 H2; lia).
  assert (Ft : fin (decode umax)) by (apply dec_fin; exact Hu).
  assert (dec_bound : (FR (decode umax) <= bpow radix2 900)%R).
  { rewrite <- Rbig. apply leb_true_FR; assumption. }
  assert (Fm : fin (u64_to_float max_count)) by (apply fin_b_sound; exact H8).
  assert (mcf_ok : fin (u64_to_float max_count) /\ (Rabs (FR (u64_to_float max_count)) <= bpow radix2 900)%R).
  { split; [exact Fm|]. pose proof (leb_true_FR _ _ Fz Fm H9). pose proof (leb_true_FR _ _ Fm Fbig H10).
    rewrite Rabs_pos_eq by lra. lra. }
  assert (Fn : fin (decode (wrap16 (umax + 1)))) by (apply fin_b_sound; exact H11).
  assert (next_ok : fin (decode (wrap16 (umax + 1))) /\ (Rabs (FR (decode (wrap16 (umax + 1)))) <= bpow radix2 900)%R).
  { split; [exact Fn|]. pose proof (leb_true_FR _ _ Fz Fn H12). pose proof (leb_true_FR _ _ Fn Fbig H13).
    rewrite Rabs_pos_eq by lra. lra. }
  assert (At : (Rabs (FR (decode umax)) <= bpow radix2 900)%R).
  { assert (0 <= FR (decode umax))%R.
    { clear - dec_mono dec_res H1 H2. pose proof (dec_res 0 ltac:(lia)) as E0.
      assert (forall n : nat, Z.of_nat n <= umax -> (0 <= FR (decode (Z.of_nat n)))%R) as Hn.
      { induction n as [|n IH]; intros Hn; [cbn; rewrite E0; lra|].
        specialize (IH ltac:(lia)). pose proof (dec_mono (Z.of_nat n) ltac:(lia)).
        replace (Z.of_nat (S n)) with (Z.of_nat n + 1) by lia. lra. }
      specialize (Hn (Z.to_nat umax) ltac:(lia)). rewrite Z2Nat.id in Hn by lia. exact Hn. }
    rewrite Rabs_pos_eq by assumption. exact dec_bound. }
  destruct (bpow_900_1000 _ _ (bpow_900_902 _ (proj2 next_ok)) (bpow_900_902 _ At)) as [_ Hw].
  destruct (sub_FR _ _ Fn Ft Hw) as [Fw Rw].
  assert (top_ok :
    (FR (u64_to_float max_count) <= FR (decode umax))%R \/
    ((1 <= FR (decode (wrap16 (umax + 1)) - decode umax)%float)%R /\
     PrimFloat.leb ((u64_to_float max_count - decode umax) / (decode (wrap16 (umax + 1)) - decode umax))%float f_half = true) \/
    (FR (decode (wrap16 (umax + 1)) - decode umax)%float <= -1)%R).
  { rewrite !orb_true_iff in H14. destruct H14 as [[T|T]|T].
    - left. apply leb_true_FR; assumption.
    - right; left. apply andb_true_iff in T. destruct T as [T1 T2]. split; [|exact T2].
      rewrite <- Ro. apply leb_true_FR; assumption.
    - right; right. rewrite <- Rmo. apply leb_true_FR; assumption. }
  assert (Hnr : 0 <= nr < umax) by (clear - H1 H2; lia).
  split; [exact Hnr|]. split; [exact H3|]. split; [exact dec_fin|]. split; [exact dec_res|].
  split; [exact dec_mono|]. split; [exact dec_bound|]. split; [exact mcf_ok|]. split; [exact next_ok|exact top_ok].
Qed.

Theorem float_tables_sound :
  0 <= nr < umax /\ umax < 2 ^ 16 /\
  merge_ge_ok nr umax max_count decode castc /\ merge_lower_ok nr umax max_count decode castc /\
  (forall a b, 0 <= a <= umax -> 0 <= b <= umax -> a + b <= nr ->
     merge_cell nr umax max_count decode castc a b = a + b).
Proof.
  destruct float_tables_hyps as (Hnr & H3 & dec_fin & dec_res & dec_mono & dec_bound & mcf_ok & next_ok & top_ok).
  split; [exact Hnr|]. split; [exact H3|].
  split; [apply (merge_ge_ok_float nr umax max_count decode castc); assumption|].
  split; [apply (merge_lower_ok_float nr umax max_count decode castc); assumption|].
  intros a b Ha Hb Hab.
  pose proof (merge_cell_float nr umax max_count decode castc Hnr H3 castc_id dec_fin dec_res dec_mono
                dec_bound mcf_ok next_ok top_ok a b Ha Hb) as Hm.
  cbv zeta in Hm. apply Hm. exact Hab.
Qed.

(* merging with an empty cell, from the two boolean conditions *)
Theorem float_tables_empty_sound : float_tables_empty_ok_b nr umax max_count decode = true ->
  forall a, 0 <= a <= umax -> merge_cell nr umax max_count decode castc a 0 = a.
Proof.
  intros He.
  destruct float_tables_hyps as (Hnr & H3 & dec_fin & dec_res & dec_mono & dec_bound & mcf_ok & next_ok & top_ok).
  unfold float_tables_empty_ok_b in He. apply andb_true_iff in He. destruct He as [He1 He2].
  rewrite forallb_forall in He1.
  destruct FR_zero as [Fz Rz].
  assert (dabs : forall c, 0 <= c <= umax -> (Rabs (FR (decode c)) <= bpow radix2 900)%R).
  { intros c Hc. apply (dec_abs nr umax max_count decode Hnr dec_res dec_mono dec_bound top_ok c Hc). }
  apply (C09_log_empty nr umax max_count decode castc Hnr H3 castc_id dec_fin dec_res dec_mono dec_bound
           mcf_ok next_ok top_ok).
  - intros c Hc.
    assert (Hin : In c (zrange nr (umax - nr))).
    { unfold zrange. apply zrange_aux_In. clear - Hc Hnr. lia. }
    specialize (He1 c Hin).
    assert (Hc1 : 0 <= c <= umax) by (clear - Hc Hnr; lia). assert (Hc2 : 0 <= c + 1 <= umax) by (clear - Hc Hnr; lia).
    destruct (bpow_900_1000 _ _ (bpow_900_902 _ (dabs (c + 1) Hc2)) (bpow_900_902 _ (dabs c Hc1))) as [_ Hd].
    destruct (sub_FR _ _ (dec_fin (c + 1) Hc2) (dec_fin c Hc1) Hd) as [Fw _].
    rewrite (ltb_FR _ _ Fz Fw), Rz in He1.
    destruct (Rlt_bool_spec 0 (FR (decode (c + 1) - decode c)%float)); [assumption|discriminate].
  - assert (Hc1 : 0 <= umax - 1 <= umax) by (clear - Hnr; lia).
    rewrite (ltb_FR _ _ (dec_fin (umax - 1) Hc1) (proj1 mcf_ok)) in He2.
    destruct (Rlt_bool_spec (FR (decode (umax - 1))) (FR (u64_to_float max_count))); [assumption|discriminate].
Qed.
End Sound.


(* ================================================================== consequences for whole sketches:
   the merge premises of CmsLogProofs.v discharged by one evaluation on the decode table *)
Section Final.
Variable width depth : nat.
Variable bucket : nat -> key -> nat.
Variable nr umax max_count : Z.
Variable powneg decode : Z -> pfloat.
Variable castc : Z -> Z.
Hypothesis bucket_lt : forall r k, (bucket r k < width)%nat.
Hypothesis castc_id : forall x, 0 <= x <= umax -> castc x = x.
Hypothesis tables_ok : float_tables_ok_b nr umax max_count decode = true.

(* C06 (c) with merges, no side condition on the cell rule left *)
Theorem C06_lower_float : powneg 0 = f_one -> forall h k, lwf h ->
  Z.min (ltruth h k) (nr + 1) <=
  lquery depth bucket umax (leval width depth bucket nr umax max_count powneg decode castc h) k.
Proof.
  intros Hp h k Hw.
  destruct (float_tables_sound nr umax max_count decode castc castc_id tables_ok) as (Hnr & Hu & _ & Hlo & _).
  apply C06_lower_gen; try assumption; try lia. right. exact Hlo.
Qed.

(* C18 / C09 for merges: range, monotone, sticky at the ceiling *)
Theorem C18_log_merge_float a b k : lsk_ok umax a -> lsk_ok umax b ->
  lsk_ok umax (merge_log nr umax max_count decode castc a b) /\
  lquery depth bucket umax a k <= lquery depth bucket umax (merge_log nr umax max_count decode castc a b) k /\
  lquery depth bucket umax b k <= lquery depth bucket umax (merge_log nr umax max_count decode castc a b) k /\
  (lquery depth bucket umax a k = umax \/ lquery depth bucket umax b k = umax ->
   lquery depth bucket umax (merge_log nr umax max_count decode castc a b) k = umax).
Proof.
  intros Ha Hb.
  destruct (float_tables_sound nr umax max_count decode castc castc_id tables_ok) as (Hnr & Hu & Hge & _ & _).
  split; [apply C18_log_range_merge; assumption|].
  pose proof (C18_log_mono_merge depth bucket nr umax max_count decode castc a b k Hge Ha Hb) as [H1 H2].
  split; [exact H1|]. split; [exact H2|].
  intros H. apply C18_log_sticky_merge; assumption.
Qed.

(* C09 cell rule, all counters of the configuration *)
Theorem C09_log_cell_float a b : 0 <= a <= umax -> 0 <= b <= umax ->
  Z.max a b <= merge_cell nr umax max_count decode castc a b <= umax /\
  (a + b <= nr -> merge_cell nr umax max_count decode castc a b = a + b) /\
  merge_cell nr umax max_count decode castc a b = merge_cell nr umax max_count decode castc b a.
Proof.
  intros Ha Hb.
  destruct (float_tables_sound nr umax max_count decode castc castc_id tables_ok) as (_ & _ & Hge & _ & Hres).
  split; [apply Hge; assumption|]. split; [intros H; apply Hres; assumption|apply C09_log_comm].
Qed.
End Final.
