(* KernelTieHH.v — the heavy-hitter kernels regenerated from the source AST (generated/KernelsHH.v: the bodies of
   the per-row / per-cell loops of heavyhitters.py _add, _merge, _max_count) equal the cell operations of the
   hand-written model (HH.v) the theorems of C03/C04 are about.  The abstract key-array type K of the generated
   definitions is instantiated with the model's padded key array (list Z) and the abstract comparison keq
   (np.all(a == b)) with the model's array equality keqb.  An edit of one of these loop bodies in the source
   changes the generated definition and breaks the corresponding lemma here. *)
From Coq Require Import ZArith List Lia Bool.
From Sketchnu Require Import Machine BitLemmas Consts KernelsHH HH HHProofs.
Import ListNotations.
Open Scope Z_scope.

(* a cell as the triple the generated functions return: (key array, count, key length) *)
Definition cell_triple (c : cell) : key * Z * Z := (ckey c, cnt c, klen c).

Lemma wrap32_cap : wrap32 hh_cap = hh_cap.
Proof. reflexivity. Qed.
Lemma wrap8_idem x : wrap8 (wrap8 x) = wrap8 x.
Proof. rewrite !wrap8_mod. apply Z.mod_mod. lia. Qed.

(* operand order of the symmetric comparisons (==, np.all(a == b)) is not part of the function: normalise it, so that
   `key_len == key_lens[row, col]` / `np.all(lhh[row, col] == key_array)` written the other way round still ties *)
Ltac norm_sym :=
  repeat match goal with
         | |- context [?a =? klen ?c] => lazymatch a with klen _ => fail | _ => rewrite (Z.eqb_sym a (klen c)) end
         | |- context [keqb (ckey ?c) ?arr] => lazymatch arr with ckey _ => fail | _ => rewrite (keqb_sym (ckey c) arr) end
         end.

(* ---------------- _add l.86-97 ---------------- *)
Lemma tie_hh_add_cell (cl : cell) (arr : key) (key_len value : Z) :
  0 <= cnt cl <= hh_cap -> 0 <= value <= hh_cap ->
  gen_hh_add_cell key keqb (ckey cl) (cnt cl) (klen cl) arr key_len value hh_cap
  = cell_triple (cell_add cl arr key_len value).
Proof.
  intros Hc Hv. pose proof cap_val as Hcap.
  unfold gen_hh_add_cell, cell_add, cell_triple. cbv zeta.
  rewrite wrap32_cap, (wrap32_small value) by lia.
  rewrite (wrap64_small (hh_cap - cnt cl)) by lia.
  rewrite !wrap32_wrap64, wrap8_idem. norm_sym.
  destruct ((klen cl =? key_len) && keqb arr (ckey cl)).
  - destruct (value <? hh_cap - cnt cl); reflexivity.
  - destruct (value >? cnt cl); reflexivity.
Qed.

(* ---------------- _merge l.194-210 ---------------- *)
Lemma tie_hh_merge_cell (a b : cell) :
  0 <= cnt a <= hh_cap -> 0 <= klen b < 256 ->
  gen_hh_merge_cell key keqb (ckey a) (cnt a) (klen a) (ckey b) (cnt b) (klen b) hh_cap
  = cell_triple (cell_merge a b).
Proof.
  intros Hc Hk. pose proof cap_val as Hcap.
  unfold gen_hh_merge_cell, cell_merge, cell_triple. cbv zeta.
  rewrite wrap32_cap. rewrite (wrap64_small (hh_cap - cnt a)) by lia.
  rewrite !wrap32_wrap64, (wrap8_small (klen b)) by lia.
  destruct (keqb (ckey a) (ckey b) && (klen a =? klen b)).
  - destruct (cnt b >? hh_cap - cnt a); reflexivity.
  - destruct (cnt a >=? cnt b); reflexivity.
Qed.

(* ---------------- _max_count l.239-247 ---------------- *)
(* the body of the row loop of _max_count, as inlined in HH.max_count *)
Definition max_count_row_hand (mc : Z) (cl : cell) (arr : key) (key_len : Z) : Z :=
  if (klen cl =? key_len) && keqb arr (ckey cl) && (cnt cl >? mc) then cnt cl else mc.

Lemma tie_hh_max_count_init : gen_hh_max_count_init = 0.
Proof. reflexivity. Qed.

Lemma tie_hh_max_count_row (mc : Z) (cl : cell) (arr : key) (key_len : Z) :
  0 <= key_len < 256 ->
  gen_hh_max_count_row key keqb mc (ckey cl) (cnt cl) (klen cl) arr key_len = max_count_row_hand mc cl arr key_len.
Proof.
  intros Hk. unfold gen_hh_max_count_row, max_count_row_hand. cbv zeta.
  rewrite (wrap8_small key_len) by lia. norm_sym. reflexivity.
Qed.

(* ---------------- the model's loops iterate exactly the tied bodies ---------------- *)
Lemma hh_add_rows depth max_key_len bucket s k value :
  tab (hh_add_raw depth max_key_len bucket s k value)
  = let '(k', arr, key_len) := prep_key max_key_len k in
    fold_left (fun t row => let col := bucket row k' in upd t row col (cell_add (t row col) arr key_len value))
              (seq 0 depth) (tab s).
Proof. unfold hh_add_raw. destruct (prep_key max_key_len k) as [[k' arr] key_len]. reflexivity. Qed.

Lemma hh_merge_cells width depth s o r c :
  tab (hh_merge width depth s o) r c
  = if (r <? depth)%nat && (c <? width)%nat then cell_merge (tab s r c) (tab o r c) else tab s r c.
Proof. reflexivity. Qed.

Lemma hh_max_count_rows depth max_key_len bucket (t : table) k key_len :
  max_count depth max_key_len bucket t k key_len
  = fold_left (fun mc row => max_count_row_hand mc (t row (bucket row k))
                                                (if key_len =? zL max_key_len then k else pad max_key_len k) key_len)
              (seq 0 depth) 0.
Proof. reflexivity. Qed.

(* the key length handed to _max_count by __getitem__ is a uint8: the range hypothesis of tie_hh_max_count_row *)
Lemma hh_get_key_len depth max_key_len bucket s k :
  hh_get depth max_key_len bucket s k
  = max_count depth max_key_len bucket (tab s) (firstn max_key_len k) (wrap8 (zlen (firstn max_key_len k)))
  /\ 0 <= wrap8 (zlen (firstn max_key_len k)) < 256.
Proof.
  split; [reflexivity|]. rewrite wrap8_mod. change (2^8) with 256. apply Z.mod_pos_bound. lia.
Qed.

(* ---------------- packaged for the props files ---------------- *)
Lemma tie_hh_add :
  forall (cl : cell) (arr : key) (key_len value : Z), 0 <= cnt cl <= hh_cap -> 0 <= value <= hh_cap ->
    gen_hh_add_cell key keqb (ckey cl) (cnt cl) (klen cl) arr key_len value hh_cap
    = cell_triple (cell_add cl arr key_len value).
Proof. exact tie_hh_add_cell. Qed.

Lemma tie_hh_merge :
  forall a b : cell, 0 <= cnt a <= hh_cap -> 0 <= klen b < 256 ->
    gen_hh_merge_cell key keqb (ckey a) (cnt a) (klen a) (ckey b) (cnt b) (klen b) hh_cap
    = cell_triple (cell_merge a b).
Proof. exact tie_hh_merge_cell. Qed.

Lemma tie_hh_max_count :
  gen_hh_max_count_init = 0 /\
  (forall (mc : Z) (cl : cell) (arr : key) (key_len : Z), 0 <= key_len < 256 ->
     gen_hh_max_count_row key keqb mc (ckey cl) (cnt cl) (klen cl) arr key_len = max_count_row_hand mc cl arr key_len).
Proof. exact (conj tie_hh_max_count_init tie_hh_max_count_row). Qed.

Lemma hh_loops_iterate_tied_bodies :
  (forall depth max_key_len bucket s k value,
     tab (hh_add_raw depth max_key_len bucket s k value)
     = let '(k', arr, key_len) := prep_key max_key_len k in
       fold_left (fun t row => let col := bucket row k' in upd t row col (cell_add (t row col) arr key_len value))
                 (seq 0 depth) (tab s)) /\
  (forall width depth s o r c,
     tab (hh_merge width depth s o) r c
     = if (r <? depth)%nat && (c <? width)%nat then cell_merge (tab s r c) (tab o r c) else tab s r c) /\
  (forall depth max_key_len bucket (t : table) k key_len,
     max_count depth max_key_len bucket t k key_len
     = fold_left (fun mc row => max_count_row_hand mc (t row (bucket row k))
                                                   (if key_len =? zL max_key_len then k else pad max_key_len k) key_len)
                 (seq 0 depth) gen_hh_max_count_init).
Proof. exact (conj hh_add_rows (conj hh_merge_cells hh_max_count_rows)). Qed.
