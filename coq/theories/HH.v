(* HH.v — transcription of /repo/sketchnu/heavyhitters.py (tree with the F1/F1b/F5 repairs).
   Definitions only.  Conventions: DESIGN.md section 3.
   - a cell keeps the code's representation: zero padded byte array of length max_key_len
     (lhh[row,col,:]), the key_lens entry, the uint32 count;
   - tables are functions row -> column -> cell, equality is pointwise;
   - n_added_records are unbounded Z (3.1); stores into the uint32/uint8 arrays carry their wrap;
   - `bucket row key` stands for fasthash64(key,row) % width on the *already truncated* key;
   - `default_thr n` stands for the integer part of the binary64 product self.phi * n (the cast
     np.uint32(...) is the wrap32 in thr_of); the theorems hold for every such function, the
     executable instance over PrimFloat is float_default_thr at the end of the file. *)
From Coq Require Import ZArith List Bool Floats.PrimFloat Floats.SpecFloat Floats.FloatOps Uint63.
From Sketchnu Require Import Machine Consts Ngram.
Import ListNotations.
Open Scope Z_scope.

Record cell := mkCell { ckey : key; klen : Z; cnt : Z }.
Definition table := nat -> nat -> cell.
Definition cands := list (key * Z).          (* collections.Counter in insertion order *)
Record sketch := mkSk {
  tab : table;                (* lhh, key_lens, lhh_count *)
  n_added : Z;                (* n_added_records[0] *)
  n_records : Z;              (* n_added_records[1] *)
  cand : cands;               (* candidate_set *)
  n_added_sort : Z;
  thr_sort : Z                (* threshold_sort *)
}.

(* ---- collections.Counter as an insertion ordered association list ---- *)
(* candidate_set[key] : 0 when missing (Counter.__missing__ does not insert) *)
Fixpoint cand_lookup (cs : cands) (k : key) : Z :=
  match cs with
  | [] => 0
  | (k', v) :: r => if keqb k' k then v else cand_lookup r k
  end.
(* candidate_set[key] = v : in place when present, appended otherwise *)
Fixpoint cand_set (cs : cands) (k : key) (v : Z) : cands :=
  match cs with
  | [] => [(k, v)]
  | (k', v') :: r => if keqb k' k then (k', v) :: r else (k', v') :: cand_set r k v
  end.

(* Counter.most_common: sorted(items, key=count, reverse=True) is stable, heapq.nlargest(k, ...)
   is documented (and implemented) as sorted(...)[:k] *)
Fixpoint insert_desc (p : key * Z) (l : cands) : cands :=
  match l with
  | [] => [p]
  | q :: r => if snd q >? snd p then q :: insert_desc p r else p :: q :: r
  end.
Definition sort_desc (l : cands) : cands := fold_right insert_desc [] l.
Definition most_common (k : option Z) (l : cands) : cands :=
  match k with
  | None => sort_desc l
  | Some n => firstn (Z.to_nat n) (sort_desc l)
  end.

Section HH.
Variable width depth : nat.
Variable max_key_len : nat.
Variable bucket : nat -> key -> nat.
Variable default_thr : Z -> Z.

Definition zL : Z := Z.of_nat max_key_len.
(* np.zeros(max_key_len); a[:len(k)] = k *)
Definition pad (k : key) : key := k ++ repeat 0 (max_key_len - length k).
Definition ident (k : key) : key := firstn max_key_len k.
Definition empty_cell : cell := mkCell (repeat 0 max_key_len) 0 0.
(* __init__ l.365-423 *)
Definition hh_empty : sketch := mkSk (fun _ _ => empty_cell) 0 0 [] 0 0.

Definition upd (t : table) (r c : nat) (cl : cell) : table :=
  fun r' c' => if (r' =? r)%nat && (c' =? c)%nat then cl else t r' c'.

(* _add l.69-81: (key used for hashing, key_array, key_len) *)
Definition prep_key (k : key) : key * key * Z :=
  let key_len := wrap64 (zlen k) in
  if key_len =? zL then (k, k, key_len)
  else if key_len <? zL then (k, pad k, key_len)
  else (firstn max_key_len k, firstn max_key_len k, zL).

(* _add l.86-97, one cell *)
Definition cell_add (cl : cell) (arr : key) (key_len value : Z) : cell :=
  if (klen cl =? key_len) && keqb arr (ckey cl) then
    if value <? hh_cap - cnt cl then mkCell (ckey cl) (klen cl) (wrap32 (cnt cl + value))
    else mkCell (ckey cl) (klen cl) hh_cap
  else
    if value >? cnt cl then mkCell arr (wrap8 key_len) (wrap32 (value - cnt cl))
    else mkCell (ckey cl) (klen cl) (wrap32 (cnt cl - value)).

(* _add l.54-97; value is the uint32 argument *)
Definition hh_add_raw (s : sketch) (k : key) (value : Z) : sketch :=
  let '(k', arr, key_len) := prep_key k in
  let t' := fold_left (fun t row => let col := bucket row k' in
                                    upd t row col (cell_add (t row col) arr key_len value))
                      (seq 0 depth) (tab s) in
  mkSk t' (n_added s + value) (n_records s) (cand s) (n_added_sort s) (thr_sort s).

(* HeavyHitters.add l.454-482: value = min(value, uint_maxval), passed as uint32 *)
Definition hh_add (s : sketch) (k : key) (v : Z) : sketch :=
  hh_add_raw s k (wrap32 (Z.min v hh_cap)).

(* _add_ngram l.114-157 (window loop = Ngram.ngram_windows), add_ngram l.506-536 *)
Definition hh_add_ngram (s : sketch) (k : key) (n : Z) : sketch :=
  fold_left (fun s w => hh_add_raw s w 1) (ngram_windows k n) s.

(* update l.484-504, update_ngram l.538-557 *)
Definition hh_update_list (s : sketch) (ks : list key) : sketch :=
  fold_left (fun s k => hh_add s k 1) ks s.
Definition hh_update_dict (s : sketch) (kvs : list (key * Z)) : sketch :=
  fold_left (fun s kv => hh_add s (fst kv) (snd kv)) kvs s.
Definition hh_update_ngram (s : sketch) (ks : list key) (n : Z) : sketch :=
  fold_left (fun s k => hh_add_ngram s k n) ks s.

(* _merge l.194-210, one cell *)
Definition cell_merge (a b : cell) : cell :=
  if keqb (ckey a) (ckey b) && (klen a =? klen b) then
    if cnt b >? hh_cap - cnt a then mkCell (ckey a) (klen a) hh_cap
    else mkCell (ckey a) (klen a) (wrap32 (cnt a + cnt b))
  else
    if cnt a >=? cnt b then mkCell (ckey a) (klen a) (wrap32 (cnt a - cnt b))
    else mkCell (ckey b) (klen b) (wrap32 (cnt b - cnt a)).

(* _merge l.176-214 (rows and columns are independent), merge l.559-597 after the guard *)
Definition hh_merge (s o : sketch) : sketch :=
  mkSk (fun r c => let a := tab s r c in      (* bound once: closure chains are walked once per read *)
                   if (r <? depth)%nat && (c <? width)%nat then cell_merge a (tab o r c) else a)
       (n_added s + n_added o) (n_records s + n_records o)
       (cand s) (n_added_sort s) (thr_sort s).

(* _max_count l.229-249 *)
Definition max_count (t : table) (k : key) (key_len : Z) : Z :=
  let arr := if key_len =? zL then k else pad k in
  fold_left (fun mc row =>
               let cl := t row (bucket row k) in
               if (klen cl =? key_len) && keqb arr (ckey cl) && (cnt cl >? mc) then cnt cl else mc)
            (seq 0 depth) 0.

(* __getitem__ l.779-803: key[:max_key_len], key_len passed as uint8 *)
Definition hh_get (s : sketch) (k : key) : Z :=
  let k' := firstn max_key_len k in max_count (tab s) k' (wrap8 (zlen k')).

(* generate_candidate_set l.755-777: loop body for one (row, column) *)
Definition gen_step (t : table) (thr : Z) (cs : cands) (rc : nat * nat) : cands :=
  let cl := t (fst rc) (snd rc) in
  if cnt cl =? 0 then cs
  else
    let key_len := klen cl in
    let k := firstn (Z.to_nat key_len) (ckey cl) in
    if cand_lookup cs k =? 0 then
      let mc := max_count t k key_len in
      if mc >=? thr then cand_set cs k mc else cs
    else cs.
Definition gen_cands (t : table) (thr : Z) : cands :=
  fold_left (gen_step t thr) (list_prod (seq 0 depth) (seq 0 width)) [].

(* l.444-447 / 745-748: threshold conversion *)
Definition thr_of (s : sketch) (thr : option Z) : Z :=
  wrap32 (match thr with
          | None => default_thr (n_added s)      (* np.uint32(self.phi * self.n_added()) *)
          | Some t => t                           (* np.uint32(threshold) *)
          end).

(* generate_candidate_set l.728-777 *)
Definition hh_generate (s : sketch) (thr : option Z) : sketch :=
  let threshold := thr_of s thr in
  mkSk (tab s) (n_added s) (n_records s) (gen_cands (tab s) threshold) (n_added s) threshold.

(* query l.425-452 *)
Definition hh_query (s : sketch) (k : option Z) (thr : option Z) : sketch * cands :=
  let threshold := thr_of s thr in
  let s' := if (n_added_sort s <? n_added s) || negb (thr_sort s =? threshold)
            then hh_generate s (Some threshold) else s in
  (s', most_common k (cand s')).

(* save l.599-623 writes width, depth, max_key_len, phi and the four arrays; load l.625-657
   builds a fresh sketch from them and calls generate_candidate_set() *)
Definition hh_load (s : sketch) : sketch :=
  hh_generate (mkSk (tab s) (n_added s) (n_records s) [] 0 0) None.

(* the matching rule before the F1 repair (bytes only), kept to document the finding *)
Definition cell_add_unfixed (cl : cell) (arr : key) (key_len value : Z) : cell :=
  if keqb arr (ckey cl) then
    if value <? hh_cap - cnt cl then mkCell (ckey cl) (klen cl) (wrap32 (cnt cl + value))
    else mkCell (ckey cl) (klen cl) hh_cap
  else
    if value >? cnt cl then mkCell arr (wrap8 key_len) (wrap32 (value - cnt cl))
    else mkCell (ckey cl) (klen cl) (wrap32 (cnt cl - value)).
Definition hh_add_unfixed (s : sketch) (k : key) (v : Z) : sketch :=
  let value := wrap32 (Z.min v hh_cap) in
  let '(k', arr, key_len) := prep_key k in
  let t' := fold_left (fun t row => let col := bucket row k' in
                                    upd t row col (cell_add_unfixed (t row col) arr key_len value))
                      (seq 0 depth) (tab s) in
  mkSk t' (n_added s + value) (n_records s) (cand s) (n_added_sort s) (thr_sort s).
Definition max_count_unfixed (t : table) (k : key) (key_len : Z) : Z :=
  let arr := if key_len =? zL then k else pad k in
  fold_left (fun mc row =>
               let cl := t row (bucket row k) in
               if keqb arr (ckey cl) && (cnt cl >? mc) then cnt cl else mc)
            (seq 0 depth) 0.
Definition hh_get_unfixed (s : sketch) (k : key) : Z :=
  let k' := firstn max_key_len k in max_count_unfixed (tab s) k' (wrap8 (zlen k')).

(* ---- histories ---- *)
Inductive hist :=
| HEmpty
| HAdd (h : hist) (k : key) (v : Z)                 (* hh.add(k, v) *)
| HNgram (h : hist) (k : key) (n : Z)               (* hh.add_ngram(k, n) *)
| HMerge (h1 h2 : hist)                             (* hh1.merge(hh2) *)
| HSaveLoad (h : hist)                              (* HeavyHitters.load(save(hh)) *)
| HQuery (h : hist) (thr : option Z)                (* hh.query(k, thr): the state does not depend on k *)
| HGen (h : hist) (thr : option Z).                 (* hh.generate_candidate_set(thr) *)

Fixpoint eval (h : hist) : sketch :=
  match h with
  | HEmpty => hh_empty
  | HAdd h k v => hh_add (eval h) k v
  | HNgram h k n => hh_add_ngram (eval h) k n
  | HMerge h1 h2 => hh_merge (eval h1) (eval h2)
  | HSaveLoad h => hh_load (eval h)
  | HQuery h thr => fst (hh_query (eval h) None thr)
  | HGen h thr => hh_generate (eval h) thr
  end.

Fixpoint eval_unfixed (h : hist) : sketch :=
  match h with
  | HEmpty => hh_empty
  | HAdd h k v => hh_add_unfixed (eval_unfixed h) k v
  | HNgram h k n => fold_left (fun s w => hh_add_unfixed s w 1) (ngram_windows k n) (eval_unfixed h)
  | HMerge h1 h2 => hh_merge (eval_unfixed h1) (eval_unfixed h2)
  | HSaveLoad h => eval_unfixed h
  | HQuery h thr => eval_unfixed h
  | HGen h thr => eval_unfixed h
  end.

(* entry points that are not constructors *)
Definition HUpdateList (h : hist) (ks : list key) : hist := fold_left (fun h k => HAdd h k 1) ks h.
Definition HUpdateDict (h : hist) (kvs : list (key * Z)) : hist :=
  fold_left (fun h kv => HAdd h (fst kv) (snd kv)) kvs h.
Definition HUpdateNgram (h : hist) (ks : list key) (n : Z) : hist :=
  fold_left (fun h k => HNgram h k n) ks h.
(* an ngram add as unit adds of its windows *)
Definition HWindows (h : hist) (k : key) (n : Z) : hist :=
  fold_left (fun h w => HAdd h w 1) (ngram_windows k n) h.

(* weighted leaves of a history: (key as passed, multiplicity as passed) *)
Fixpoint leaves (h : hist) : list (key * Z) :=
  match h with
  | HEmpty => []
  | HAdd h k v => leaves h ++ [(k, v)]
  | HNgram h k n => leaves h ++ map (fun w => (w, 1)) (ngram_windows k n)
  | HMerge h1 h2 => leaves h1 ++ leaves h2
  | HSaveLoad h => leaves h
  | HQuery h _ => leaves h
  | HGen h _ => leaves h
  end.
Definition wsum (f : key -> bool) (l : list (key * Z)) : Z :=
  fold_right (fun kv acc => (if f (fst kv) then snd kv else 0) + acc) 0 l.
(* true multiplicity of the key identity x (a byte list of length <= max_key_len) *)
Definition truth (h : hist) (x : key) : Z := wsum (fun k => keqb (ident k) x) (leaves h).
(* total multiplicity of the keys whose column in row r is c *)
Definition mass (h : hist) (r c : nat) : Z := wsum (fun k => (bucket r (ident k) =? c)%nat) (leaves h).
Definition total (h : hist) : Z := wsum (fun _ => true) (leaves h).

(* well formed: multiplicities are non-negative and keys are shorter than 2^64 bytes, the range of
   np.uint64(len(key)) (shape agreement of merged sketches is built in: width, depth and
   max_key_len are section variables) *)
Fixpoint wf (h : hist) : Prop :=
  match h with
  | HEmpty => True
  | HAdd h k v => wf h /\ 0 <= v /\ zlen k < 2^64
  | HNgram h k _ => wf h /\ zlen k < 2^64
  | HMerge h1 h2 => wf h1 /\ wf h2
  | HSaveLoad h => wf h
  | HQuery h _ => wf h
  | HGen h _ => wf h
  end.

(* the cache-free view used by C03/C04: stored key of a cell *)
Definition stored (cl : cell) : key := firstn (Z.to_nat (klen cl)) (ckey cl).

(* a state is reachable when some well formed history produces it *)
Definition reachable (st : sketch) : Prop := exists h, wf h /\ st = eval h.
(* potential of key x in a cell (C04): +count when the cell stores x, -count otherwise *)
Definition phi (x : key) (cl : cell) : Z := if keqb x (stored cl) then cnt cl else - cnt cl.

(* harness helper: tabulate a table so that closure chains do not grow with the history *)
Definition hh_freeze (s : sketch) : sketch :=
  let l := map (fun r => map (fun c => tab s r c) (seq 0 width)) (seq 0 depth) in
  mkSk (fun r c => nth c (nth r l []) empty_cell)
       (n_added s) (n_records s) (cand s) (n_added_sort s) (thr_sort s).

End HH.

(* ---- executable default threshold: np.uint32(np.float64 phi * np.uint64 n) ----
   binary64 product (PrimFloat, bit exact) and truncation toward zero; the C cast
   float64 -> uint32, as observed on this platform for values below 2^63, wraps modulo 2^32
   (the wrap32 of thr_of) *)
Definition float_trunc (f : float) : Z :=
  match Prim2SF f with
  | S754_finite s m e =>
      let v := if e >=? 0 then Z.shiftl (Zpos m) e else Z.shiftr (Zpos m) (- e) in
      if s then - v else v
  | _ => 0
  end.
Definition float_default_thr (phi : float) (n : Z) : Z :=
  float_trunc (PrimFloat.mul phi (PrimFloat.of_uint63 (Uint63.of_Z n))).

(* ---- harness-facing runner: a program over up to four sketches (registers) ----
   numbers in case files are primitive 63-bit integers (fast to parse); big values are
   little-endian lists of 60-bit limbs *)
Definition zi (i : int) : Z := Uint63.to_Z i.
Definition ni (i : int) : nat := Z.to_nat (Uint63.to_Z i).
Definition ki (k : list int) : key := map zi k.
Definition oi (o : option int) : option Z := match o with None => None | Some i => Some (zi i) end.
Fixpoint limbs (l : list int) : Z :=
  match l with [] => 0 | w :: r => zi w + Z.shiftl (limbs r) 60 end.

Inductive wop :=
| OAdd (i : int) (k : list int) (v : int)
| OUpdList (i : int) (ks : list (list int))
| OUpdDict (i : int) (kvs : list (list int * int))
| ONgram (i : int) (k : list int) (n : int)
| OUpdNgram (i : int) (ks : list (list int)) (n : int)
| OMerge (i j : int)
| OSaveLoad (i : int)
| OQuery (i : int) (k thr : option int)
| OGen (i : int) (thr : option int)
| OGet (i : int) (k : list int).

(* observation after an operation on register i: table code, n_added, n_records,
   candidate_set, n_added_sort, threshold_sort, result (hh[k] or the query answer) *)
Definition obs := (list int * int * int * list int * int * int * list int)%type.

Section Run.
Variable width depth max_key_len : nat.
Variable bucket : nat -> key -> nat.
Variable dthr : Z -> Z.

Definition cell_code (cl : cell) : Z :=
  cnt cl + Z.shiftl (klen cl + 256 * le_decode (ckey cl)) 32.
Definition tab_code (t : table) : Z :=
  let sh := 40 + 8 * Z.of_nat max_key_len in
  fold_left (fun acc rc => Z.shiftl acc sh + cell_code (t (fst rc) (snd rc)))
            (list_prod (seq 0 depth) (seq 0 width)) 1.
Definition flat_cands (cs : cands) : list Z :=
  flat_map (fun p => zlen (fst p) :: snd p :: fst p) cs.

Definition freeze := hh_freeze width depth max_key_len.
Definition getreg (regs : list sketch) (i : int) : sketch :=
  nth (ni i) regs (hh_empty max_key_len).
Fixpoint setreg (regs : list sketch) (i : nat) (s : sketch) : list sketch :=
  match regs, i with
  | [], _ => []
  | _ :: r, O => s :: r
  | x :: r, S j => x :: setreg r j s
  end.

Definition step (regs : list sketch) (o : wop) : list sketch * int * list Z :=
  let A := hh_add depth max_key_len bucket in
  match o with
  | OAdd i k v => (setreg regs (ni i) (freeze (A (getreg regs i) (ki k) (zi v))), i, [])
  | OUpdList i ks =>
      (setreg regs (ni i) (freeze (hh_update_list depth max_key_len bucket (getreg regs i) (map ki ks))), i, [])
  | OUpdDict i kvs =>
      (setreg regs (ni i) (freeze (hh_update_dict depth max_key_len bucket (getreg regs i)
                                     (map (fun kv => (ki (fst kv), zi (snd kv))) kvs))), i, [])
  | ONgram i k n =>
      (setreg regs (ni i) (freeze (hh_add_ngram depth max_key_len bucket (getreg regs i) (ki k) (zi n))), i, [])
  | OUpdNgram i ks n =>
      (setreg regs (ni i) (freeze (hh_update_ngram depth max_key_len bucket (getreg regs i) (map ki ks) (zi n))), i, [])
  | OMerge i j =>
      (setreg regs (ni i) (freeze (hh_merge width depth (getreg regs i) (getreg regs j))), i, [])
  | OSaveLoad i =>
      (setreg regs (ni i) (freeze (hh_load width depth max_key_len bucket dthr (getreg regs i))), i, [])
  | OQuery i k thr =>
      let '(s', ans) := hh_query width depth max_key_len bucket dthr (getreg regs i) (oi k) (oi thr) in
      (setreg regs (ni i) s', i, flat_cands ans)
  | OGen i thr =>
      (setreg regs (ni i) (hh_generate width depth max_key_len bucket dthr (getreg regs i) (oi thr)), i, [])
  | OGet i k => (regs, i, [hh_get depth max_key_len bucket (getreg regs i) (ki k)])
  end.

Fixpoint zl_eqb (a b : list Z) : bool :=
  match a, b with
  | [], [] => true
  | x :: a', y :: b' => (x =? y) && zl_eqb a' b'
  | _, _ => false
  end.

Definition obs_ok (s : sketch) (res : list Z) (e : obs) : bool :=
  let '(tc, na, nr, cs, nas, ts, er) := e in
  (tab_code (tab s) =? limbs tc) && (n_added s =? zi na) && (n_records s =? zi nr) &&
  zl_eqb (flat_cands (cand s)) (map zi cs) && (n_added_sort s =? zi nas) && (thr_sort s =? zi ts) &&
  zl_eqb res (map zi er).

(* index (from 0) of the first operation after which model and implementation differ; -1 if none *)
Fixpoint run_from (regs : list sketch) (prog : list (wop * obs)) (idx : Z) : Z :=
  match prog with
  | [] => -1
  | (o, e) :: rest =>
      let '(regs', i, res) := step regs o in
      if obs_ok (getreg regs' i) res e then run_from regs' rest (idx + 1) else idx
  end.
Definition init_regs : list sketch := repeat (hh_empty max_key_len) 4.

(* what the model computes at step idx (for diagnostics) *)
Fixpoint run_show (regs : list sketch) (prog : list (wop * obs)) (idx : Z)
  : Z * Z * Z * list Z * Z * Z * list Z :=
  match prog with
  | [] => (0, 0, 0, [], 0, 0, [])
  | (o, e) :: rest =>
      let '(regs', i, res) := step regs o in
      if idx =? 0 then
        let s := getreg regs' i in
        (tab_code (tab s), n_added s, n_records s, flat_cands (cand s), n_added_sort s, thr_sort s, res)
      else run_show regs' rest (idx - 1)
  end.
End Run.

Definition bucket_of (m : list (list int * list int)) : nat -> key -> nat :=
  let m' := map (fun p => (ki (fst p), map ni (snd p))) m in
  fun r k =>
    (fix look (l : list (key * list nat)) : nat :=
       match l with
       | [] => O
       | (k', cols) :: rest => if keqb k' k then nth r cols O else look rest
       end) m'.

(* a case: width, depth, max_key_len, phi, observed bucket map, program with observations *)
Definition hh_case := (int * int * int * float * list (list int * list int) * list (wop * obs))%type.
Definition run_case (c : hh_case) : Z :=
  let '(w, d, L, phi, bm, prog) := c in
  run_from (ni w) (ni d) (ni L) (bucket_of bm) (float_default_thr phi)
           (init_regs (ni L)) prog 0.
Definition check_case (c : hh_case) : bool := run_case c =? -1.
(* the observed bucket map stays below width: the hypothesis `bucket r k < width` of the theorems, decided for the
   instance the runner executes (HHRunnerProofs.bucket_of_lt) *)
Definition cols_ok (w : nat) (m : list (list int * list int)) : bool :=
  (0 <? w)%nat && forallb (fun p => forallb (fun c => (ni c <? w)%nat) (snd p)) m.
Definition check_case_strict (c : hh_case) : bool :=
  let '(w, d, L, phi, bm, prog) := c in cols_ok (ni w) bm && check_case c.
Definition show_case (c : hh_case) (idx : Z) :=
  let '(w, d, L, phi, bm, prog) := c in
  run_show (ni w) (ni d) (ni L) (bucket_of bm) (float_default_thr phi)
           (init_regs (ni L)) prog idx.

(* typed constructors for case files (they give the elaborator the expected types) *)
Definition mkobs (o : wop) (tc : list int) (na nr : int) (cs : list int) (nas ts : int) (res : list int)
  : wop * obs := (o, (tc, na, nr, cs, nas, ts, res)).
Definition mkcase (w d L : int) (phi : float) (bm : list (list int * list int)) (prog : list (wop * obs))
  : hh_case := (w, d, L, phi, bm, prog).
