(* CmsLogProofs.v — integer / structural facts about the log-counter model CmsLog.v, for every
   bucket function, every pair of float tables and every draw stream.  Standard library only. *)
From Coq Require Import ZArith List Lia Bool ZifyBool Arith.
From Coq Require Import Floats.PrimFloat.
From Sketchnu Require Import Machine BitLemmas Consts Ngram NgramProofs CmsLog.
Import ListNotations.
Open Scope Z_scope.

(* ================================================================== random source *)
Lemma draw_ok_zero : draw_ok f_zero.
Proof. reflexivity. Qed.

Lemma Forall_nth_default {A} (P : A -> Prop) l i d : Forall P l -> P d -> P (nth i l d).
Proof.
  intros Hl Hd. destruct (lt_dec i (length l)) as [H|H].
  - apply Forall_nth; assumption.
  - rewrite nth_overflow by lia. exact Hd.
Qed.

Lemma rand_draws_ok rs : rs_draws_ok rs -> draw_ok (fst (rand rs)) /\ rs_draws_ok (snd (rand rs)).
Proof.
  intros [Hb Hf]. unfold rand. destruct (rptr rs =? rand_batch_cmp).
  - cbn [fst snd]. destruct (rfuture rs) as [|b fs]; cbn [hd tl].
    + split; [|split; constructor]. unfold znth. apply Forall_nth_default; [constructor|exact draw_ok_zero].
    + inversion Hf; subst. split; [|split; assumption].
      unfold znth. apply Forall_nth_default; [assumption|exact draw_ok_zero].
  - cbn [fst snd]. split; [|split; assumption].
    unfold znth. apply Forall_nth_default; [assumption|exact draw_ok_zero].
Qed.

Lemma snd_draws_S m rs : snd (draws (S m) rs) = snd (draws m (snd (rand rs))).
Proof.
  cbn [draws]. destruct (rand rs) as [x rs1]. cbn [snd]. destruct (draws m rs1). reflexivity.
Qed.

Lemma fst_draws_S m rs : fst (draws (S m) rs) = fst (rand rs) :: fst (draws m (snd (rand rs))).
Proof.
  cbn [draws]. destruct (rand rs) as [x rs1]. cbn [fst snd]. destruct (draws m rs1). reflexivity.
Qed.

Lemma draws_draws_ok m : forall rs, rs_draws_ok rs ->
  Forall draw_ok (fst (draws m rs)) /\ rs_draws_ok (snd (draws m rs)).
Proof.
  induction m as [|m IH]; intros rs H; [split; [constructor|exact H]|].
  rewrite fst_draws_S, snd_draws_S. destruct (rand_draws_ok rs H) as [H1 H2].
  destruct (IH _ H2). split; [constructor|]; assumption.
Qed.

(* ---- the stream discipline of _rand (C06 d) ---- *)
Section RandStream.
(* obligations on the constants re-read from the source (discharged in props/C06.v) *)
Hypothesis cmp_gen : rand_batch_cmp = rand_batch_gen.
Hypothesis gen_pos : 1 <= rand_batch_gen.

Definition rs_wf (rs : rsrc) : Prop :=
  length (rbatch rs) = Z.to_nat rand_batch_gen /\ 0 <= rptr rs <= rand_batch_gen /\
  Forall (fun b => length b = Z.to_nat rand_batch_gen) (rfuture rs).

Lemma skipn_nth_cons {A} (l : list A) i d : (i < length l)%nat -> skipn i l = nth i l d :: skipn (S i) l.
Proof.
  revert l; induction i as [|i IH]; intros [|x l] H; cbn [length] in H; try lia; [reflexivity|].
  cbn [skipn nth]. rewrite (IH l) by lia. reflexivity.
Qed.

Lemma rand_pending rs : rs_wf rs -> pending rs <> [] ->
  pending rs = fst (rand rs) :: pending (snd (rand rs)) /\ rs_wf (snd (rand rs)) /\
  1 <= rptr (snd (rand rs)) <= rand_batch_gen.
Proof.
  intros (Hl & Hp & Hf) Hne. unfold rand. destruct (rptr rs =? rand_batch_cmp) eqn:E.
  - apply Z.eqb_eq in E. rewrite cmp_gen in E. cbn [fst snd].
    unfold pending in *. rewrite E in *. rewrite skipn_all2 in * by lia. cbn [app] in *.
    destruct (rfuture rs) as [|b fs]; [exfalso; apply Hne; reflexivity|].
    inversion Hf as [|? ? Hb Hfs]; subst. cbn [hd tl rbatch rptr rfuture concat].
    destruct b as [|x0 b']; [cbn [length] in Hb; lia|].
    unfold rs_wf. cbn [rbatch rptr rfuture].
    split; [|split; [split; [assumption|split; [lia|assumption]]|lia]].
    reflexivity.
  - apply Z.eqb_neq in E. rewrite cmp_gen in E. cbn [fst snd rbatch rptr rfuture].
    unfold pending, rs_wf. cbn [rbatch rptr rfuture].
    split; [|split; [split; [assumption|split; [lia|assumption]]|lia]].
    rewrite (skipn_nth_cons (rbatch rs) (Z.to_nat (rptr rs)) f_zero) by lia.
    unfold znth. replace (Z.to_nat (rptr rs + 1 - 1)) with (Z.to_nat (rptr rs)) by lia.
    replace (Z.to_nat (rptr rs + 1)) with (S (Z.to_nat (rptr rs))) by lia. reflexivity.
Qed.

(* n successive calls return the next n pending values, in order; what is left pending is the
   rest (nothing is skipped, nothing is read twice); the pointer stays in 1..2048 *)
Theorem rand_stream n : forall rs, rs_wf rs -> (n <= length (pending rs))%nat ->
  fst (draws n rs) = firstn n (pending rs) /\
  pending (snd (draws n rs)) = skipn n (pending rs) /\
  rs_wf (snd (draws n rs)) /\
  ((1 <= n)%nat -> 1 <= rptr (snd (draws n rs)) <= rand_batch_gen).
Proof.
  induction n as [|n IH]; intros rs Hwf Hn.
  - cbn [draws fst snd firstn skipn]. repeat split; try apply Hwf; lia.
  - assert (Hne : pending rs <> []) by (intros E; rewrite E in Hn; cbn [length] in Hn; lia).
    destruct (rand_pending rs Hwf Hne) as (Hp & Hwf1 & Hptr).
    rewrite fst_draws_S, snd_draws_S. rewrite Hp in Hn |- *. cbn [length] in Hn.
    destruct (IH (snd (rand rs)) Hwf1 ltac:(lia)) as (I1 & I2 & I3 & I4).
    cbn [firstn skipn]. rewrite I1. split; [reflexivity|]. split; [assumption|]. split; [assumption|].
    intros _. destruct n as [|n']; [cbn [draws snd]; lia|apply I4; lia].
Qed.
End RandStream.

(* ================================================================== _log_counter *)
Section LogCounter.
Variable nr umax : Z.
Variable powneg : Z -> float.
Notation lc_step := (lc_step nr umax powneg).
Notation lc_iter_nat := (lc_iter_nat nr umax powneg).
Notation lc_iter_pos := (lc_iter_pos nr umax powneg).
Notation log_counter := (log_counter nr umax powneg).

Lemma lc_step_cases c rs :
  lc_step (c, rs) =
  if c >=? umax then None
  else if c - nr <? 0 then Some (c + 1, rs)
  else Some (c + (if PrimFloat.ltb (fst (rand rs)) (powneg (c - nr)) then 1 else 0), snd (rand rs)).
Proof.
  unfold CmsLog.lc_step. destruct (c >=? umax); [reflexivity|]. destruct (c - nr <? 0); [reflexivity|].
  destruct (rand rs) as [r rs']. cbn [fst snd]. destruct (PrimFloat.ltb r (powneg (c - nr))); [reflexivity|].
  rewrite Z.add_0_r. reflexivity.
Qed.

Lemma lc_iter_nat_stuck n st : lc_step st = None -> lc_iter_nat n st = st.
Proof. intros H. destruct n; cbn [CmsLog.lc_iter_nat]; [reflexivity|]. rewrite H. reflexivity. Qed.

Lemma lc_iter_nat_add n m st : lc_iter_nat (n + m) st = lc_iter_nat m (lc_iter_nat n st).
Proof.
  revert st; induction n as [|n IH]; intros st; [reflexivity|].
  cbn [Nat.add CmsLog.lc_iter_nat]. destruct (lc_step st) as [st'|] eqn:E.
  - apply IH.
  - symmetry. apply lc_iter_nat_stuck. exact E.
Qed.

(* the binary-numeral loop is the unary loop; an early return means the state is stuck *)
Lemma lc_iter_pos_spec p : forall st b st', lc_iter_pos p st = (b, st') ->
  st' = lc_iter_nat (Pos.to_nat p) st /\ (b = true -> lc_step st' = None).
Proof.
  induction p as [q IH|q IH|]; intros st b st' H; cbn [CmsLog.lc_iter_pos] in H.
  - rewrite Pos2Nat.inj_xI.
    replace (S (2 * Pos.to_nat q)) with (S (Pos.to_nat q + Pos.to_nat q)) by lia.
    cbn [CmsLog.lc_iter_nat].
    destruct (lc_step st) as [st0|] eqn:E0.
    + destruct (lc_iter_pos q st0) as [stop st1] eqn:E1. apply IH in E1. destruct E1 as [-> Hs1].
      rewrite lc_iter_nat_add. destruct stop.
      * inversion H; subst. split; [|auto]. symmetry. apply lc_iter_nat_stuck. auto.
      * apply IH in H. exact H.
    + inversion H; subst. split; auto.
  - rewrite Pos2Nat.inj_xO.
    replace (2 * Pos.to_nat q)%nat with (Pos.to_nat q + Pos.to_nat q)%nat by lia.
    destruct (lc_iter_pos q st) as [stop st1] eqn:E1. apply IH in E1. destruct E1 as [-> Hs1].
    rewrite lc_iter_nat_add. destruct stop.
    + inversion H; subst. split; [|auto]. symmetry. apply lc_iter_nat_stuck. auto.
    + apply IH in H. exact H.
  - change (Pos.to_nat 1) with 1%nat. cbn [CmsLog.lc_iter_nat].
    destruct (lc_step st) as [st0|] eqn:E0; inversion H; subst; split; auto; discriminate.
Qed.

Theorem log_counter_nat_eq c rs v : log_counter c rs v = lc_iter_nat (Z.to_nat v) (c, rs).
Proof.
  unfold CmsLog.log_counter. destruct v as [|p|p]; [reflexivity| |reflexivity].
  destruct (lc_iter_pos p (c, rs)) as [b st'] eqn:E. apply lc_iter_pos_spec in E.
  cbn [snd]. rewrite Z2Nat.inj_pos. apply E.
Qed.

(* ---- range: the counter only goes up, by at most one per iteration, never past the ceiling ---- *)
Lemma lc_nat_range n : forall c rs,
  c <= fst (lc_iter_nat n (c, rs)) <= c + Z.of_nat n /\
  (c <= umax -> fst (lc_iter_nat n (c, rs)) <= umax).
Proof.
  induction n as [|n IH]; intros c rs.
  - cbn [CmsLog.lc_iter_nat fst]. lia.
  - cbn [CmsLog.lc_iter_nat]. rewrite lc_step_cases.
    destruct (c >=? umax) eqn:E1; [cbn [fst]; lia|].
    destruct (c - nr <? 0) eqn:E2.
    + specialize (IH (c + 1) rs). lia.
    + destruct (PrimFloat.ltb _ _).
      * specialize (IH (c + 1) (snd (rand rs))). lia.
      * specialize (IH (c + 0) (snd (rand rs))). lia.
Qed.

(* at or above the ceiling the loop returns at once and consumes nothing *)
Lemma lc_nat_ceiling n c rs : umax <= c -> lc_iter_nat n (c, rs) = (c, rs).
Proof.
  intros H. apply lc_iter_nat_stuck. rewrite lc_step_cases.
  destruct (c >=? umax) eqn:E; [reflexivity|lia].
Qed.

(* the draws consumed are a prefix of the stream: the final source is the initial one after m calls *)
Lemma lc_nat_draws n : forall c rs, exists m, (m <= n)%nat /\
  snd (lc_iter_nat n (c, rs)) = snd (draws m rs).
Proof.
  induction n as [|n IH]; intros c rs.
  - exists 0%nat. split; [lia|reflexivity].
  - cbn [CmsLog.lc_iter_nat]. rewrite lc_step_cases.
    destruct (c >=? umax); [exists 0%nat; split; [lia|reflexivity]|].
    destruct (c - nr <? 0).
    + destruct (IH (c + 1) rs) as (m & Hm & E). exists m. split; [lia|exact E].
    + destruct (IH (c + (if PrimFloat.ltb (fst (rand rs)) (powneg (c - nr)) then 1 else 0)) (snd (rand rs)))
        as (m & Hm & E).
      exists (S m). split; [lia|]. rewrite snd_draws_S. exact E.
Qed.

Lemma lc_nat_draws_ok n c rs : rs_draws_ok rs -> rs_draws_ok (snd (lc_iter_nat n (c, rs))).
Proof.
  intros H. destruct (lc_nat_draws n c rs) as (m & _ & ->). apply draws_draws_ok. exact H.
Qed.

(* ---- the reserved range (C06 a) ---- *)
Hypothesis nr_lt_umax : nr < umax.
Hypothesis powneg0 : powneg 0 = f_one.

(* below num_reserved: exactly one step per iteration and no draw *)
Lemma lc_nat_reserved_nodraw n : forall c rs, c + Z.of_nat n <= nr ->
  lc_iter_nat n (c, rs) = (c + Z.of_nat n, rs).
Proof.
  induction n as [|n IH]; intros c rs H.
  - cbn [CmsLog.lc_iter_nat]. f_equal. lia.
  - cbn [CmsLog.lc_iter_nat]. rewrite lc_step_cases.
    destruct (c >=? umax) eqn:E1; [lia|]. destruct (c - nr <? 0) eqn:E2; [|lia].
    rewrite IH by lia. f_equal. lia.
Qed.

(* at num_reserved: one draw, and the test rand < base**0 = 1.0 succeeds for every draw in [0,1) *)
Lemma lc_step_at_nr rs : rs_draws_ok rs -> lc_step (nr, rs) = Some (nr + 1, snd (rand rs)).
Proof.
  intros H. rewrite lc_step_cases. destruct (nr >=? umax) eqn:E1; [lia|].
  destruct (nr - nr <? 0) eqn:E2; [lia|]. rewrite Z.sub_diag, powneg0.
  destruct (rand_draws_ok rs H) as [Hd _]. unfold draw_ok in Hd. rewrite Hd. reflexivity.
Qed.

Lemma lc_nat_reserved_last n c rs : rs_draws_ok rs -> (1 <= n)%nat -> c + Z.of_nat n = nr + 1 ->
  lc_iter_nat n (c, rs) = (nr + 1, snd (rand rs)).
Proof.
  intros Hd Hn H. replace n with ((n - 1) + 1)%nat by lia. rewrite lc_iter_nat_add.
  rewrite lc_nat_reserved_nodraw by lia. replace (c + Z.of_nat (n - 1)) with nr by lia.
  cbn [CmsLog.lc_iter_nat]. rewrite lc_step_at_nr by assumption. reflexivity.
Qed.

Lemma lc_nat_reserved n c rs : rs_draws_ok rs -> c + Z.of_nat n <= nr + 1 ->
  fst (lc_iter_nat n (c, rs)) = c + Z.of_nat n.
Proof.
  intros Hd H. destruct (Z_le_gt_dec (c + Z.of_nat n) nr).
  - rewrite lc_nat_reserved_nodraw by assumption. reflexivity.
  - destruct n as [|n']; [cbn [CmsLog.lc_iter_nat fst]; lia|].
    rewrite lc_nat_reserved_last by (try assumption; lia). cbn [fst]. lia.
Qed.

(* lower bound for all draw streams: min(c + n, nr + 1) is always reached *)
Lemma lc_nat_lower n c rs : rs_draws_ok rs ->
  Z.min (c + Z.of_nat n) (nr + 1) <= fst (lc_iter_nat n (c, rs)).
Proof.
  intros Hd. destruct (Z_le_gt_dec (c + Z.of_nat n) (nr + 1)).
  - rewrite lc_nat_reserved by assumption. lia.
  - destruct (Z_le_gt_dec (nr + 1) c).
    + pose proof (lc_nat_range n c rs). lia.
    + (* split n = m + rest with c + m = nr + 1 *)
      set (m := Z.to_nat (nr + 1 - c)).
      replace n with (m + (n - m))%nat by lia. rewrite lc_iter_nat_add.
      assert (Hm : c + Z.of_nat m = nr + 1) by lia.
      rewrite (lc_nat_reserved_last m c rs) by (try assumption; lia).
      pose proof (lc_nat_range (n - m) (nr + 1) (snd (rand rs))). lia.
Qed.

End LogCounter.

(* ---- statements on log_counter itself (any multiplicity, binary loop) ---- *)
Section LogCounterZ.
Variable nr umax : Z.
Variable powneg : Z -> float.
Notation log_counter := (log_counter nr umax powneg).

Theorem log_counter_range c rs v : 0 <= v ->
  c <= fst (log_counter c rs v) <= c + v /\ (c <= umax -> fst (log_counter c rs v) <= umax).
Proof.
  intros Hv. rewrite log_counter_nat_eq. pose proof (lc_nat_range nr umax powneg (Z.to_nat v) c rs). lia.
Qed.

Theorem log_counter_ceiling c rs v : umax <= c -> log_counter c rs v = (c, rs).
Proof. intros H. rewrite log_counter_nat_eq. apply lc_nat_ceiling. exact H. Qed.

Theorem log_counter_draws c rs v : exists m, (m <= Z.to_nat v)%nat /\
  snd (log_counter c rs v) = snd (draws m rs).
Proof. rewrite log_counter_nat_eq. apply lc_nat_draws. Qed.

Theorem log_counter_draws_ok c rs v : rs_draws_ok rs -> rs_draws_ok (snd (log_counter c rs v)).
Proof. rewrite log_counter_nat_eq. apply lc_nat_draws_ok. Qed.

(* v iterations = v1 iterations followed by v2 iterations on the resulting counter and source *)
Theorem log_counter_split c rs v1 v2 : 0 <= v1 -> 0 <= v2 ->
  log_counter c rs (v1 + v2) =
  log_counter (fst (log_counter c rs v1)) (snd (log_counter c rs v1)) v2.
Proof.
  intros H1 H2. rewrite !log_counter_nat_eq. rewrite Z2Nat.inj_add by assumption.
  rewrite lc_iter_nat_add. destruct (lc_iter_nat nr umax powneg (Z.to_nat v1) (c, rs)). reflexivity.
Qed.

Hypothesis nr_lt_umax : nr < umax.
Hypothesis powneg0 : powneg 0 = f_one.

(* C06 (a): in the reserved range the counter advances by exactly v; no draw is consumed while the
   result stays <= num_reserved, exactly one (the always-successful test at c = nr) otherwise *)
Theorem log_counter_reserved c rs v : rs_draws_ok rs -> 0 <= v -> c + v <= nr + 1 ->
  log_counter c rs v = (c + v, if (1 <=? v) && (c + v =? nr + 1) then snd (rand rs) else rs).
Proof.
  intros Hd Hv H. rewrite log_counter_nat_eq.
  destruct ((1 <=? v) && (c + v =? nr + 1)) eqn:E.
  - rewrite (lc_nat_reserved_last nr umax powneg nr_lt_umax powneg0 (Z.to_nat v) c rs) by (try assumption; lia).
    f_equal. lia.
  - destruct (Z.eq_dec v 0) as [->|Hv0]; [cbn [Z.to_nat CmsLog.lc_iter_nat]; f_equal; lia|].
    rewrite (lc_nat_reserved_nodraw nr umax powneg nr_lt_umax (Z.to_nat v) c rs) by lia.
    f_equal. lia.
Qed.

Theorem log_counter_lower c rs v : rs_draws_ok rs -> 0 <= v ->
  Z.min (c + v) (nr + 1) <= fst (log_counter c rs v).
Proof.
  intros Hd Hv. rewrite log_counter_nat_eq.
  pose proof (lc_nat_lower nr umax powneg nr_lt_umax powneg0 (Z.to_nat v) c rs Hd). lia.
Qed.

End LogCounterZ.

(* ================================================================== sketch level *)
Section Sketch.
Variable width depth : nat.
Variable bucket : nat -> key -> nat.
Variable nr umax max_count : Z.
Variable powneg decode : Z -> float.
Variable castc : Z -> Z.
Hypothesis bucket_lt : forall r k, (bucket r k < width)%nat.
Hypothesis umax_nonneg : 0 <= umax.
(* storing a value that fits the counter type does not change it (wrap8 / wrap16 on 0..umax) *)
Hypothesis castc_id : forall x, 0 <= x <= umax -> castc x = x.

Notation lqrows := (lqrows bucket).
Notation lquery_t := (lquery_t depth bucket umax).
Notation lquery := (lquery depth bucket umax).
Notation log_counter := (log_counter nr umax powneg).
Notation add_log := (add_log depth bucket nr umax powneg castc).
Notation lcls_add := (lcls_add depth bucket nr umax powneg castc).
Notation ladd_ngram := (ladd_ngram depth bucket nr umax powneg castc).
Notation lupdate_list := (lupdate_list depth bucket nr umax powneg castc).
Notation lupdate_dict := (lupdate_dict depth bucket nr umax powneg castc).
Notation lupdate_ngram := (lupdate_ngram depth bucket nr umax powneg castc).
Notation merge_cell := (merge_cell nr umax max_count decode castc).
Notation merge_log := (merge_log nr umax max_count decode castc).
Notation lsaveload := (lsaveload width depth).
Notation leval := (leval width depth bucket nr umax max_count powneg decode castc).
Notation laeval := (laeval width depth bucket nr umax max_count powneg decode castc).
Notation lestimate := (lestimate depth bucket umax decode).

(* ---------- lqrows ---------- *)
Lemma lqrows_le_acc t k rows acc : lqrows t k rows acc <= acc.
Proof.
  revert acc; induction rows as [|r rs IH]; intros acc; cbn [CmsLog.lqrows]; [lia|].
  specialize (IH (if t r (bucket r k) <? acc then t r (bucket r k) else acc)).
  destruct (_ <? _) eqn:?; lia.
Qed.

Lemma lqrows_le_cell t k rows acc r : In r rows -> lqrows t k rows acc <= t r (bucket r k).
Proof.
  revert acc; induction rows as [|r' rs IH]; intros acc Hin; [destruct Hin|].
  cbn [CmsLog.lqrows]. destruct Hin as [->|Hin]; [|apply IH; exact Hin].
  pose proof (lqrows_le_acc t k rs (if t r (bucket r k) <? acc then t r (bucket r k) else acc)).
  destruct (_ <? _) eqn:?; lia.
Qed.

Lemma lqrows_ge t k rows acc lo :
  lo <= acc -> (forall r, In r rows -> lo <= t r (bucket r k)) -> lo <= lqrows t k rows acc.
Proof.
  revert acc; induction rows as [|r rs IH]; intros acc Ha H; cbn [CmsLog.lqrows]; [lia|].
  apply IH; [|intros; apply H; right; assumption].
  specialize (H r (or_introl eq_refl)). destruct (_ <? _); lia.
Qed.

Lemma lqrows_mono t t' k rows : forall acc acc',
  acc <= acc' -> (forall r, In r rows -> t r (bucket r k) <= t' r (bucket r k)) ->
  lqrows t k rows acc <= lqrows t' k rows acc'.
Proof.
  induction rows as [|r rs IH]; intros acc acc' Ha H; cbn [CmsLog.lqrows]; [lia|].
  apply IH; [|intros; apply H; right; assumption].
  specialize (H r (or_introl eq_refl)).
  destruct (t r (bucket r k) <? acc) eqn:?; destruct (t' r (bucket r k) <? acc') eqn:?; lia.
Qed.

Lemma lqrows_ext t t' k rows acc :
  (forall r, In r rows -> t r (bucket r k) = t' r (bucket r k)) -> lqrows t k rows acc = lqrows t' k rows acc.
Proof.
  intros H. apply Z.le_antisymm; apply lqrows_mono; try lia; intros r Hr; rewrite (H r Hr); lia.
Qed.

(* min over rows of max(cell, nw) = max(min over rows, nw) *)
Lemma lqrows_max t t' k nw rows : forall acc,
  (forall r, In r rows -> t' r (bucket r k) = Z.max (t r (bucket r k)) nw) ->
  lqrows t' k rows (Z.max acc nw) = Z.max (lqrows t k rows acc) nw.
Proof.
  induction rows as [|r rs IH]; intros acc H; cbn [CmsLog.lqrows]; [reflexivity|].
  rewrite (H r (or_introl eq_refl)).
  rewrite <- IH by (intros; apply H; right; assumption). f_equal.
  destruct (Z.max (t r (bucket r k)) nw <? Z.max acc nw) eqn:?; destruct (t r (bucket r k) <? acc) eqn:?; lia.
Qed.

Lemma lqrows_le_max t t' k nw rows : forall acc,
  (forall r, In r rows -> t' r (bucket r k) <= Z.max (t r (bucket r k)) nw) ->
  lqrows t' k rows (Z.max acc nw) <= Z.max (lqrows t k rows acc) nw.
Proof.
  intros acc H.
  set (tm := fun r c => Z.max (t r c) nw).
  rewrite <- (lqrows_max t tm k nw rows acc) by reflexivity.
  apply lqrows_mono; [lia|]. intros r Hr. unfold tm. apply H. exact Hr.
Qed.

Lemma lquery_le_umax s k : lquery s k <= umax.
Proof. unfold CmsLog.lquery, CmsLog.lquery_t. apply lqrows_le_acc. Qed.

Lemma lquery_le_cell s k r : (r < depth)%nat -> lquery s k <= lcms s r (bucket r k).
Proof. intros. unfold CmsLog.lquery, CmsLog.lquery_t. apply lqrows_le_cell. apply in_seq. lia. Qed.

Lemma lquery_ext a b k : (forall r c, lcms a r c = lcms b r c) -> lquery a k = lquery b k.
Proof. intros H. unfold CmsLog.lquery, CmsLog.lquery_t. apply lqrows_ext. intros; apply H. Qed.

(* ---------- the type invariant of the counter array ---------- *)
Definition lsk_ok (s : lsk) : Prop := forall r c, 0 <= lcms s r c <= umax.

Lemma lsk_ok_empty rs : lsk_ok (lempty rs).
Proof. intros r c. cbn. lia. Qed.

Lemma lquery_nonneg s k : lsk_ok s -> 0 <= lquery s k.
Proof.
  intros H. unfold CmsLog.lquery, CmsLog.lquery_t. apply lqrows_ge; [lia|]. intros r _. apply H.
Qed.

(* the new counter value computed by an add *)
Definition new_count (s : lsk) (k : key) (v : Z) : Z := fst (log_counter (lquery s k) (lrs s) v).

Lemma new_count_range s k v : lsk_ok s -> 0 <= v ->
  lquery s k <= new_count s k v <= Z.min (lquery s k + v) umax.
Proof.
  intros Hs Hv. unfold new_count.
  pose proof (log_counter_range nr umax powneg (lquery s k) (lrs s) v Hv).
  pose proof (lquery_le_umax s k). lia.
Qed.

(* add_log under the conditions of use: only the key's own cells move, each to max(cell, new) *)
Lemma add_log_cell s k v r c : lsk_ok s -> 0 <= v ->
  lcms (add_log s k v) r c =
  if (r <? depth)%nat && (c =? bucket r k)%nat then Z.max (lcms s r c) (new_count s k v) else lcms s r c.
Proof.
  intros Hs Hv. pose proof (new_count_range s k v Hs Hv) as Hn. pose proof (lquery_nonneg s k Hs) as H0.
  unfold new_count in *. unfold CmsLog.add_log.
  destruct (log_counter (lquery s k) (lrs s) v) as [nc rs'] eqn:E. cbn [fst] in *.
  rewrite castc_id by lia.
  destruct ((r <? depth)%nat && (c =? bucket r k)%nat) eqn:Eb.
  - apply andb_true_iff in Eb. destruct Eb as [Er Ec]. apply Nat.ltb_lt in Er. apply Nat.eqb_eq in Ec. subst c.
    pose proof (lquery_le_cell s k r Er).
    destruct (nc =? lquery s k) eqn:En; cbn [lcms]; [lia|].
    apply Nat.ltb_lt in Er. rewrite Er, Nat.eqb_refl. cbn [andb].
    destruct (lcms s r (bucket r k) <? nc) eqn:?; lia.
  - destruct (nc =? lquery s k); cbn [lcms]; [reflexivity|]. rewrite Eb. reflexivity.
Qed.

Lemma add_log_nadded s k v : ln_added (add_log s k v) = ln_added s + v.
Proof.
  unfold CmsLog.add_log. destruct (log_counter _ _ _) as [nc rs']. destruct (_ =? _); reflexivity.
Qed.

Lemma add_log_nrecords s k v : ln_records (add_log s k v) = ln_records s.
Proof.
  unfold CmsLog.add_log. destruct (log_counter _ _ _) as [nc rs']. destruct (_ =? _); reflexivity.
Qed.

Lemma add_log_rs s k v : lrs (add_log s k v) = snd (log_counter (lquery s k) (lrs s) v).
Proof.
  unfold CmsLog.add_log. destruct (log_counter _ _ _) as [nc rs']. destruct (_ =? _); reflexivity.
Qed.

Lemma lsk_ok_add s k v : lsk_ok s -> 0 <= v -> lsk_ok (add_log s k v).
Proof.
  intros Hs Hv r c. rewrite add_log_cell by assumption.
  pose proof (new_count_range s k v Hs Hv). pose proof (Hs r c). pose proof (lquery_nonneg s k Hs).
  destruct (_ && _); lia.
Qed.

Lemma add_log_cell_ge s k v r c : lsk_ok s -> 0 <= v -> lcms s r c <= lcms (add_log s k v) r c.
Proof. intros. rewrite add_log_cell by assumption. destruct (_ && _); lia. Qed.

Lemma lquery_t_max t t' k nw : nw <= umax ->
  (forall r, (r < depth)%nat -> t' r (bucket r k) = Z.max (t r (bucket r k)) nw) ->
  lquery_t t' k = Z.max (lquery_t t k) nw.
Proof.
  intros Hn H. unfold CmsLog.lquery_t.
  assert (H' : forall r, In r (seq 0 depth) -> t' r (bucket r k) = Z.max (t r (bucket r k)) nw)
    by (intros r Hr; apply in_seq in Hr; apply H; lia).
  pose proof (lqrows_max t t' k nw (seq 0 depth) umax H') as E.
  rewrite (Z.max_l umax nw) in E by lia. exact E.
Qed.

Lemma lquery_t_le_max t t' k nw : nw <= umax ->
  (forall r, (r < depth)%nat -> t' r (bucket r k) <= Z.max (t r (bucket r k)) nw) ->
  lquery_t t' k <= Z.max (lquery_t t k) nw.
Proof.
  intros Hn H. unfold CmsLog.lquery_t.
  assert (H' : forall r, In r (seq 0 depth) -> t' r (bucket r k) <= Z.max (t r (bucket r k)) nw)
    by (intros r Hr; apply in_seq in Hr; apply H; lia).
  pose proof (lqrows_le_max t t' k nw (seq 0 depth) umax H') as E.
  rewrite (Z.max_l umax nw) in E by lia. exact E.
Qed.

Lemma lquery_add_self s k v : lsk_ok s -> 0 <= v -> lquery (add_log s k v) k = new_count s k v.
Proof.
  intros Hs Hv. pose proof (new_count_range s k v Hs Hv) as Hn.
  unfold CmsLog.lquery.
  rewrite (lquery_t_max (lcms s) (lcms (add_log s k v)) k (new_count s k v)).
  - fold (lquery s k). lia.
  - lia.
  - intros r Hr. rewrite add_log_cell by assumption.
    assert ((r <? depth)%nat = true) as -> by (apply Nat.ltb_lt; lia). rewrite Nat.eqb_refl. reflexivity.
Qed.

(* ---------- C05, log part ---------- *)
Theorem C05_log_steps s k v : lsk_ok s -> 0 <= v ->
  lquery s k <= lquery (lcls_add s k v) k <= Z.min (lquery s k + v) umax.
Proof.
  intros Hs Hv. unfold CmsLog.lcls_add. rewrite lquery_add_self by assumption.
  apply new_count_range; assumption.
Qed.

Theorem C05_log_mono s k v j : lsk_ok s -> 0 <= v -> lquery s j <= lquery (lcls_add s k v) j.
Proof.
  intros Hs Hv. unfold CmsLog.lcls_add, CmsLog.lquery, CmsLog.lquery_t. apply lqrows_mono; [lia|].
  intros r _. apply add_log_cell_ge; assumption.
Qed.

Theorem C05_log_bound s k v j : lsk_ok s -> 0 <= v ->
  lquery (lcls_add s k v) j <= Z.max (lquery s j) (lquery (lcls_add s k v) k).
Proof.
  intros Hs Hv. unfold CmsLog.lcls_add. rewrite lquery_add_self by assumption.
  pose proof (new_count_range s k v Hs Hv) as Hn.
  unfold CmsLog.lquery.
  apply lquery_t_le_max; [lia|].
  intros r _. rewrite add_log_cell by assumption. destruct (_ && _); lia.
Qed.

Theorem C05_log_one_per_row s k v r c : c <> bucket r k -> lcms (lcls_add s k v) r c = lcms s r c.
Proof.
  intros Hc. unfold CmsLog.lcls_add, CmsLog.add_log.
  destruct (log_counter _ _ _) as [nc rs']. destruct (_ =? _); cbn [lcms]; [reflexivity|].
  apply Nat.eqb_neq in Hc. rewrite Hc, andb_false_r. reflexivity.
Qed.

(* n_added grows by exactly v, also when the add is cut short by the ceiling (the kernel adds
   value before it queries) *)
Theorem C05_log_nadded s k v : ln_added (lcls_add s k v) = ln_added s + v.
Proof. apply add_log_nadded. Qed.

Theorem C05_log_nrecords s k v : ln_records (lcls_add s k v) = ln_records s.
Proof. apply add_log_nrecords. Qed.

Section Reserved.
Hypothesis nr_lt_umax : nr < umax.
Hypothesis powneg0 : powneg 0 = f_one.

Lemma new_count_reserved s k v : rs_draws_ok (lrs s) -> 0 <= v -> lquery s k + v <= nr + 1 ->
  new_count s k v = lquery s k + v.
Proof.
  intros Hd Hv H. unfold new_count.
  rewrite (log_counter_reserved nr umax powneg nr_lt_umax powneg0) by assumption. reflexivity.
Qed.

Lemma new_count_lower s k v : rs_draws_ok (lrs s) -> 0 <= v ->
  Z.min (lquery s k + v) (nr + 1) <= new_count s k v.
Proof. intros. unfold new_count. apply log_counter_lower; assumption. Qed.

(* exactly v steps while the result stays <= num_reserved + 1 *)
Theorem C05_log_exact s k v : lsk_ok s -> rs_draws_ok (lrs s) -> 0 <= v -> lquery s k + v <= nr + 1 ->
  lquery (lcls_add s k v) k = lquery s k + v.
Proof.
  intros Hs Hd Hv H. unfold CmsLog.lcls_add. rewrite lquery_add_self by assumption.
  apply new_count_reserved; assumption.
Qed.

(* ... and the decoded estimate is exactly old + v, given decode c = c on 0..nr+1 *)
Theorem C05_log_exact_estimate s k v :
  (forall c, 0 <= c <= nr + 1 -> decode c = z2f c) ->
  lsk_ok s -> rs_draws_ok (lrs s) -> 0 <= v -> lquery s k + v <= nr + 1 ->
  lestimate s k = z2f (lquery s k) /\ lestimate (lcls_add s k v) k = z2f (lquery s k + v).
Proof.
  intros Hdec Hs Hd Hv H. unfold CmsLog.lestimate. rewrite C05_log_exact by assumption.
  pose proof (lquery_nonneg s k Hs). split; apply Hdec; lia.
Qed.

(* the draws of a sketch stay < 1 *)
Lemma add_log_draws_ok s k v : rs_draws_ok (lrs s) -> rs_draws_ok (lrs (add_log s k v)).
Proof. intros H. rewrite add_log_rs. apply log_counter_draws_ok. exact H. Qed.
End Reserved.

(* ---------- C18, log part (adds) ---------- *)
(* _log_counter returns at the ceiling: nothing is added, no draw is consumed *)
Theorem C18_log_counter_ceiling c rs v : umax <= c -> log_counter c rs v = (c, rs).
Proof. apply log_counter_ceiling. Qed.

(* no counter leaves 0..umax: the uintN store never wraps *)
Theorem C18_log_range_add s k v : lsk_ok s -> 0 <= v -> lsk_ok (lcls_add s k v).
Proof. apply lsk_ok_add. Qed.

Theorem C18_log_mono_add s k v j : lsk_ok s -> 0 <= v -> lquery s j <= lquery (lcls_add s k v) j.
Proof. apply C05_log_mono. Qed.

Theorem C18_log_sticky_add s k j v : lsk_ok s -> 0 <= v ->
  lquery s k = umax -> lquery (lcls_add s j v) k = umax.
Proof.
  intros Hs Hv H. pose proof (C05_log_mono s j v k Hs Hv). pose proof (lquery_le_umax (lcls_add s j v) k). lia.
Qed.

(* an add to a key already at the ceiling changes nothing but n_added, and consumes no draw *)
Theorem C18_log_add_at_ceiling s k v r c : lquery s k = umax ->
  lcms (lcls_add s k v) r c = lcms s r c /\ lrs (lcls_add s k v) = lrs s.
Proof.
  intros H. unfold CmsLog.lcls_add. rewrite add_log_rs. unfold CmsLog.add_log.
  rewrite H. rewrite log_counter_ceiling by lia. cbn [snd]. split; [|reflexivity].
  rewrite castc_id by lia. rewrite Z.eqb_refl. reflexivity.
Qed.

(* ---------- C12, log part: multiplicity = repeated unit adds consuming the same draws ---------- *)
Definition lsk_eq (a b : lsk) : Prop :=
  (forall r c, lcms a r c = lcms b r c) /\ ln_added a = ln_added b /\ ln_records a = ln_records b /\
  lrs a = lrs b.

Definition iter_add_log (s : lsk) (k : key) (n : nat) : lsk := Nat.iter n (fun s => lcls_add s k 1) s.

Lemma log_counter_zero c rs : log_counter c rs 0 = (c, rs).
Proof. reflexivity. Qed.

Lemma iter_add_log_char s k n : lsk_ok s ->
  let st := log_counter (lquery s k) (lrs s) (Z.of_nat n) in
  lsk_ok (iter_add_log s k n) /\
  (forall r c, lcms (iter_add_log s k n) r c =
     if (r <? depth)%nat && (c =? bucket r k)%nat then Z.max (lcms s r c) (fst st) else lcms s r c) /\
  ln_added (iter_add_log s k n) = ln_added s + Z.of_nat n /\
  ln_records (iter_add_log s k n) = ln_records s /\
  lrs (iter_add_log s k n) = snd st /\
  lquery (iter_add_log s k n) k = fst st.
Proof.
  intros Hs. induction n as [|n IH]; cbn zeta.
  - change (iter_add_log s k 0) with s. cbn [Z.of_nat]. rewrite log_counter_zero. cbn [fst snd].
    repeat split; try lia; try apply Hs.
    intros r c. destruct ((r <? depth)%nat && (c =? bucket r k)%nat) eqn:Eb; [|reflexivity].
    apply andb_true_iff in Eb. destruct Eb as [Er Ec]. apply Nat.ltb_lt in Er. apply Nat.eqb_eq in Ec. subst c.
    pose proof (lquery_le_cell s k r Er). lia.
  - cbn zeta in IH. destruct IH as (IHok & IHc & IHa & IHr & IHrs & IHq).
    change (iter_add_log s k (S n)) with (add_log (iter_add_log s k n) k 1).
    replace (Z.of_nat (S n)) with (Z.of_nat n + 1) by lia.
    rewrite (log_counter_split nr umax powneg (lquery s k) (lrs s) (Z.of_nat n) 1) by lia.
    set (st := log_counter (lquery s k) (lrs s) (Z.of_nat n)) in *.
    assert (Hnc : new_count (iter_add_log s k n) k 1 = fst (log_counter (fst st) (snd st) 1))
      by (unfold new_count; rewrite IHq, IHrs; reflexivity).
    pose proof (log_counter_range nr umax powneg (fst st) (snd st) 1 ltac:(lia)) as Hr1.
    split; [apply lsk_ok_add; [exact IHok|lia]|].
    split; [|split; [|split; [|split]]].
    + intros r c. rewrite add_log_cell by (try assumption; lia). rewrite Hnc, IHc.
      destruct ((r <? depth)%nat && (c =? bucket r k)%nat); lia.
    + rewrite add_log_nadded, IHa. lia.
    + rewrite add_log_nrecords. exact IHr.
    + rewrite add_log_rs, IHq, IHrs. reflexivity.
    + rewrite lquery_add_self by (try assumption; lia). exact Hnc.
Qed.

Theorem C12_log_mult s k v : lsk_ok s -> 0 <= v ->
  lsk_eq (lcls_add s k v) (iter_add_log s k (Z.to_nat v)).
Proof.
  intros Hs Hv. destruct (iter_add_log_char s k (Z.to_nat v) Hs) as (_ & Hc & Ha & Hr & Hrs & _).
  rewrite Z2Nat.id in * by assumption. unfold CmsLog.lcls_add.
  split; [|split; [|split]].
  - intros r c. rewrite Hc, add_log_cell by assumption. reflexivity.
  - rewrite Ha, add_log_nadded. reflexivity.
  - rewrite Hr, add_log_nrecords. reflexivity.
  - rewrite Hrs, add_log_rs. reflexivity.
Qed.

(* glue: by unfolding *)
Theorem C12_log_update_list s ks : lupdate_list s ks = fold_left (fun s k => lcls_add s k 1) ks s.
Proof. reflexivity. Qed.
Theorem C12_log_update_dict s kvs :
  lupdate_dict s kvs = fold_left (fun s kv => lcls_add s (fst kv) (snd kv)) kvs s.
Proof. reflexivity. Qed.
Theorem C12_log_ngram s k n : 1 <= n < 2^64 -> zlen k < 2^64 ->
  ladd_ngram s k n = fold_left (fun s w => lcls_add s w 1) (windows (Z.to_nat n) k) s.
Proof. intros Hn Hk. unfold CmsLog.ladd_ngram. rewrite ngram_windows_spec by assumption. reflexivity. Qed.
Theorem C12_log_update_ngram s ks n :
  lupdate_ngram s ks n = fold_left (fun s k => ladd_ngram s k n) ks s.
Proof. reflexivity. Qed.
Theorem C12_log_getitem s k : lgetitem depth bucket umax decode s k = lestimate s k.
Proof. reflexivity. Qed.

Lemma leval_fold_add h kvs :
  leval (fold_left (fun h kv => LAdd h (fst kv) (snd kv)) kvs h) =
  fold_left (fun s kv => lcls_add s (fst kv) (snd kv)) kvs (leval h).
Proof. revert h; induction kvs as [|kv kvs IH]; intros h; [reflexivity|]. cbn [fold_left]. rewrite IH. reflexivity. Qed.
Lemma leval_fold_add1 h ks :
  leval (fold_left (fun h k => LAdd h k 1) ks h) = fold_left (fun s k => lcls_add s k 1) ks (leval h).
Proof. revert h; induction ks as [|k ks IH]; intros h; [reflexivity|]. cbn [fold_left]. rewrite IH. reflexivity. Qed.
Lemma leval_fold_ngram h ks n :
  leval (fold_left (fun h k => LNgram h k n) ks h) = fold_left (fun s k => ladd_ngram s k n) ks (leval h).
Proof. revert h; induction ks as [|k ks IH]; intros h; [reflexivity|]. cbn [fold_left]. rewrite IH. reflexivity. Qed.

(* every public entry point is a core history *)
Theorem laeval_desugar h : laeval h = leval (ldesugar h).
Proof.
  induction h as [rs|h IH k v|h IH ks|h IH kvs|h IH k n|h IH ks n|h1 IH1 h2 IH2|h IH rs];
    cbn [CmsLog.laeval CmsLog.ldesugar CmsLog.leval].
  - reflexivity.
  - rewrite IH. reflexivity.
  - rewrite leval_fold_add1, IH. reflexivity.
  - rewrite leval_fold_add, IH. reflexivity.
  - rewrite IH. reflexivity.
  - rewrite leval_fold_ngram, IH. reflexivity.
  - rewrite IH1, IH2. reflexivity.
  - rewrite IH. reflexivity.
Qed.

(* ---------- save / load ---------- *)
Lemma lof_rows_tabulate t r c :
  lof_rows (ltabulate width depth t) r c = if (r <? depth)%nat && (c <? width)%nat then t r c else 0.
Proof.
  unfold lof_rows, ltabulate.
  destruct (r <? depth)%nat eqn:Er; cbn [andb].
  - apply Nat.ltb_lt in Er.
    rewrite (nth_indep _ [] (map (fun c => t 0%nat c) (seq 0 width)))
      by (rewrite map_length, seq_length; exact Er).
    rewrite (map_nth (fun r => map (fun c => t r c) (seq 0 width)) (seq 0 depth) 0%nat r).
    rewrite seq_nth by exact Er. cbn [Nat.add].
    destruct (c <? width)%nat eqn:Ec.
    + apply Nat.ltb_lt in Ec.
      rewrite (nth_indep _ 0 (t r 0%nat)) by (rewrite map_length, seq_length; exact Ec).
      rewrite (map_nth (fun c => t r c) (seq 0 width) 0%nat c). rewrite seq_nth by exact Ec. reflexivity.
    + apply Nat.ltb_ge in Ec. apply nth_overflow. rewrite map_length, seq_length. exact Ec.
  - apply Nat.ltb_ge in Er. rewrite (nth_overflow _ []) by (rewrite map_length, seq_length; exact Er).
    destruct c; reflexivity.
Qed.

Lemma lsaveload_cell s rs r c :
  lcms (lsaveload s rs) r c = if (r <? depth)%nat && (c <? width)%nat then lcms s r c else 0.
Proof. apply lof_rows_tabulate. Qed.

Lemma lsaveload_cell_key s rs r k : (r < depth)%nat ->
  lcms (lsaveload s rs) r (bucket r k) = lcms s r (bucket r k).
Proof.
  intros Hr. rewrite lsaveload_cell.
  assert ((r <? depth)%nat = true) as -> by (apply Nat.ltb_lt; lia).
  assert ((bucket r k <? width)%nat = true) as -> by (apply Nat.ltb_lt; apply bucket_lt).
  reflexivity.
Qed.

Lemma lsk_ok_saveload s rs : lsk_ok s -> lsk_ok (lsaveload s rs).
Proof. intros H r c. rewrite lsaveload_cell. destruct (_ && _); [apply H|lia]. Qed.

Lemma lsaveload_query s rs k : lquery (lsaveload s rs) k = lquery s k.
Proof.
  unfold CmsLog.lquery, CmsLog.lquery_t. apply lqrows_ext. intros r Hr. apply in_seq in Hr.
  apply lsaveload_cell_key. lia.
Qed.

(* ---------- merges: what the integer arguments need from the float cell rule ---------- *)
(* These two facts about merge_cell are proved from the table conditions in CmsLogFloat.v (through the
   standard library's float specification) and, per configuration, by exhaustive evaluation
   (merge_grid_sound below). *)
Definition merge_lower_ok : Prop := forall a b, 0 <= a <= umax -> 0 <= b <= umax ->
  Z.min (a + b) (nr + 1) <= merge_cell a b <= umax.
Definition merge_ge_ok : Prop := forall a b, 0 <= a <= umax -> 0 <= b <= umax ->
  Z.max a b <= merge_cell a b <= umax.

Lemma lsk_ok_merge_lower a b : 0 <= nr -> merge_lower_ok -> lsk_ok a -> lsk_ok b -> lsk_ok (merge_log a b).
Proof.
  intros Hnr Hm Ha Hb r c. cbn [CmsLog.merge_log lcms].
  pose proof (Hm _ _ (Ha r c) (Hb r c)). pose proof (Ha r c). pose proof (Hb r c). lia.
Qed.

Lemma lsk_ok_merge_ge a b : merge_ge_ok -> lsk_ok a -> lsk_ok b -> lsk_ok (merge_log a b).
Proof.
  intros Hm Ha Hb r c. cbn [CmsLog.merge_log lcms].
  pose proof (Hm _ _ (Ha r c) (Hb r c)). pose proof (Ha r c). pose proof (Hb r c). lia.
Qed.

(* C09 bookkeeping: the special counters are sums, the second operand is not part of the result *)
Theorem C09_log_counters a b :
  ln_added (merge_log a b) = ln_added a + ln_added b /\
  ln_records (merge_log a b) = ln_records a + ln_records b /\ lrs (merge_log a b) = lrs a.
Proof. repeat split. Qed.

(* C18, merges: monotone and sticky at the ceiling, given C09_log_ge *)
Theorem C18_log_mono_merge a b k : merge_ge_ok -> lsk_ok a -> lsk_ok b ->
  lquery a k <= lquery (merge_log a b) k /\ lquery b k <= lquery (merge_log a b) k.
Proof.
  intros Hm Ha Hb. unfold CmsLog.lquery, CmsLog.lquery_t.
  split; apply lqrows_mono; try lia; intros r _; cbn [CmsLog.merge_log lcms];
    pose proof (Hm _ _ (Ha r (bucket r k)) (Hb r (bucket r k))); lia.
Qed.

Theorem C18_log_sticky_merge a b k : merge_ge_ok -> lsk_ok a -> lsk_ok b ->
  (lquery a k = umax \/ lquery b k = umax) -> lquery (merge_log a b) k = umax.
Proof.
  intros Hm Ha Hb H. pose proof (C18_log_mono_merge a b k Hm Ha Hb).
  pose proof (lquery_le_umax (merge_log a b) k). lia.
Qed.

Theorem C18_log_range_merge a b : merge_ge_ok -> lsk_ok a -> lsk_ok b -> lsk_ok (merge_log a b).
Proof. apply lsk_ok_merge_ge. Qed.

(* ---------- C06 (c): lower bound on every history ---------- *)
Section Lower.
Hypothesis nr_nonneg : 0 <= nr.
Hypothesis nr_lt_umax : nr < umax.
Hypothesis powneg0 : powneg 0 = f_one.

Definition LB (s : lsk) (T : key -> Z) : Prop :=
  forall k r, (r < depth)%nat -> Z.min (T k) (nr + 1) <= lcms s r (bucket r k).

Lemma LB_ext s T T' : (forall j, T j = T' j) -> LB s T -> LB s T'.
Proof. intros E H k r Hr. rewrite <- E. apply H. exact Hr. Qed.

Lemma LB_query s T k : LB s T -> Z.min (T k) (nr + 1) <= lquery s k.
Proof.
  intros H. unfold CmsLog.lquery, CmsLog.lquery_t. apply lqrows_ge; [lia|].
  intros r Hr. apply in_seq in Hr. apply H. lia.
Qed.

Lemma LB_add s T k v : lsk_ok s -> rs_draws_ok (lrs s) -> 0 <= v -> LB s T ->
  LB (add_log s k v) (fun j => T j + (if keqb j k then v else 0)).
Proof.
  intros Hs Hd Hv H j r Hr. rewrite add_log_cell by assumption.
  pose proof (H j r Hr) as Hj.
  destruct (keqb_spec j k) as [->|Hne].
  - assert ((r <? depth)%nat = true) as -> by (apply Nat.ltb_lt; lia). rewrite Nat.eqb_refl. cbn [andb].
    pose proof (new_count_lower nr_lt_umax powneg0 s k v Hd Hv).
    pose proof (LB_query s T k H). lia.
  - rewrite Z.add_0_r. destruct (_ && _); lia.
Qed.

Lemma count_key_nonneg k ws : 0 <= count_key k ws.
Proof. induction ws as [|w ws IH]; cbn [count_key]; [lia|]. destruct (keqb k w); lia. Qed.

Lemma fold_add1_inv ws : forall s T, lsk_ok s -> rs_draws_ok (lrs s) -> LB s T ->
  let s' := fold_left (fun s w => add_log s w 1) ws s in
  lsk_ok s' /\ rs_draws_ok (lrs s') /\ LB s' (fun j => T j + count_key j ws).
Proof.
  induction ws as [|w ws IH]; intros s T Hs Hd H; cbn [fold_left]; cbn zeta.
  - split; [exact Hs|split; [exact Hd|]]. eapply LB_ext; [|exact H]. intros j. cbn [count_key]. lia.
  - destruct (IH (add_log s w 1) (fun j => T j + (if keqb j w then 1 else 0))) as (I1 & I2 & I3).
    + apply lsk_ok_add; [exact Hs|lia].
    + apply add_log_draws_ok. exact Hd.
    + apply LB_add; [exact Hs|exact Hd|lia|exact H].
    + split; [exact I1|split; [exact I2|]]. eapply LB_ext; [|exact I3]. intros j. cbn [count_key]. lia.
Qed.

Lemma LB_merge a b Ta Tb : merge_lower_ok -> lsk_ok a -> lsk_ok b ->
  (forall j, 0 <= Ta j) -> (forall j, 0 <= Tb j) -> LB a Ta -> LB b Tb ->
  LB (merge_log a b) (fun j => Ta j + Tb j).
Proof.
  intros Hm Ha Hb Hta Htb HA HB k r Hr. cbn [CmsLog.merge_log lcms].
  pose proof (Hm _ _ (Ha r (bucket r k)) (Hb r (bucket r k))).
  pose proof (HA k r Hr). pose proof (HB k r Hr). pose proof (Hta k). pose proof (Htb k). lia.
Qed.

Lemma LB_saveload s rs T : LB s T -> LB (lsaveload s rs) T.
Proof. intros H k r Hr. rewrite lsaveload_cell_key by exact Hr. apply H. exact Hr. Qed.

Lemma ltruth_nonneg h k : lwf h -> 0 <= ltruth h k.
Proof.
  induction h as [rs|h IH j v|h IH j n|h1 IH1 h2 IH2|h IH rs]; cbn [CmsLog.lwf CmsLog.ltruth]; intros H.
  - lia.
  - destruct H as [H Hv]. specialize (IH H). destruct (keqb k j); lia.
  - specialize (IH H). pose proof (count_key_nonneg k (ngram_windows j n)). lia.
  - destruct H as [H1 H2]. specialize (IH1 H1). specialize (IH2 H2). lia.
  - destruct H as [H _]. apply IH. exact H.
Qed.

(* the invariant carried along every history; merges need merge_lower_ok *)
Lemma linv_eval h : lmerge_free h \/ merge_lower_ok -> lwf h ->
  lsk_ok (leval h) /\ rs_draws_ok (lrs (leval h)) /\ LB (leval h) (ltruth h).
Proof.
  intros Hm. induction h as [rs|h IH j v|h IH j n|h1 IH1 h2 IH2|h IH rs];
    cbn [CmsLog.lwf CmsLog.ltruth CmsLog.leval CmsLog.lmerge_free] in *; intros Hw.
  - split; [apply lsk_ok_empty|split; [exact Hw|]]. intros k r Hr. cbn. lia.
  - destruct Hw as [Hw Hv]. destruct (IH Hm Hw) as (I1 & I2 & I3). unfold CmsLog.lcls_add.
    split; [apply lsk_ok_add; assumption|split; [apply add_log_draws_ok; assumption|]].
    apply LB_add; assumption.
  - destruct (IH Hm Hw) as (I1 & I2 & I3). unfold CmsLog.ladd_ngram.
    apply (fold_add1_inv (ngram_windows j n) (leval h) (ltruth h)); assumption.
  - destruct Hm as [[]|Hm]. destruct Hw as [Hw1 Hw2].
    destruct (IH1 (or_intror Hm) Hw1) as (A1 & A2 & A3). destruct (IH2 (or_intror Hm) Hw2) as (B1 & B2 & B3).
    split; [apply lsk_ok_merge_lower; assumption|split; [exact A2|]].
    apply LB_merge; try assumption; intros j; apply ltruth_nonneg; assumption.
  - destruct Hw as [Hw Hrs]. destruct (IH Hm Hw) as (I1 & I2 & I3).
    split; [apply lsk_ok_saveload; exact I1|split; [exact Hrs|]]. apply LB_saveload. exact I3.
Qed.

(* C06 (c): on every history, for every draw stream with draws in [0,1) *)
Theorem C06_lower_gen h k : lmerge_free h \/ merge_lower_ok -> lwf h ->
  Z.min (ltruth h k) (nr + 1) <= lquery (leval h) k.
Proof. intros Hm Hw. destruct (linv_eval h Hm Hw) as (_ & _ & H). apply LB_query. exact H. Qed.

(* ---------- C06 (a), second clause: a key that has one row to itself is counted exactly up to nr+1 ---------- *)
Lemma fold_add1_alone k r0 ws : forall s t, lsk_ok s -> rs_draws_ok (lrs s) ->
  (forall w, In w ws -> w <> k -> bucket r0 w <> bucket r0 k) ->
  (r0 < depth)%nat ->
  lcms s r0 (bucket r0 k) <= t -> t + count_key k ws <= nr + 1 ->
  lcms (fold_left (fun s w => add_log s w 1) ws s) r0 (bucket r0 k) <= t + count_key k ws.
Proof.
  induction ws as [|w ws IH]; intros s t Hs Hd Hcol Hr Hc Ht; cbn [fold_left count_key] in *; [lia|].
  pose proof (count_key_nonneg k ws) as Hnn.
  assert (Hstep : lcms (add_log s w 1) r0 (bucket r0 k) <= t + (if keqb k w then 1 else 0)).
  { destruct (keqb_spec k w) as [<-|Hne].
    - rewrite add_log_cell by (try assumption; lia).
      assert ((r0 <? depth)%nat = true) as -> by (apply Nat.ltb_lt; lia). rewrite Nat.eqb_refl. cbn [andb].
      pose proof (lquery_le_cell s k r0 Hr).
      rewrite (new_count_reserved nr_lt_umax powneg0) by (try assumption; lia). lia.
    - pose proof (C05_log_one_per_row s w 1 r0 (bucket r0 k)) as E. unfold CmsLog.lcls_add in E.
      rewrite E; [lia|]. intros E'. apply (Hcol w (or_introl eq_refl)); [congruence|congruence]. }
  replace (t + ((if keqb k w then 1 else 0) + count_key k ws))
    with ((t + (if keqb k w then 1 else 0)) + count_key k ws) by lia.
  apply IH; try assumption.
  - apply lsk_ok_add; [assumption|lia].
  - apply add_log_draws_ok; assumption.
  - intros w' Hin. apply Hcol. right. exact Hin.
  - lia.
Qed.

Lemma alone_upper h k r0 : lmerge_free h -> lwf h -> (r0 < depth)%nat ->
  (forall j, In j (lkeys h) -> j <> k -> bucket r0 j <> bucket r0 k) ->
  ltruth h k <= nr + 1 -> lcms (leval h) r0 (bucket r0 k) <= ltruth h k.
Proof.
  intros Hmf Hw Hr. induction h as [rs|h IH j v|h IH j n|h1 IH1 h2 IH2|h IH rs];
    cbn [CmsLog.lwf CmsLog.ltruth CmsLog.leval CmsLog.lmerge_free CmsLog.lkeys] in *; intros Hcol Ht.
  - cbn. lia.
  - destruct Hw as [Hw Hv]. destruct (linv_eval h (or_introl Hmf) Hw) as (I1 & I2 & _).
    pose proof (ltruth_nonneg h k Hw).
    assert (IH' : lcms (leval h) r0 (bucket r0 k) <= ltruth h k).
    { apply IH; try assumption; [intros; apply Hcol; [right|]; assumption|destruct (keqb k j); lia]. }
    unfold CmsLog.lcls_add. destruct (keqb_spec k j) as [<-|Hne].
    + rewrite add_log_cell by assumption.
      assert ((r0 <? depth)%nat = true) as -> by (apply Nat.ltb_lt; lia). rewrite Nat.eqb_refl. cbn [andb].
      pose proof (lquery_le_cell (leval h) k r0 Hr).
      rewrite (new_count_reserved nr_lt_umax powneg0) by (try assumption; lia). lia.
    + pose proof (C05_log_one_per_row (leval h) j v r0 (bucket r0 k)) as E. unfold CmsLog.lcls_add in E.
      rewrite E; [lia|]. intros E'. apply (Hcol j (or_introl eq_refl)); congruence.
  - destruct (linv_eval h (or_introl Hmf) Hw) as (I1 & I2 & _).
    pose proof (count_key_nonneg k (ngram_windows j n)).
    unfold CmsLog.ladd_ngram. apply fold_add1_alone; try assumption.
    + intros w Hin. apply Hcol. apply in_or_app. left. exact Hin.
    + apply IH; try assumption; [intros; apply Hcol; [apply in_or_app; right|]; assumption|lia].
  - destruct Hmf.
  - destruct Hw as [Hw _]. rewrite lsaveload_cell_key by exact Hr. apply IH; assumption.
Qed.

Theorem C06_exact_alone h k r0 : lmerge_free h -> lwf h -> (r0 < depth)%nat ->
  (forall j, In j (lkeys h) -> j <> k -> bucket r0 j <> bucket r0 k) ->
  ltruth h k <= nr + 1 -> lquery (leval h) k = ltruth h k.
Proof.
  intros Hmf Hw Hr Hcol Ht.
  pose proof (alone_upper h k r0 Hmf Hw Hr Hcol Ht).
  pose proof (lquery_le_cell (leval h) k r0 Hr).
  pose proof (C06_lower_gen h k (or_introl Hmf) Hw). lia.
Qed.

Theorem C06_exact_alone_estimate h k r0 :
  (forall c, 0 <= c <= nr + 1 -> decode c = z2f c) ->
  lmerge_free h -> lwf h -> (r0 < depth)%nat ->
  (forall j, In j (lkeys h) -> j <> k -> bucket r0 j <> bucket r0 k) ->
  ltruth h k <= nr + 1 -> lestimate (leval h) k = z2f (ltruth h k).
Proof.
  intros Hdec Hmf Hw Hr Hcol Ht. unfold CmsLog.lestimate.
  rewrite (C06_exact_alone h k r0) by assumption. apply Hdec.
  pose proof (ltruth_nonneg h k Hw). lia.
Qed.
End Lower.

End Sketch.

(* ================================================================== per-configuration reflection *)
Lemma zrange_aux_In n : forall lo x, lo <= x < lo + Z.of_nat n -> In x (zrange_aux n lo).
Proof.
  induction n as [|n IH]; intros lo x H; [lia|]. cbn [zrange_aux].
  destruct (Z.eq_dec x lo) as [->|Hne]; [left; reflexivity|right; apply IH; lia].
Qed.

Lemma zrange_In x n : 0 <= x < n -> In x (zrange 0 n).
Proof. intros H. unfold zrange. apply zrange_aux_In. lia. Qed.

Theorem merge_grid_sound nr umax max_count decode castc :
  merge_grid_b nr umax max_count decode castc = true ->
  forall a b, 0 <= a <= umax -> 0 <= b <= umax ->
  let m := merge_cell nr umax max_count decode castc a b in
  Z.max a b <= m <= umax /\ Z.min (a + b) (nr + 1) <= m /\
  m = merge_cell nr umax max_count decode castc b a /\
  (a + b <= nr -> m = a + b) /\ (b = 0 -> m = a).
Proof.
  intros H a b Ha Hb. unfold merge_grid_b in H. rewrite forallb_forall in H.
  specialize (H a (zrange_In a (umax + 1) ltac:(lia))). rewrite forallb_forall in H.
  specialize (H b (zrange_In b (umax + 1) ltac:(lia))). unfold merge_pair_ok_b in H.
  cbn zeta in *.
  set (m := merge_cell nr umax max_count decode castc a b) in *.
  set (m' := merge_cell nr umax max_count decode castc b a) in *.
  clearbody m m'.
  rewrite !andb_true_iff in H. destruct H as (((((H1 & H2) & H3) & H4) & H5) & H6).
  apply Z.leb_le in H1, H2, H3. apply Z.eqb_eq in H4.
  split; [lia|]. split; [lia|]. split; [exact H4|]. split.
  - intros Hab. destruct (a + b <=? nr) eqn:E; [apply Z.eqb_eq in H5; exact H5|apply Z.leb_gt in E; lia].
  - intros ->. rewrite Z.eqb_refl in H6. apply Z.eqb_eq in H6. exact H6.
Qed.

Corollary merge_grid_lower_ok nr umax max_count decode castc :
  merge_grid_b nr umax max_count decode castc = true -> merge_lower_ok nr umax max_count decode castc.
Proof.
  intros H a b Ha Hb. destruct (merge_grid_sound _ _ _ _ _ H a b Ha Hb) as (H1 & H2 & _).
  cbn zeta in *. split; [exact H2|apply H1].
Qed.

Corollary merge_grid_ge_ok nr umax max_count decode castc :
  merge_grid_b nr umax max_count decode castc = true -> merge_ge_ok nr umax max_count decode castc.
Proof.
  intros H a b Ha Hb. destruct (merge_grid_sound _ _ _ _ _ H a b Ha Hb) as (H1 & _).
  cbn zeta in *. exact H1.
Qed.

Theorem merge_nearest_grid_sound nr umax max_count decode castc :
  merge_nearest_grid_b nr umax max_count decode castc = true ->
  forall a b c, 0 <= a <= umax -> 0 <= b <= umax -> 0 <= c <= umax ->
  let v := (decode a + decode b)%float in
  PrimFloat.leb v (z2f nr) = false -> PrimFloat.leb (u64_to_float max_count) v = false ->
  PrimFloat.leb (PrimFloat.abs (decode (merge_cell nr umax max_count decode castc a b) - v)%float)
                (PrimFloat.abs (decode c - v)%float) = true.
Proof.
  intros H a b c Ha Hb Hc v H1 H2. unfold merge_nearest_grid_b in H. rewrite forallb_forall in H.
  specialize (H a (zrange_In a (umax + 1) ltac:(lia))). rewrite forallb_forall in H.
  specialize (H b (zrange_In b (umax + 1) ltac:(lia))). unfold merge_nearest_pair_b in H.
  fold v in H. rewrite H1, H2 in H. rewrite forallb_forall in H.
  apply (H c (zrange_In c (umax + 1) ltac:(lia))).
Qed.

(* C09 clauses that hold by the shape of the rule alone *)
Theorem C09_log_ceiling nr umax max_count decode castc a b :
  let v := (decode a + decode b)%float in
  PrimFloat.leb v (z2f nr) = false -> PrimFloat.leb (u64_to_float max_count) v = true ->
  merge_cell nr umax max_count decode castc a b = umax.
Proof. intros v H1 H2. unfold merge_cell. fold v. rewrite H1, H2. reflexivity. Qed.

Theorem C09_log_reserved_shape nr umax max_count decode castc a b :
  let v := (decode a + decode b)%float in
  PrimFloat.leb v (z2f nr) = true ->
  merge_cell nr umax max_count decode castc a b = castc (f2z_trunc v).
Proof. intros v H1. unfold merge_cell. fold v. rewrite H1. reflexivity. Qed.

(* ================================================================== constants of the batch discipline *)
Definition batch_consts_b : bool :=
  (rand_batch_cmp =? rand_batch_gen) && (1 <=? rand_batch_gen) &&
  (log8_rand_batch_init =? rand_batch_gen) && (log16_rand_batch_init =? rand_batch_gen).

Lemma batch_consts_check : batch_consts_b = true ->
  rand_batch_cmp = rand_batch_gen /\ 1 <= rand_batch_gen /\ log8_rand_batch_init = rand_batch_gen /\ log16_rand_batch_init = rand_batch_gen.
Proof.
  unfold batch_consts_b. intros H. rewrite !andb_true_iff in H. destruct H as (((H1 & H2) & H3) & H4).
  apply Z.eqb_eq in H1, H3, H4. apply Z.leb_le in H2. repeat split; assumption.
Qed.

Theorem rand_stream_checked : batch_consts_b = true ->
  forall (n : nat) (rs : rsrc), rs_wf rs -> (n <= length (pending rs))%nat ->
  fst (draws n rs) = firstn n (pending rs) /\ pending (snd (draws n rs)) = skipn n (pending rs) /\ rs_wf (snd (draws n rs)) /\ ((1 <= n)%nat -> 1 <= rptr (snd (draws n rs)) <= rand_batch_gen).
Proof.
  intros H. destruct (batch_consts_check H) as (H1 & H2 & _). apply rand_stream; assumption.
Qed.

(* the object built by a constructor (rng.random(2048), rand_ptr = 0) is well formed *)
Theorem rs_wf_init : batch_consts_b = true -> forall b fut,
  (length b = Z.to_nat log8_rand_batch_init \/ length b = Z.to_nat log16_rand_batch_init) ->
  Forall (fun x => length x = Z.to_nat rand_batch_gen) fut ->
  rs_wf {| rbatch := b; rptr := 0; rfuture := fut |}.
Proof.
  intros H b fut Hb Hf. destruct (batch_consts_check H) as (H1 & H2 & H3 & H4).
  unfold rs_wf. cbn [rbatch rptr rfuture]. rewrite H3, H4 in Hb. split; [tauto|split; [lia|exact Hf]].
Qed.
