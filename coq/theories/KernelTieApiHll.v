(* KernelTieApiHll.v — HyperLogLog.add as regenerated from the source AST on every run (generated/KernelsApi.v): no
   multiplicity reaches the kernel (Hll.cls_add ignores it). *)
From Coq Require Import ZArith.
From Sketchnu Require Import Machine KernelsApi Hll.
Open Scope Z_scope.

Lemma tie_api_hll :
  (forall v u, gen_api_hll_add_value v u = None) /\ gen_api_hll_add_writes_back = false /\
  (forall (s : hll) (k : key) (v w : Z), cls_add s k v = cls_add s k w).
Proof. repeat split. Qed.
