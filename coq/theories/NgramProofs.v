From Coq Require Import ZArith List Lia Bool Arith.
From Sketchnu Require Import Machine BitLemmas Ngram.
Import ListNotations.
Open Scope Z_scope.

Lemma skipn_S_tl {A} (l : list A) s : skipn (S s) l = tl (skipn s l).
Proof.
  revert l. induction s as [|s IH]; intros l.
  - destruct l; reflexivity.
  - destruct l as [|x l]; [reflexivity|]. change (skipn (S (S s)) (x :: l)) with (skipn (S s) l).
    change (skipn (S s) (x :: l)) with (skipn s l). apply IH.
Qed.

Lemma map_slice_windows_from (n : nat) (k : key) c : forall s,
  map (fun i => slice k i n) (seq s c) = windows_from n (skipn s k) c.
Proof.
  induction c as [|c IH]; intros s; [reflexivity|].
  cbn [seq map windows_from]. unfold slice at 1. f_equal.
  rewrite IH. rewrite skipn_S_tl. reflexivity.
Qed.

(* C12_ngram_idx: for 1 <= n < 2^64 the uint64 index loop enumerates exactly the windows *)
Theorem ngram_windows_spec k n :
  1 <= n < 2^64 -> zlen k < 2^64 -> ngram_windows k n = windows (Z.to_nat n) k.
Proof.
  intros Hn Hk. unfold ngram_windows, windows.
  assert (0 <= zlen k) by (unfold zlen; lia).
  rewrite (wrap64_small (zlen k)) by lia.
  rewrite (wrap64_small (n - 1)) by lia.
  destruct (zlen k <=? n) eqn:E.
  - assert ((length k <=? Z.to_nat n)%nat = true) as -> by (apply Nat.leb_le; unfold zlen in *; lia).
    reflexivity.
  - assert ((length k <=? Z.to_nat n)%nat = false) as -> by (apply Nat.leb_gt; unfold zlen in *; lia).
    rewrite wrap64_small by lia.
    rewrite map_slice_windows_from. cbn [skipn]. f_equal. unfold zlen in *. lia.
Qed.

Lemma windows_nonempty n k : windows n k <> [].
Proof.
  unfold windows. destruct (length k <=? n)%nat eqn:E; [discriminate|].
  apply Nat.leb_gt in E. replace (length k - n + 1)%nat with (S (length k - n)) by lia. discriminate.
Qed.

Lemma windows_from_length n k c : length (windows_from n k c) = c.
Proof. revert k. induction c as [|c IH]; intros k; cbn [windows_from length]; [reflexivity|]. rewrite IH. reflexivity. Qed.
