(* HashBucket.v — the column used by row r for key k in every kernel, and that it is below width.  Depends on the
   transcription Hashes.v only (not on HashProofs / HashInj): the properties that hold for EVERY row hash use it just to
   state their instance at the real hash, and must not break when a proof ABOUT the hash functions breaks. *)
From Coq Require Import ZArith List Lia.
From Sketchnu Require Import Machine Hashes.
Open Scope Z_scope.

(* column used by row r for key k in every kernel: fasthash64(key, row) % width *)
Definition hash_bucket (width : nat) (r : nat) (k : key) : nat :=
  Z.to_nat (fasthash64 k (Z.of_nat r) mod Z.of_nat width).

Lemma hash_bucket_lt width r k : (0 < width)%nat -> Z.of_nat r < 2^64 -> (hash_bucket width r k < width)%nat.
Proof.
  intros Hw Hr. unfold hash_bucket.
  pose proof (Z.mod_pos_bound (fasthash64 k (Z.of_nat r)) (Z.of_nat width) ltac:(lia)). lia.
Qed.

(* the column is below width for every row index (the reduction modulo width does it) *)
Lemma hash_bucket_lt_all width r k : (0 < width)%nat -> (hash_bucket width r k < width)%nat.
Proof.
  intros Hw. unfold hash_bucket.
  pose proof (Z.mod_pos_bound (fasthash64 k (Z.of_nat r)) (Z.of_nat width) ltac:(lia)). lia.
Qed.

