(* KernelTieCmsMerge.v — _merge_linear (see KernelTieCms.v for the conventions) *)
From Coq Require Import ZArith List Lia Bool ZifyBool.
From Sketchnu Require Import Machine BitLemmas Consts KernelsCms CmsLinear CmsLinearProofs KernelTieCms.
Import ListNotations.
Open Scope Z_scope.
(* ---------------- _merge_linear l.455-461 ---------------- *)
Lemma tie_merge_linear_cell mine other : 0 <= mine <= cap -> 0 <= other <= cap ->
  gen_merge_linear_cell mine other cap = merge_cell mine other.
Proof.
  intros Hm Ho. pose proof cap_u32 as Hc. unfold gen_merge_linear_cell, merge_cell. cbv zeta.
  rewrite wrap32_cap. rewrite (wrap64_small (cap - mine)) by lia. rewrite wrap32_wrap64.
  split_ifs; rewrite ?wrap32_small by lia; lia.
Qed.

Lemma tie_merge_linear_counters x y : 0 <= x -> 0 <= y -> x + y < 2^64 ->
  gen_merge_linear_n_added x y = x + y /\ gen_merge_linear_n_records x y = x + y.
Proof.
  intros Hx Hy Hs. unfold gen_merge_linear_n_added, gen_merge_linear_n_records. cbv zeta.
  rewrite wrap64_idem. split; apply wrap64_small; lia.
Qed.

(* the whole merge, cell by cell and counter by counter, assembled from the generated pieces *)
Lemma tie_merge_linear a b : Rng a -> Rng b ->
  0 <= n_added a -> 0 <= n_added b -> n_added a + n_added b < 2^64 ->
  0 <= n_records a -> 0 <= n_records b -> n_records a + n_records b < 2^64 ->
  (forall r c, cms (merge a b) r c = gen_merge_linear_cell (cms a r c) (cms b r c) cap) /\
  n_added (merge a b) = gen_merge_linear_n_added (n_added a) (n_added b) /\
  n_records (merge a b) = gen_merge_linear_n_records (n_records a) (n_records b).
Proof.
  intros Ha Hb A1 A2 A3 R1 R2 R3. split; [|split].
  - intros r c. rewrite tie_merge_linear_cell by (apply Ha || apply Hb). reflexivity.
  - destruct (tie_merge_linear_counters _ _ A1 A2 A3) as [-> _]. reflexivity.
  - destruct (tie_merge_linear_counters _ _ R1 R2 R3) as [_ ->]. reflexivity.
Qed.

