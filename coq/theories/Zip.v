(* Zip.v — C20: the first step of reading a saved sketch, as CPython 3.12 / NumPy perform it.
   Definitions only (no proofs that could block execution).

   A file is a `list Z` of byte values.  What is modelled:
     np.load's dispatch on the first bytes        numpy/lib/_npyio_impl.py  l.457-497
     zipfile._EndRecData for non-ZIP64 archives   zipfile/__init__.py       l.281-339
   What is NOT modelled: everything zipfile does after it has located an end record
   (_EndRecData64, central directory parsing, local headers, CRC, npy header parsing, the
   constructor called by load()).  Those steps can raise but can never turn a "no end record"
   answer into a successful load, so `Reject` of the model implies an exception of the loader;
   `Accept` only means "an end-of-central-directory record was located". *)
From Coq Require Import ZArith List Bool.
From Sketchnu Require Import Machine.
Import ListNotations.
Open Scope Z_scope.

(* zipfile: stringEndArchive = b"PK\005\006", sizeEndCentDir = struct.calcsize("<4s4H2LH") = 22 *)
Definition sig_eocd : list Z := [80; 75; 5; 6].
Definition size_eocd : nat := 22.
(* numpy: _ZIP_PREFIX = b"PK\x03\x04"; _ZIP_SUFFIX = b"PK\x05\x06" (= sig_eocd);
   format.MAGIC_PREFIX = b"\x93NUMPY" *)
Definition zip_prefix : list Z := [80; 75; 3; 4].
Definition npy_magic : list Z := [147; 78; 85; 77; 80; 89].

(* bytes.startswith *)
Fixpoint starts_with (p l : list Z) : bool :=
  match p, l with
  | [], _ => true
  | x :: p', y :: l' => (x =? y) && starts_with p' l'
  | _ :: _, [] => false
  end.

(* bytes.rfind(p): index of the last position at which p occurs, scanning left to right and
   remembering the latest hit (p non-empty) *)
Fixpoint rfind_from (p : list Z) (i : nat) (l : list Z) (acc : option nat) : option nat :=
  match l with
  | [] => acc
  | _ :: r => rfind_from p (S i) r (if starts_with p l then Some i else acc)
  end.
Definition rfind (p l : list Z) : option nat := rfind_from p 0 l None.

(* maxCommentStart = max(filesize - (1 << 16) - sizeEndCentDir, 0)      l.318
   (computed in Z so that no large nat is ever built for ordinary files) *)
Definition max_comment_start (filesize : nat) : nat :=
  Z.to_nat (Z.max (Z.of_nat filesize - 65536 - 22) 0).

(* zipfile._EndRecData(fpin), l.281-339; returns endrec[_ECD_LOCATION], the offset of the record *)
Definition locate_eocd (f : list Z) : option nat :=
  let filesize := length f in                                          (* l.288-289 *)
  if (filesize <? size_eocd)%nat then None                             (* l.294-297: seek(-22, 2) raises OSError *)
  else
    let data := skipn (filesize - size_eocd)%nat f in                      (* l.298 *)
    if (length data =? size_eocd)%nat                                  (* l.299 *)
       && keqb (firstn 4 data) sig_eocd                                (* l.300 *)
       && keqb (skipn 20 data) [0; 0]                                  (* l.301  data[-2:] == b"\0\0" *)
    then Some (filesize - size_eocd)%nat                                 (* l.308 *)
    else
      let mcs := max_comment_start filesize in                         (* l.318 *)
      let data := skipn mcs f in                                       (* l.319-320 *)
      match rfind sig_eocd data with                                   (* l.321 *)
      | Some start =>                                                  (* l.322 *)
          let recData := firstn size_eocd (skipn start data) in        (* l.324 *)
          if (length recData =? size_eocd)%nat                         (* l.325-327: a full record must follow *)
          then Some (mcs + start)%nat                                    (* l.332; the claimed comment size is NOT
                                                                          compared with the bytes that remain *)
          else None
      | None => None                                                   (* l.339 *)
      end.

(* np.load, l.457-497, with allow_pickle=False (the default every loader uses) *)
Inductive kind := KEmpty | KZip | KNpy | KPickle.
Definition np_load_dispatch (f : list Z) : kind :=
  let magic := firstn 6 f in                                           (* l.460-461  N = len(MAGIC_PREFIX) = 6 *)
  match magic with
  | [] => KEmpty                                                       (* l.462-463  EOFError *)
  | _ =>
    if starts_with zip_prefix magic || starts_with sig_eocd magic      (* l.467 *)
    then KZip
    else if keqb magic npy_magic then KNpy                             (* l.475 *)
    else KPickle                                                       (* l.486-492  ValueError, pickle refused *)
  end.

Inductive result := Accept (off : nat) | Reject.

(* the composition every loader starts with:  `with np.load(filename) as npzfile: npzfile["args"] ...` *)
Definition reader (f : list Z) : result :=
  match np_load_dispatch f with
  | KEmpty => Reject                    (* EOFError *)
  | KZip => match locate_eocd f with    (* NpzFile.__init__ -> ZipFile -> _RealGetContents -> _EndRecData *)
            | Some off => Accept off
            | None => Reject            (* BadZipFile("File is not a zip file") *)
            end
  | KNpy => Reject                      (* np.load returns an ndarray (or read_array raises):
                                           `with <ndarray>` raises TypeError, it is not a context manager *)
  | KPickle => Reject                   (* ValueError *)
  end.

(* ---- the shape of a file written by np.savez: body ++ eocd ---- *)
Definition occ (i : nat) (l : list Z) : Prop := firstn 4 (skipn i l) = sig_eocd.
(* the end-record signature occurs nowhere in l *)
Definition sig_free (l : list Z) : Prop := forall i, ~ occ i l.
Definition sig_freeb (l : list Z) : bool :=
  match rfind sig_eocd l with None => true | Some _ => false end.

Definition wf_eocd (e : list Z) : Prop :=
  length e = size_eocd /\ firstn 4 e = sig_eocd /\ skipn 20 e = [0; 0].
Definition wf_eocdb (e : list Z) : bool :=
  (length e =? size_eocd)%nat && keqb (firstn 4 e) sig_eocd && keqb (skipn 20 e) [0; 0].

(* ---- helpers for generated case files ---- *)
Definition show_result (r : result) : Z :=
  match r with Accept off => Z.of_nat off | Reject => -1 end.
Definition show_loc (r : option nat) : Z :=
  match r with Some off => Z.of_nat off | None => -1 end.
Definition show_kind (k : kind) : Z :=
  match k with KEmpty => 0 | KZip => 1 | KNpy => 2 | KPickle => 3 end.

(* one case: prefix length n, zipfile's answer on that prefix (offset or -1), the dispatch observed
   (0 EOFError, 1 zip path, 2 npy path, 3 pickle refused).  Returns the n where the model differs. *)
Definition prefix_ok (f : list Z) (c : Z * Z * Z) : bool :=
  let '(n, loc, k) := c in
  let p := firstn (Z.to_nat n) f in
  (show_loc (locate_eocd p) =? loc) && (show_kind (np_load_dispatch p) =? k)
  && (show_result (reader p) =? (if k =? 1 then loc else -1)).
Definition bad_prefixes (f : list Z) (cs : list (Z * Z * Z)) : list Z :=
  map (fun c => fst (fst c)) (filter (fun c => negb (prefix_ok f c)) cs).

(* the hypotheses of C20_prefix_rejected evaluated on a complete file *)
Definition file_hyps (f : list Z) : bool :=
  let nb := (length f - size_eocd)%nat in
  (size_eocd <=? length f)%nat && wf_eocdb (skipn nb f) && sig_freeb (firstn nb f ++ firstn 3 (skipn nb f)).
