(* KernelTieNgramLog16.v — countmin.py _add_ngram_log16 as regenerated from the source (generated/KernelsNgram.v, harness/pytrans_ngram.py)
   against the model's window loop (Ngram.ngram_windows) and the model's driver CmsLog.ladd_ngram.
   See KernelTieNgram.v for the conventions and the generic lemma. *)
From Coq Require Import ZArith List Lia Bool ZifyBool String.
From Sketchnu Require Import Machine BitLemmas Ngram NgramProofs KernelsNgram KernelTieNgram CmsLog.
Import ListNotations.
Open Scope Z_scope.

(* the keys _add_ngram_log16 hands to _add_log16, assembled from the generated pieces *)
Definition ngram_log16_windows : key -> Z -> list key :=
  driver_windows gen_ngram_log16_key_len gen_ngram_log16_whole gen_ngram_log16_count gen_ngram_log16_lo gen_ngram_log16_hi.

Lemma tie_ngram_log16_pieces :
  driver_ok gen_ngram_log16_key_len gen_ngram_log16_whole gen_ngram_log16_count gen_ngram_log16_lo gen_ngram_log16_hi.
Proof. unfold gen_ngram_log16_key_len, gen_ngram_log16_whole, gen_ngram_log16_count, gen_ngram_log16_lo, gen_ngram_log16_hi. driver_ok_tac. Qed.

Lemma tie_ngram_log16_windows (k : key) (n : Z) :
  0 <= n < 2^64 -> zlen k < 2^63 -> ngram_log16_windows k n = ngram_windows k n.
Proof. apply driver_windows_model. exact tie_ngram_log16_pieces. Qed.

Lemma tie_ngram_log16_spec (k : key) (n : Z) :
  1 <= n < 2^64 -> zlen k < 2^63 -> ngram_log16_windows k n = windows (Z.to_nat n) k.
Proof. apply driver_windows_spec. exact tie_ngram_log16_pieces. Qed.

Lemma tie_ngram_log16_call : gen_ngram_log16_mult = Some 1 /\ gen_ngram_log16_threads_ptr = true.
Proof. split; vm_compute; reflexivity. Qed.

(* the single-add kernel both branches call (the translator also rejects any other name) *)
Lemma tie_ngram_log16_callee : gen_ngram_log16_callee = "_add_log16"%string.
Proof. vm_compute; reflexivity. Qed.

(* the model's driver is the fold of the model's single-add kernel, called with the generated multiplicity, over the
   generated windows;
   add_log threads the random source (rand_nums, rand_ptr) through the fold, as the driver threads rand_ptr *)
Lemma tie_ngram_log16_model depth bucket nr umax powneg castc (s : CmsLog.lsk) (k : key) (n : Z) :
  0 <= n < 2^64 -> zlen k < 2^63 ->
  CmsLog.ladd_ngram depth bucket nr umax powneg castc s k n =
  fold_left (fun s0 w => CmsLog.add_log depth bucket nr umax powneg castc s0 w (mult_value gen_ngram_log16_mult)) (ngram_log16_windows k n) s.
Proof.
  intros Hn Hk. rewrite tie_ngram_log16_windows by assumption. unfold CmsLog.ladd_ngram.
  assert (mult_value gen_ngram_log16_mult = 1) as -> by (vm_compute; reflexivity).
  reflexivity.
Qed.

Lemma tie_ngram_log16 :
  driver_ok gen_ngram_log16_key_len gen_ngram_log16_whole gen_ngram_log16_count gen_ngram_log16_lo gen_ngram_log16_hi /\
  (forall (k : key) (n : Z), 0 <= n < 2^64 -> zlen k < 2^63 -> ngram_log16_windows k n = ngram_windows k n) /\
  (forall (k : key) (n : Z), 1 <= n < 2^64 -> zlen k < 2^63 -> ngram_log16_windows k n = windows (Z.to_nat n) k) /\
  (gen_ngram_log16_mult = Some 1 /\ gen_ngram_log16_threads_ptr = true) /\
  (forall depth bucket nr umax powneg castc (s : CmsLog.lsk) (k : key) (n : Z), 0 <= n < 2^64 -> zlen k < 2^63 ->
     CmsLog.ladd_ngram depth bucket nr umax powneg castc s k n =
     fold_left (fun s0 w => CmsLog.add_log depth bucket nr umax powneg castc s0 w (mult_value gen_ngram_log16_mult)) (ngram_log16_windows k n) s).
Proof.
  exact (conj tie_ngram_log16_pieces (conj tie_ngram_log16_windows (conj tie_ngram_log16_spec (conj tie_ngram_log16_call
         (fun depth bucket nr umax powneg castc s => tie_ngram_log16_model depth bucket nr umax powneg castc s))))).
Qed.
