(* KernelTieLogRand.v - _rand (see KernelTieLog.v for the conventions) *)
From Coq Require Import ZArith List Lia Bool ZifyBool.
From Coq Require Import Floats.PrimFloat.
From Sketchnu Require Import Machine BitLemmas Consts KernelsLog CmsLog KernelTieLog.
Import ListNotations.
Open Scope Z_scope.

(* ---------------- _rand l.179-184 ----------------
   gen_rand rand_ptr = (length of the refill or 0, index of the element returned, new rand_ptr) *)
Lemma tie_gen_rand p : 0 <= p < 2^64 - 1 ->
  gen_rand p = if p =? rand_batch_cmp then (rand_batch_gen, 0, 1) else (0, p, p + 1).
Proof.
  intros Hp. unfold gen_rand, rand_batch_cmp, rand_batch_gen. cbv zeta. unwrap.
  split_ifs; unwrap; try reflexivity; try (exfalso; lia); repeat f_equal; lia.
Qed.

(* what a call of _rand does to the random source, assembled from the generated piece: when the refill length is
   positive the batch is replaced by the next one of the stream BEFORE the element is read *)
Definition rand_assembled (rs : rsrc) : float * rsrc :=
  let '(refill, index, p) := gen_rand (rptr rs) in
  if 0 <? refill then
    let nb := hd [] (rfuture rs) in
    (znth nb index f_zero, {| rbatch := nb; rptr := p; rfuture := tl (rfuture rs) |})
  else
    (znth (rbatch rs) index f_zero, {| rbatch := rbatch rs; rptr := p; rfuture := rfuture rs |}).

Lemma tie_rand rs : 0 <= rptr rs < 2^64 - 1 -> rand rs = rand_assembled rs.
Proof.
  intros Hp. unfold rand_assembled, rand. rewrite (tie_gen_rand _ Hp).
  destruct (rptr rs =? rand_batch_cmp) eqn:E.
  - cbv zeta. reflexivity.
  - cbv zeta. replace (rptr rs + 1 - 1) with (rptr rs) by lia. reflexivity.
Qed.

Lemma tie_rand_all :
  (forall p, 0 <= p < 2^64 - 1 ->
     gen_rand p = if p =? rand_batch_cmp then (rand_batch_gen, 0, 1) else (0, p, p + 1)) /\
  (forall rs, 0 <= rptr rs < 2^64 - 1 -> rand rs = rand_assembled rs).
Proof. exact (conj tie_gen_rand tie_rand). Qed.
