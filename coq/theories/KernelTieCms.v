(* KernelTieCms.v (shared lemmas; the ties themselves are in KernelTieCmsMerge / KernelTieCmsQuery / KernelTieCmsAdd,
   one file per source function, so that an edit of one kernel breaks only the obligations of the properties that
   rest on that kernel) — the count-min linear kernel regions regenerated from the source AST on every run
   (generated/KernelsCms.v, harness/pytrans_cms.py) are the corresponding pieces of the hand-written model
   CmsLinear.v.  Array cells are parameters / results of the generated functions; the loop headers
   (for row in range(depth), for col in range(width)) and the row hash are hand-transcribed (C14 pins the row hash).
   The proofs are semantic (case analysis + lia), so an edit of the source that changes the generated definition
   breaks a lemma here unless the edited code provably computes the same function on the stated ranges. *)
From Coq Require Import ZArith List Lia Bool ZifyBool.
From Sketchnu Require Import Machine BitLemmas Consts KernelsCms CmsLinear CmsLinearProofs.
Import ListNotations.
Open Scope Z_scope.

Lemma cap_u32 : 0 <= cap < 2^32.
Proof. rewrite cap_val. lia. Qed.

Lemma wrap32_cap : wrap32 cap = cap.
Proof. apply wrap32_small. exact cap_u32. Qed.

Ltac split_ifs :=
  repeat match goal with
         | |- context [if ?c then _ else _] => destruct c eqn:?
         end.

