(* KernelTieHll.v — _n_leading_zeros64 as regenerated from the source AST (generated/KernelsHll.v) is the modelled function. *)
From Coq Require Import ZArith.
From Sketchnu Require Import Machine KernelsHll Hll.
Open Scope Z_scope.

Lemma tie_nlz64 x : gen_n_leading_zeros64 x = nlz64 x.
Proof. reflexivity. Qed.
