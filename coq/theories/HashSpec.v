(* HashSpec.v — the published algorithms, written independently of the code's shape:
   FastHash (Zilong Tan; smhasher fasthash.cpp) and MurmurHash3_x86_32 (Austin Appleby),
   little-endian, constants as literals, arithmetic modulo 2^64 / 2^32. *)
From Coq Require Import ZArith List.
From Sketchnu Require Import Machine.
Import ListNotations.
Open Scope Z_scope.

Definition M64 : Z := 2^64.
Definition M32 : Z := 2^32.

(* split into consecutive chunks of n bytes; the last one may be shorter *)
Fixpoint chunks_fuel (fuel n : nat) (k : key) : list key :=
  match fuel with
  | O => []
  | S f => match k with
           | [] => []
           | _ => firstn n k :: chunks_fuel f n (skipn n k)
           end
  end.
Definition chunks (n : nat) (k : key) : list key := chunks_fuel (length k) n k.

(* ---- FastHash ---- *)
Definition fh_mix (h : Z) : Z :=
  let h := Z.lxor h (h / 2^23) in
  let h := (h * 0x2127599bf4325c37) mod M64 in
  Z.lxor h (h / 2^47).

Definition fh_step (h v : Z) : Z := (Z.lxor h (fh_mix v) * 0x880355f21e6d1965) mod M64.

(* every chunk (complete 8-byte words and the final 1..7-byte tail alike) is read
   as a little-endian integer and folded in with the same step *)
Definition spec_fasthash64 (k : key) (seed : Z) : Z :=
  let h0 := Z.lxor seed ((zlen k * 0x880355f21e6d1965) mod M64) in
  fh_mix (fold_left (fun h c => fh_step h (le_decode c)) (chunks 8 k) h0).

Definition spec_fh32_fin (h : Z) : Z := (h - h / 2^32) mod M32.
Definition spec_fasthash32 (k : key) (seed : Z) : Z := spec_fh32_fin (spec_fasthash64 k seed).

(* ---- MurmurHash3_x86_32 ---- *)
Definition rotl32s (x r : Z) : Z := ((x * 2^r) mod M32) + x / 2^(32 - r).

Definition mm_scramble (k1 : Z) : Z :=
  let k1 := (k1 * 0xcc9e2d51) mod M32 in
  let k1 := rotl32s k1 15 in
  (k1 * 0x1b873593) mod M32.

Definition mm_body (h : Z) (c : key) : Z :=
  if Nat.eqb (length c) 4 then
    let h := Z.lxor h (mm_scramble (le_decode c)) in
    let h := rotl32s h 13 in
    (h * 5 + 0xe6546b64) mod M32
  else (* tail of 1..3 bytes *)
    Z.lxor h (mm_scramble (le_decode c)).

Definition mm_fmix (h : Z) : Z :=
  let h := Z.lxor h (h / 2^16) in
  let h := (h * 0x85ebca6b) mod M32 in
  let h := Z.lxor h (h / 2^13) in
  let h := (h * 0xc2b2ae35) mod M32 in
  Z.lxor h (h / 2^16).

Definition spec_murmur3 (k : key) (seed : Z) : Z :=
  let h := fold_left mm_body (chunks 4 k) seed in
  mm_fmix (Z.lxor h (zlen k)).
