(* KernelTieCmsQuery.v — _query_linear (see KernelTieCms.v for the conventions) *)
From Coq Require Import ZArith List Lia Bool ZifyBool.
From Sketchnu Require Import Machine BitLemmas Consts KernelsCms CmsLinear CmsLinearProofs KernelTieCms.
Import ListNotations.
Open Scope Z_scope.
(* ---------------- _query_linear l.275-281 ---------------- *)
Lemma tie_query_linear_init : gen_query_linear_init cap = cap.
Proof. unfold gen_query_linear_init. cbv zeta. exact wrap32_cap. Qed.

Lemma tie_query_linear_step acc c : gen_query_linear_step acc c = if c <? acc then c else acc.
Proof. unfold gen_query_linear_step. cbv zeta. split_ifs; lia. Qed.

(* one iteration of the model's row loop is the generated loop body applied to the cell of that row *)
Lemma tie_qrows_step bucket (t : table) (k : key) r rs acc :
  qrows bucket t k (r :: rs) acc = qrows bucket t k rs (gen_query_linear_step acc (t r (bucket r k))).
Proof. rewrite tie_query_linear_step. reflexivity. Qed.

Lemma tie_qrows bucket (t : table) (k : key) rows : forall acc,
  qrows bucket t k rows acc = fold_left (fun acc r => gen_query_linear_step acc (t r (bucket r k))) rows acc.
Proof.
  induction rows as [|r rs IH]; intros acc; [reflexivity|].
  rewrite tie_qrows_step. cbn [fold_left]. apply IH.
Qed.

Lemma tie_query_linear depth bucket (s : sk) (k : key) :
  query depth bucket s k =
  fold_left (fun acc r => gen_query_linear_step acc (cms s r (bucket r k))) (seq 0 depth) (gen_query_linear_init cap).
Proof. rewrite tie_query_linear_init. unfold query. apply tie_qrows. Qed.

Lemma tie_query :
  gen_query_linear_init cap = cap /\
  (forall acc c, gen_query_linear_step acc c = if c <? acc then c else acc) /\
  (forall depth bucket (s : sk) (k : key), query depth bucket s k =
     fold_left (fun acc r => gen_query_linear_step acc (cms s r (bucket r k))) (seq 0 depth) (gen_query_linear_init cap)).
Proof. exact (conj tie_query_linear_init (conj tie_query_linear_step tie_query_linear)). Qed.

