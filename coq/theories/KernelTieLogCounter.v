(* KernelTieLogCounter.v - _log_counter (see KernelTieLog.v for the conventions) *)
From Coq Require Import ZArith Reals List Lia Lra Bool ZifyBool.
From Coq Require Import Floats.PrimFloat.
From Flocq Require Import Core.Core.
From Sketchnu Require Import Machine BitLemmas KernelsLog CmsLog CmsLogProofs CmsLogFloat KernelTieLog.
Import ListNotations.
Open Scope Z_scope.

(* ---------------- `cprime = float64(counter) - float64(num_reserved); if cprime < 0` l.229-230 ----------------
   for integers below 2^53 the binary64 subtraction is exact, so the float test is the integer test
   (through the standard library's FloatAxioms and Flocq, like the lemmas of CmsLogFloat.v) *)
Lemma cprime_neg_is_integer_test c nr : 0 <= c < 2^53 -> 0 <= nr < 2^53 ->
  PrimFloat.ltb (PrimFloat.sub (z2f c) (z2f nr)) f_zero = (c - nr <? 0).
Proof.
  intros Hc Hn.
  destruct (z2f_FR c Hc) as [Fc Rc]. destruct (z2f_FR nr Hn) as [Fn Rn].
  assert (Hb : (Rabs (FR (z2f c) - FR (z2f nr)) <= bpow radix2 1000)%R).
  { rewrite Rc, Rn, <- minus_IZR. apply small_le_1000. lia. }
  destruct (sub_FR _ _ Fc Fn Hb) as [Fd Rd].
  rewrite Rc, Rn, <- minus_IZR, rnd_int in Rd by lia.
  destruct FR_zero as [Fz Rz].
  rewrite (ltb_FR _ _ Fd Fz), Rd, Rz.
  destruct (Rlt_bool_spec (IZR (c - nr)) 0) as [H|H]; destruct (c - nr <? 0) eqn:E; try reflexivity; exfalso.
  - apply lt_IZR in H. lia.
  - apply le_IZR in H. lia.
Qed.

Section Step.
Variable fpow : PrimFloat.float -> PrimFloat.float -> PrimFloat.float.     (* libm pow *)
Variable base : PrimFloat.float.
Variable nr umax : Z.
Variable powneg : Z -> PrimFloat.float.

(* ---------------- _log_counter l.223, l.226-235: one iteration of the loop ----------------
   the generated body gets the number a call of _rand would return and says whether the call happened;
   the random source moves on exactly when it did *)
Definition lc_step_assembled (st : Z * rsrc) : option (Z * rsrc) :=
  let '(counter, rs) := st in
  let '(r, rs') := rand rs in
  match gen_log_counter_step fpow base r counter nr umax with
  | None => None
  | Some (counter', drew) => Some (counter', if 0 <? drew then rs' else rs)
  end.

(* the ceiling: `if counter >= uint_maxval: return` (no float fact needed) *)
Lemma tie_log_counter_ceiling r c : 0 <= umax < 2^16 -> umax <= c < 2^16 ->
  gen_log_counter_step fpow base r c nr umax = None.
Proof.
  intros Hu Hc. unfold gen_log_counter_step. cbv zeta. unwrap.
  match goal with |- (if ?t then _ else _) = _ => destruct t eqn:E end; [reflexivity|exfalso; lia].
Qed.

Hypothesis nr_range : 0 <= nr < 2^16.
Hypothesis umax_range : 0 <= umax < 2^16.
(* the meaning of the table powneg (DESIGN 3.4): what the code computes for base ** (-cprime) *)
Hypothesis powneg_is_pow : forall c, nr <= c < umax ->
  fpow base (PrimFloat.opp (PrimFloat.sub (z2f c) (z2f nr))) = powneg (c - nr).

Lemma tie_gen_log_counter_step r c : 0 <= c < 2^16 ->
  gen_log_counter_step fpow base r c nr umax =
  if c >=? umax then None
  else if c - nr <? 0 then Some (c + 1, 0)
  else if PrimFloat.ltb r (powneg (c - nr)) then Some (c + 1, 1) else Some (c, 1).
Proof.
  intros Hc. unfold gen_log_counter_step. cbv zeta. unwrap.
  rewrite (gen_u64f_small c), (gen_u64f_small nr) by lia.
  change (0x0.0p+0)%float with f_zero.
  rewrite cprime_neg_is_integer_test by lia.
  destruct (c >=? umax) eqn:E.
  - match goal with |- (if ?t then _ else _) = _ => destruct t eqn:E' end; [reflexivity|exfalso; lia].
  - match goal with |- (if ?t then _ else _) = _ => destruct t eqn:E' end; [exfalso; lia|].
    destruct (c - nr <? 0) eqn:E2; [unwrap; reflexivity|].
    rewrite powneg_is_pow by lia. unwrap. reflexivity.
Qed.

Lemma tie_lc_step c rs : 0 <= c < 2^16 ->
  lc_step nr umax powneg (c, rs) = lc_step_assembled (c, rs).
Proof.
  intros Hc. unfold lc_step_assembled, lc_step. cbv zeta.
  destruct (rand rs) as [r rs'] eqn:Er. rewrite (tie_gen_log_counter_step r c Hc).
  destruct (c >=? umax); [reflexivity|].
  destruct (c - nr <? 0); [reflexivity|].
  destruct (PrimFloat.ltb r (powneg (c - nr))); reflexivity.
Qed.

(* the loop `for i in range(value)` iterating the assembled body (hand-transcribed header) *)
Fixpoint lc_iter_assembled (n : nat) (st : Z * rsrc) : Z * rsrc :=
  match n with
  | O => st
  | S n' => match lc_step_assembled st with None => st | Some st' => lc_iter_assembled n' st' end
  end.

Lemma lc_step_keeps_range c rs c' rs' : 0 <= c < 2^16 ->
  lc_step nr umax powneg (c, rs) = Some (c', rs') -> 0 <= c' < 2^16.
Proof.
  intros Hc. unfold lc_step. destruct (c >=? umax) eqn:E; [discriminate|].
  destruct (c - nr <? 0).
  - intros H. inversion H. lia.
  - destruct (rand rs) as [r rs1]. destruct (PrimFloat.ltb r (powneg (c - nr))); intros H; inversion H; lia.
Qed.

Lemma tie_lc_iter n : forall c rs, 0 <= c < 2^16 ->
  lc_iter_nat nr umax powneg n (c, rs) = lc_iter_assembled n (c, rs).
Proof.
  induction n as [|n IH]; intros c rs Hc; [reflexivity|].
  cbn [lc_iter_nat lc_iter_assembled]. rewrite <- (tie_lc_step c rs Hc).
  destruct (lc_step nr umax powneg (c, rs)) as [[c' rs']|] eqn:E; [|reflexivity].
  apply IH. exact (lc_step_keeps_range c rs c' rs' Hc E).
Qed.

(* the whole function: the loop, then the cast of the declared return type (vacuous in range) *)
Lemma tie_log_counter c rs v : 0 <= c < 2^16 ->
  log_counter nr umax powneg c rs v = lc_iter_assembled (Z.to_nat v) (c, rs).
Proof. intros Hc. rewrite log_counter_nat_eq. apply tie_lc_iter. exact Hc. Qed.
End Step.

Lemma tie_log_counter_ret c p : 0 <= c < 2^16 -> 0 <= p < 2^64 -> gen_log_counter_ret c p = (c, p).
Proof.
  intros Hc Hp. unfold gen_log_counter_ret. unwrap. reflexivity.
Qed.

Lemma tie_log_counter_all fpow base nr umax powneg :
  0 <= nr < 2^16 -> 0 <= umax < 2^16 ->
  (forall c, nr <= c < umax -> fpow base (PrimFloat.opp (PrimFloat.sub (z2f c) (z2f nr))) = powneg (c - nr)) ->
  (forall r c, 0 <= c < 2^16 ->
     gen_log_counter_step fpow base r c nr umax =
     if c >=? umax then None
     else if c - nr <? 0 then Some (c + 1, 0)
     else if PrimFloat.ltb r (powneg (c - nr)) then Some (c + 1, 1) else Some (c, 1)) /\
  (forall c rs, 0 <= c < 2^16 -> lc_step nr umax powneg (c, rs) = lc_step_assembled fpow base nr umax (c, rs)) /\
  (forall c rs v, 0 <= c < 2^16 ->
     log_counter nr umax powneg c rs v = lc_iter_assembled fpow base nr umax (Z.to_nat v) (c, rs)) /\
  (forall c p, 0 <= c < 2^16 -> 0 <= p < 2^64 -> gen_log_counter_ret c p = (c, p)).
Proof.
  intros Hn Hu Hp. split; [|split; [|split]].
  - intros r c. apply tie_gen_log_counter_step; assumption.
  - intros c rs. apply tie_lc_step; assumption.
  - intros c rs v. apply tie_log_counter; assumption.
  - exact tie_log_counter_ret.
Qed.
