(* BitLemmas.v — arithmetic meaning of the word operations used by the models. *)
From Coq Require Import ZArith List Lia Bool.
From Sketchnu Require Import Machine.
Import ListNotations.
Open Scope Z_scope.

Lemma mask64_ones : mask64 = Z.ones 64. Proof. reflexivity. Qed.
Lemma mask32_ones : mask32 = Z.ones 32. Proof. reflexivity. Qed.
Lemma mask16_ones : mask16 = Z.ones 16. Proof. reflexivity. Qed.
Lemma mask8_ones : mask8 = Z.ones 8. Proof. reflexivity. Qed.

Lemma wrap64_mod x : wrap64 x = x mod 2^64.
Proof. unfold wrap64. rewrite mask64_ones. apply Z.land_ones. lia. Qed.
Lemma wrap32_mod x : wrap32 x = x mod 2^32.
Proof. unfold wrap32. rewrite mask32_ones. apply Z.land_ones. lia. Qed.
Lemma wrap16_mod x : wrap16 x = x mod 2^16.
Proof. unfold wrap16. rewrite mask16_ones. apply Z.land_ones. lia. Qed.
Lemma wrap8_mod x : wrap8 x = x mod 2^8.
Proof. unfold wrap8. rewrite mask8_ones. apply Z.land_ones. lia. Qed.

Lemma wrap64_small x : 0 <= x < 2^64 -> wrap64 x = x.
Proof. intros. rewrite wrap64_mod. apply Z.mod_small. assumption. Qed.
Lemma wrap32_small x : 0 <= x < 2^32 -> wrap32 x = x.
Proof. intros. rewrite wrap32_mod. apply Z.mod_small. assumption. Qed.

Lemma wrap64_range x : 0 <= wrap64 x < 2^64.
Proof. rewrite wrap64_mod. apply Z.mod_pos_bound. lia. Qed.
Lemma wrap32_range x : 0 <= wrap32 x < 2^32.
Proof. rewrite wrap32_mod. apply Z.mod_pos_bound. lia. Qed.

Lemma wrap32_wrap64 x : wrap32 (wrap64 x) = wrap32 x.
Proof.
  unfold wrap32, wrap64. rewrite <- Z.land_assoc. f_equal.
Qed.
Lemma wrap32_idem x : wrap32 (wrap32 x) = wrap32 x.
Proof. unfold wrap32. rewrite <- Z.land_assoc. f_equal. Qed.
Lemma wrap64_idem x : wrap64 (wrap64 x) = wrap64 x.
Proof. unfold wrap64. rewrite <- Z.land_assoc. f_equal. Qed.

Lemma shiftr_div x k : 0 <= k -> Z.shiftr x k = x / 2^k.
Proof. intros. apply Z.shiftr_div_pow2. assumption. Qed.

Lemma testbit_small a k n : 0 <= a < 2^k -> k <= n -> Z.testbit a n = false.
Proof.
  intros [Ha Hk] Hn.
  destruct (Z.eq_dec a 0) as [->|Hz]; [apply Z.bits_0|].
  apply Z.bits_above_log2; [assumption|].
  assert (0 <= k) by (destruct (Z.le_gt_cases 0 k); [assumption|rewrite Z.pow_neg_r in Hk; lia]).
  assert (Z.log2 a < k) by (apply Z.log2_lt_pow2; lia). lia.
Qed.

(* a below 2^k and c shifted by k have disjoint bits *)
Lemma land_disjoint a c k : 0 <= a < 2^k -> 0 <= k -> Z.land a (c * 2^k) = 0.
Proof.
  intros Ha Hk. apply Z.bits_inj'. intros n Hn.
  rewrite Z.land_spec, Z.bits_0. rewrite <- Z.shiftl_mul_pow2 by assumption.
  destruct (Z.ltb_spec n k).
  - rewrite Z.shiftl_spec_low by assumption. apply andb_false_r.
  - rewrite (testbit_small a k n) by (try assumption; lia). reflexivity.
Qed.

Lemma lor_disjoint_add a c k : 0 <= a < 2^k -> 0 <= k -> Z.lor a (c * 2^k) = a + c * 2^k.
Proof.
  intros Ha Hk. pose proof (land_disjoint a c k Ha Hk) as H.
  rewrite <- Z.lxor_lor by assumption. symmetry. apply Z.add_nocarry_lxor. assumption.
Qed.

Lemma lxor_disjoint_add a c k : 0 <= a < 2^k -> 0 <= k -> Z.lxor (c * 2^k) a = c * 2^k + a.
Proof.
  intros Ha Hk. pose proof (land_disjoint a c k Ha Hk) as H.
  rewrite Z.lxor_comm. rewrite Z.add_comm. symmetry. apply Z.add_nocarry_lxor. assumption.
Qed.

Lemma lor_shiftl_add a b k : 0 <= a < 2^k -> 0 <= k -> Z.lor a (Z.shiftl b k) = a + b * 2^k.
Proof. intros. rewrite Z.shiftl_mul_pow2 by assumption. apply lor_disjoint_add; assumption. Qed.

(* le_decode basics *)
Lemma le_decode_range k : bytes k -> 0 <= le_decode k < 2^(8 * zlen k).
Proof.
  unfold bytes, zlen. induction 1 as [|b r Hb Hr IH].
  - simpl. lia.
  - cbn [le_decode length]. unfold is_byte in Hb.
    rewrite Nat2Z.inj_succ. replace (8 * Z.succ (Z.of_nat (length r))) with (8 + 8 * Z.of_nat (length r)) by lia.
    rewrite Z.pow_add_r by lia. change (2^8) with 256. lia.
Qed.

(* lor-form of little-endian decoding *)
Fixpoint le_lor (k : key) : Z :=
  match k with [] => 0 | b :: r => Z.lor b (Z.shiftl (le_lor r) 8) end.

Lemma le_lor_decode k : bytes k -> le_lor k = le_decode k.
Proof.
  unfold bytes. induction 1 as [|b r Hb Hr IH]; [reflexivity|].
  cbn [le_lor le_decode]. rewrite IH. unfold is_byte in Hb.
  rewrite lor_shiftl_add by (change (2^8) with 256; lia). change (2^8) with 256. lia.
Qed.

Lemma bytes_cons b r : bytes (b :: r) <-> is_byte b /\ bytes r.
Proof. unfold bytes. split; intros H; [inversion H; auto | destruct H; constructor; auto]. Qed.

Lemma bytes_app a b : bytes (a ++ b) <-> bytes a /\ bytes b.
Proof. unfold bytes. apply Forall_app. Qed.

Lemma bytes_firstn n k : bytes k -> bytes (firstn n k).
Proof.
  unfold bytes. intros H. rewrite <- (firstn_skipn n k) in H. apply Forall_app in H. tauto.
Qed.

Lemma bytes_skipn n k : bytes k -> bytes (skipn n k).
Proof.
  unfold bytes. intros H. rewrite <- (firstn_skipn n k) in H. apply Forall_app in H. tauto.
Qed.

Lemma bytesb_spec k : bytesb k = true <-> bytes k.
Proof.
  unfold bytesb, bytes. rewrite forallb_forall, Forall_forall. unfold is_byteb, is_byte.
  split; intros H x Hx; specialize (H x Hx); lia.
Qed.

Lemma keqb_spec a b : reflect (a = b) (keqb a b).
Proof.
  apply iff_reflect. revert b. induction a as [|x a IH]; intros [|y b]; cbn [keqb]; try (split; congruence).
  rewrite andb_true_iff, Z.eqb_eq, <- IH. split; [intros H; inversion H; auto|intros [-> ->]; reflexivity].
Qed.
