(* Hll.v — transcription of the register side of /repo/sketchnu/hyperloglog.py
   (_n_leading_zeros64, _add, _add_ngram, _merge and the class methods
   __init__/add/update/add_ngram/update_ngram/merge), function for function and
   branch for branch.  Definitions only.

   Integer types are the ones Numba 0.67 infers (read with inspect_types()):
     _n_leading_zeros64 : n starts as uint8(64) but every `n - uint8(k)` is typed
        uint64 (small unsigned ints are promoted to uintp), so n is a uint64 after the
        first join; the result is cast to uint8 at `return` (signature uint8(uint64)).
     _add : `m - 1` is int64 (uint64 op literal int -> int64), cast back by uint64(..);
        `_n_leading_zeros64(bits) - p` is uint64; `.. + 1` is int64; max(uint8, int64)
        is int64; the store into the uint8 array truncates.
   Every one of these wraps is written out here and shown vacuous in HllProofs.v. *)
From Coq Require Import ZArith List Bool.
From Sketchnu Require Import Machine Consts Hashes Ngram.
Import ListNotations.
Open Scope Z_scope.

Definition two63 : Z := Eval compute in 2^63.
Definition two64 : Z := Eval compute in 2^64.

(* reinterpretation of a value as int64 (two's complement) *)
Definition wrap_i64 (x : Z) : Z :=
  let y := wrap64 x in if y <? two63 then y else y - two64.

(* a register file: index -> uint8 value *)
Definition regs := Z -> Z.

(* hyperloglog.py l.87-129  _n_leading_zeros64(x) : uint8 *)
Definition nlz64 (x : Z) : Z :=
  let zero := wrap64 0 in                                  (* l.103 *)
  let n := wrap8 64 in                                     (* l.104 *)
  let y := Z.shiftr x (wrap64 32) in                       (* l.105 *)
  let '(n, x) := if negb (y =? zero)                       (* l.106 *)
                 then (wrap64 (n - wrap8 32), y)           (* l.107-108 *)
                 else (n, x) in
  let y := Z.shiftr x (wrap64 16) in                       (* l.109 *)
  let '(n, x) := if negb (y =? zero)
                 then (wrap64 (n - wrap8 16), y)           (* l.111-112 *)
                 else (n, x) in
  let y := Z.shiftr x (wrap64 8) in                        (* l.113 *)
  let '(n, x) := if negb (y =? zero)
                 then (wrap64 (n - wrap8 8), y)            (* l.115-116 *)
                 else (n, x) in
  let y := Z.shiftr x (wrap64 4) in                        (* l.117 *)
  let '(n, x) := if negb (y =? zero)
                 then (wrap64 (n - wrap8 4), y)            (* l.119-120 *)
                 else (n, x) in
  let y := Z.shiftr x (wrap64 2) in                        (* l.121 *)
  let '(n, x) := if negb (y =? zero)
                 then (wrap64 (n - wrap8 2), y)            (* l.123-124 *)
                 else (n, x) in
  let y := Z.shiftr x (wrap64 1) in                        (* l.125 *)
  if negb (y =? zero)
  then wrap8 (wrap64 (n - wrap8 2))                        (* l.127 *)
  else wrap8 (wrap64 (n - wrap8 x)).                       (* l.129 *)

(* l.191  reg_idx = hash_val & uint64(m - 1) *)
Definition hll_idx (m hash_val : Z) : Z :=
  Z.land hash_val (wrap64 (wrap_i64 (wrap_i64 m - 1))).

(* l.193-198  bits = hash_val >> p ; rank = _n_leading_zeros64(bits) - p + 1 *)
Definition hll_rank (p hash_val : Z) : Z :=
  let bits := Z.shiftr hash_val p in
  wrap_i64 (wrap_i64 (wrap64 (nlz64 bits - p)) + 1).

(* hyperloglog.py l.166-201  _add(registers, seed, p, m, key) *)
Definition hll_add (registers : regs) (seed p m : Z) (k : key) : regs :=
  let hash_val := fasthash64 k seed in                     (* l.189 *)
  let reg_idx := hll_idx m hash_val in                     (* l.191 *)
  let rank := hll_rank p hash_val in                       (* l.193-198 *)
  let v := wrap8 (Z.max (registers reg_idx) rank) in       (* l.199 *)
  fun i => if i =? reg_idx then v else registers i.

(* hyperloglog.py l.209-236  _add_ngram(registers, seed, p, m, key, ngram);
   the window loop is Ngram.ngram_windows *)
Definition hll_add_ngram (registers : regs) (seed p m : Z) (k : key) (ngram : Z) : regs :=
  fold_left (fun r w => hll_add r seed p m w) (ngram_windows k ngram) registers.

(* hyperloglog.py l.239-259  _merge(registers, other_registers, m) *)
Definition hll_merge (registers other : regs) (m : Z) : regs :=
  fun i => if (0 <=? i) && (i <? m)
           then wrap8 (Z.max (registers i) (other i))      (* l.259 *)
           else registers i.

(* ---------------- the Python class ---------------- *)
Record hll := mkHll { hll_p : Z; hll_seed : Z; hll_m : Z; hll_registers : regs }.

Definition hll_set_registers (s : hll) (r : regs) : hll :=
  mkHll (hll_p s) (hll_seed s) (hll_m s) r.

(* what __init__ builds once its range check passed: m = uint64(1) << p, zeroed registers *)
Definition hll_new (p seed : Z) : hll :=
  mkHll p seed (wrap64 (Z.shiftl 1 p)) (fun _ => 0).

(* l.294-343  __init__(p, seed): p, seed are converted with np.uint64 (which raises
   outside [0, 2^64): precondition of the model); None = ValueError *)
Definition hll_init (p seed : Z) : option hll :=
  if (p >? hll_p_max) || (p <? hll_p_min) then None      (* l.321-322 *)
  else Some (hll_new p seed).

(* l.345-368  add(key, value=1): value is ignored *)
Definition cls_add (s : hll) (k : key) (value : Z) : hll :=
  hll_set_registers s (hll_add (hll_registers s) (hll_seed s) (hll_p s) (hll_m s) k).

(* l.370-398  update(keys): `for key in keys: self.add(key)` *)
Definition cls_update (s : hll) (keys : list key) : hll :=
  fold_left (fun s k => cls_add s k 1) keys s.

(* the same loop when `keys` is a dict (an association list in insertion order):
   iterating a dict yields its keys, the counts are never read *)
Definition cls_update_dict (s : hll) (d : list (key * Z)) : hll :=
  cls_update s (map fst d).

(* l.400-419  add_ngram(key, ngram): ngram = np.uint64(ngram) raises outside [0, 2^64) *)
Definition cls_add_ngram (s : hll) (k : key) (ngram : Z) : hll :=
  hll_set_registers s
    (hll_add_ngram (hll_registers s) (hll_seed s) (hll_p s) (hll_m s) k ngram).

(* l.421-449  update_ngram(keys, ngram) *)
Definition cls_update_ngram (s : hll) (keys : list key) (ngram : Z) : hll :=
  fold_left (fun s k => cls_add_ngram s k ngram) keys s.

(* l.469-491  merge(other): None = TypeError (raised before anything is written) *)
Definition cls_merge (s other : hll) : option hll :=
  if negb (hll_p s =? hll_p other) || negb (hll_seed s =? hll_seed other) then None   (* l.488 *)
  else Some (hll_set_registers s (hll_merge (hll_registers s) (hll_registers other) (hll_m s))).

(* ---------------- histories (fixed precision and seed) ---------------- *)
Inductive hll_hist :=
| HlNew                                                    (* HyperLogLog(p, seed) *)
| HlAdd (h : hll_hist) (k : key) (v : Z)                   (* h.add(k, v) *)
| HlUpdate (h : hll_hist) (ks : list key)                  (* h.update([..]) *)
| HlUpdateDict (h : hll_hist) (d : list (key * Z))         (* h.update({..}) *)
| HlNgram (h : hll_hist) (k : key) (n : Z)                 (* h.add_ngram(k, n) *)
| HlUpdateNgram (h : hll_hist) (ks : list key) (n : Z)     (* h.update_ngram([..], n) *)
| HlMerge (h1 h2 : hll_hist).                              (* h1.merge(h2) *)

Fixpoint hll_eval (p seed : Z) (h : hll_hist) : hll :=
  match h with
  | HlNew => hll_new p seed
  | HlAdd h k v => cls_add (hll_eval p seed h) k v
  | HlUpdate h ks => cls_update (hll_eval p seed h) ks
  | HlUpdateDict h d => cls_update_dict (hll_eval p seed h) d
  | HlNgram h k n => cls_add_ngram (hll_eval p seed h) k n
  | HlUpdateNgram h ks n => cls_update_ngram (hll_eval p seed h) ks n
  | HlMerge h1 h2 =>
      let a := hll_eval p seed h1 in
      match cls_merge a (hll_eval p seed h2) with Some s => s | None => a end
  end.

Definition hll_reg (p seed : Z) (h : hll_hist) (i : Z) : Z :=
  hll_registers (hll_eval p seed h) i.

(* all keys at the leaves of a history, stated with the specification `windows`
   (every length-n slice, or the key itself when it is not longer than n) *)
Fixpoint hll_keys (h : hll_hist) : list key :=
  match h with
  | HlNew => []
  | HlAdd h k _ => hll_keys h ++ [k]
  | HlUpdate h ks => hll_keys h ++ ks
  | HlUpdateDict h d => hll_keys h ++ map fst d
  | HlNgram h k n => hll_keys h ++ windows (Z.to_nat n) k
  | HlUpdateNgram h ks n => hll_keys h ++ flat_map (windows (Z.to_nat n)) ks
  | HlMerge h1 h2 => hll_keys h1 ++ hll_keys h2
  end.

(* the same with the kernels' uint64 index loop (no side condition needed) *)
Fixpoint hll_keys_raw (h : hll_hist) : list key :=
  match h with
  | HlNew => []
  | HlAdd h k _ => hll_keys_raw h ++ [k]
  | HlUpdate h ks => hll_keys_raw h ++ ks
  | HlUpdateDict h d => hll_keys_raw h ++ map fst d
  | HlNgram h k n => hll_keys_raw h ++ ngram_windows k n
  | HlUpdateNgram h ks n => hll_keys_raw h ++ flat_map (fun k => ngram_windows k n) ks
  | HlMerge h1 h2 => hll_keys_raw h1 ++ hll_keys_raw h2
  end.

(* side conditions of a history: ngram sizes are 1..2^64-1 and keys are shorter than 2^64 bytes *)
Fixpoint hll_wf (h : hll_hist) : Prop :=
  match h with
  | HlNew => True
  | HlAdd h _ _ | HlUpdate h _ | HlUpdateDict h _ => hll_wf h
  | HlNgram h k n => hll_wf h /\ 1 <= n < 2^64 /\ zlen k < 2^64
  | HlUpdateNgram h ks n => hll_wf h /\ 1 <= n < 2^64 /\ Forall (fun k => zlen k < 2^64) ks
  | HlMerge h1 h2 => hll_wf h1 /\ hll_wf h2
  end.

(* desugaring: only new / add / merge remain *)
Definition hl_adds (h : hll_hist) (ks : list key) : hll_hist :=
  fold_left (fun h k => HlAdd h k 1) ks h.

Fixpoint hll_desugar (h : hll_hist) : hll_hist :=
  match h with
  | HlNew => HlNew
  | HlAdd h k v => HlAdd (hll_desugar h) k 1
  | HlUpdate h ks => hl_adds (hll_desugar h) ks
  | HlUpdateDict h d => hl_adds (hll_desugar h) (map fst d)
  | HlNgram h k n => hl_adds (hll_desugar h) (ngram_windows k n)
  | HlUpdateNgram h ks n => hl_adds (hll_desugar h) (flat_map (fun k => ngram_windows k n) ks)
  | HlMerge h1 h2 => HlMerge (hll_desugar h1) (hll_desugar h2)
  end.

(* ---------------- specification vocabulary ---------------- *)
Definition list_max0 (l : list Z) : Z := fold_right Z.max 0 l.

(* the property text: index = low p bits of the hash; rank = 1 + leading zeros of the
   remaining 64-p bits, viewed as a (64-p)-bit field *)
Definition spec_idx (p hv : Z) : Z := hv mod 2^p.
Definition spec_rank (p hv : Z) : Z :=
  let bits := hv / 2^p in
  if bits =? 0 then 64 - p + 1 else (64 - p) - (Z.log2 bits + 1) + 1.

(* max, over the keys whose hash has index i, of their rank; 0 when there is none *)
Definition spec_reg (p seed : Z) (ks : list key) (i : Z) : Z :=
  list_max0 (map (fun k => spec_rank p (fasthash64 k seed))
                 (filter (fun k => spec_idx p (fasthash64 k seed) =? i) ks)).

(* registers 0..m-1 as a list (what query() and save() read) *)
Fixpoint reg_list_from (r : regs) (i : Z) (n : nat) : list Z :=
  match n with O => [] | S n' => r i :: reg_list_from r (i + 1) n' end.
Definition hll_reg_list (r : regs) (m : Z) : list Z := reg_list_from r 0 (Z.to_nat m).

Definition key_eq_dec : forall a b : key, {a = b} + {a <> b} := list_eq_dec Z.eq_dec.

(* ---------------- helpers for the generated case files ---------------- *)
Definition count_nonzero (r : regs) (m : Z) : Z :=
  fst (Z.iter m (fun ci => let '(c, i) := ci in ((if r i =? 0 then c else c + 1), i + 1)) (0, 0)).

(* expected = the implementation's non-zero registers as (index, value) pairs and their number *)
Definition hll_check_regs (r : regs) (m : Z) (expect : list (Z * Z)) (nnz : Z) : bool :=
  forallb (fun iv => r (fst iv) =? snd iv) expect && (count_nonzero r m =? nnz).

(* m = the implementation's attribute m *)
Definition hll_check_case (p seed : Z) (h : hll_hist) (m : Z) (expect : list (Z * Z)) (nnz : Z) : bool :=
  let s := hll_eval p seed h in
  (hll_m s =? m) && hll_check_regs (hll_registers s) m expect nnz.

Definition hll_show (r : regs) (m : Z) : list (Z * Z) :=
  rev (fst (Z.iter m (fun ai => let '(a, i) := ai in ((if r i =? 0 then a else (i, r i) :: a), i + 1)) ([], 0))).
