(* HHProofs.v — heavy hitters: cell level lemmas, invariants over histories, C03 and C04. *)
From Coq Require Import ZArith List Lia Bool ZifyBool Arith Permutation Sorted.
From Sketchnu Require Import Machine BitLemmas Consts Ngram HH.
Import ListNotations.
Open Scope Z_scope.

Lemma cap_val : hh_cap = 4294967295. Proof. reflexivity. Qed.
Lemma wrap8_small x : 0 <= x < 256 -> wrap8 x = x.
Proof. intros. rewrite wrap8_mod. apply Z.mod_small. change (2^8) with 256. lia. Qed.

(* ------------------------------------------------------------------ generic list facts *)
Lemma fold_left_ext {A B} (f g : A -> B -> A) l a :
  (forall a b, In b l -> f a b = g a b) -> fold_left f l a = fold_left g l a.
Proof.
  revert a. induction l as [|x l IH]; intros a H; [reflexivity|]. cbn [fold_left].
  rewrite H by (left; reflexivity). apply IH. intros; apply H; right; assumption.
Qed.

Lemma keqb_refl k : keqb k k = true.
Proof. destruct (keqb_spec k k); congruence. Qed.
Lemma keqb_eq a b : keqb a b = true <-> a = b.
Proof. destruct (keqb_spec a b); split; congruence. Qed.
Lemma keqb_neq a b : keqb a b = false <-> a <> b.
Proof. destruct (keqb_spec a b); split; congruence. Qed.
Lemma keqb_sym a b : keqb a b = keqb b a.
Proof. destruct (keqb_spec a b), (keqb_spec b a); congruence. Qed.

Ltac kd := repeat match goal with
  | |- context [keqb ?a ?b] => destruct (keqb_spec a b)
  | H : context [keqb ?a ?b] |- _ => destruct (keqb_spec a b)
  end.

(* ------------------------------------------------------------------ weighted sums *)
Definition nonneg (l : list (key * Z)) : Prop := Forall (fun kv => 0 <= snd kv) l.

Lemma wsum_app f a b : wsum f (a ++ b) = wsum f a + wsum f b.
Proof. unfold wsum. induction a as [|x a IH]; cbn [app fold_right]; lia. Qed.
Lemma wsum_nil f : wsum f [] = 0. Proof. reflexivity. Qed.
Lemma wsum_one f k v : wsum f [(k, v)] = if f k then v else 0.
Proof. unfold wsum. cbn. destruct (f k); lia. Qed.
Lemma wsum_nonneg f l : nonneg l -> 0 <= wsum f l.
Proof.
  unfold wsum, nonneg. induction 1 as [|x l Hx Hl IH]; cbn [fold_right]; [lia|]. destruct (f (fst x)); lia.
Qed.
Lemma wsum_le f g l : nonneg l -> (forall k, f k = true -> g k = true) -> wsum f l <= wsum g l.
Proof.
  unfold wsum, nonneg. intros H Hfg. induction H as [|x l Hx Hl IH]; cbn [fold_right]; [lia|].
  destruct (f (fst x)) eqn:E; [rewrite (Hfg _ E); lia|]. destruct (g (fst x)); lia.
Qed.
(* two disjoint predicates sum below a third that contains both *)
Lemma wsum_disj f g t l : nonneg l -> (forall k, f k = true -> g k = true -> False) ->
  (forall k, f k = true -> t k = true) -> (forall k, g k = true -> t k = true) ->
  wsum f l + wsum g l <= wsum t l.
Proof.
  unfold wsum, nonneg. intros H Hd Hf Hg. induction H as [|x l Hx Hl IH]; cbn [fold_right]; [lia|].
  destruct (f (fst x)) eqn:E1, (g (fst x)) eqn:E2.
  - exfalso; eauto.
  - rewrite (Hf _ E1). lia.
  - rewrite (Hg _ E2). lia.
  - destruct (t (fst x)); lia.
Qed.
Lemma nonneg_app a b : nonneg (a ++ b) <-> nonneg a /\ nonneg b.
Proof. apply Forall_app. Qed.

(* ------------------------------------------------------------------ abstract cell (stored key, count) *)
Definition acell := (key * Z)%type.
Definition a_add (c : acell) (k : key) (v : Z) : acell :=
  if keqb k (fst c) then
    if v <? hh_cap - snd c then (fst c, snd c + v) else (fst c, hh_cap)
  else if v >? snd c then (k, v - snd c) else (fst c, snd c - v).
Definition a_merge (a b : acell) : acell :=
  if keqb (fst a) (fst b) then
    if snd b >? hh_cap - snd a then (fst a, hh_cap) else (fst a, snd a + snd b)
  else if snd a >=? snd b then (fst a, snd a - snd b) else (fst b, snd b - snd a).
Definition aphi (x : key) (c : acell) : Z := if keqb x (fst c) then snd c else - snd c.

(* the three lemmas named by C04's mechanism *)
Lemma phi_add_same x c v :
  0 <= snd c -> 0 <= v -> snd c + v <= hh_cap -> aphi x (a_add c x v) = aphi x c + v.
Proof.
  intros Hc Hv Hs. unfold aphi, a_add. pose proof cap_val.
  destruct (v <? hh_cap - snd c) eqn:?; destruct (v >? snd c) eqn:?;
    kd; cbn [fst snd] in *; kd; subst; try congruence; lia.
Qed.
Lemma phi_add_other x c k v :
  0 <= snd c <= hh_cap -> 0 <= v -> k <> x -> aphi x c - v <= aphi x (a_add c k v).
Proof.
  intros Hc Hv Hk. unfold aphi, a_add. pose proof cap_val.
  destruct (v <? hh_cap - snd c) eqn:?; destruct (v >? snd c) eqn:?;
    kd; cbn [fst snd] in *; kd; subst; try congruence; lia.
Qed.
Lemma phi_merge_superadd x a b :
  0 <= snd a -> 0 <= snd b -> snd a + snd b <= hh_cap -> aphi x a + aphi x b <= aphi x (a_merge a b).
Proof.
  intros Ha Hb Hs. unfold aphi, a_merge. pose proof cap_val.
  destruct (snd b >? hh_cap - snd a) eqn:?; destruct (snd a >=? snd b) eqn:?;
    kd; cbn [fst snd] in *; kd; subst; try congruence; lia.
Qed.

(* soundness: the count of the stored key is at most the multiplicity fs of that key *)
Lemma sound_add c k v v' (fs : key -> Z) :
  (forall y, 0 <= fs y) -> 0 <= snd c -> 0 <= v' <= v -> snd c <= fs (fst c) ->
  snd (a_add c k v') <= (if keqb (fst (a_add c k v')) k then fs k + v else fs (fst (a_add c k v'))).
Proof.
  intros Hf Hc Hv H. unfold a_add. pose proof (Hf k). pose proof cap_val.
  destruct (v' <? hh_cap - snd c) eqn:?; destruct (v' >? snd c) eqn:?;
    kd; cbn [fst snd] in *; kd; subst; try congruence; try lia.
Qed.
Lemma sound_merge a b (fa fb : key -> Z) :
  (forall y, 0 <= fa y) -> (forall y, 0 <= fb y) -> 0 <= snd a -> 0 <= snd b ->
  snd a <= fa (fst a) -> snd b <= fb (fst b) ->
  snd (a_merge a b) <= fa (fst (a_merge a b)) + fb (fst (a_merge a b)).
Proof.
  intros Hfa Hfb Ha Hb H1 H2. unfold a_merge. pose proof cap_val.
  pose proof (Hfa (fst a)). pose proof (Hfa (fst b)). pose proof (Hfb (fst a)). pose proof (Hfb (fst b)).
  destruct (snd b >? hh_cap - snd a) eqn:?; destruct (snd a >=? snd b) eqn:?;
    kd; cbn [fst snd] in *; kd; subst; try congruence; try lia.
  all: rewrite <- e in *; lia.
Qed.
Lemma a_add_range c k v : 0 <= snd c <= hh_cap -> 0 <= v <= hh_cap -> 0 <= snd (a_add c k v) <= hh_cap.
Proof.
  intros Hc Hv. unfold a_add. pose proof cap_val.
  destruct (v <? hh_cap - snd c) eqn:?; destruct (v >? snd c) eqn:?; kd; cbn [fst snd]; lia.
Qed.
Lemma a_merge_range a b : 0 <= snd a <= hh_cap -> 0 <= snd b <= hh_cap -> 0 <= snd (a_merge a b) <= hh_cap.
Proof.
  intros Ha Hb. unfold a_merge. pose proof cap_val.
  destruct (snd b >? hh_cap - snd a) eqn:?; destruct (snd a >=? snd b) eqn:?; kd; cbn [fst snd]; lia.
Qed.

(* ------------------------------------------------------------------ Counter as association list *)
Definition keys (cs : cands) : list key := map fst cs.

Lemma cand_set_in cs x v y m : In (y, m) (cand_set cs x v) -> In (y, m) cs \/ (y = x /\ m = v).
Proof.
  induction cs as [|[k' v'] r IH]; cbn [cand_set].
  - intros [H|[]]. inversion H. auto.
  - destruct (keqb_spec k' x) as [->|Hne].
    + intros [H|H]; [inversion H; auto|left; right; assumption].
    + intros [H|H]; [left; left; assumption|]. destruct (IH H); [left; right; assumption|auto].
Qed.
Lemma cand_set_keys cs x v :
  keys (cand_set cs x v) = if existsb (fun k => keqb k x) (keys cs) then keys cs else keys cs ++ [x].
Proof.
  unfold keys. induction cs as [|[k' v'] r IH]; cbn [cand_set map existsb fst]; [reflexivity|].
  destruct (keqb_spec k' x) as [->|Hne]; cbn [orb map fst]; [reflexivity|].
  rewrite IH. destruct (existsb _ _); reflexivity.
Qed.
Lemma existsb_keqb x l : existsb (fun k => keqb k x) l = true <-> In x l.
Proof.
  rewrite existsb_exists. split.
  - intros (k & Hk & E). apply keqb_eq in E. congruence.
  - intros H. exists x. split; [assumption|apply keqb_refl].
Qed.
Lemma NoDup_snoc {A} (l : list A) x : NoDup l -> ~ In x l -> NoDup (l ++ [x]).
Proof.
  induction 1 as [|a l Ha Hl IH]; intros Hx; cbn [app].
  - constructor; [intros []|constructor].
  - constructor.
    + intros Hin. apply in_app_or in Hin. destruct Hin as [?|[<-|[]]]; [contradiction|apply Hx; left; reflexivity].
    + apply IH. intros ?. apply Hx. right. assumption.
Qed.
Lemma cand_set_nodup cs x v : NoDup (keys cs) -> NoDup (keys (cand_set cs x v)).
Proof.
  intros H. rewrite cand_set_keys. destruct (existsb _ _) eqn:E; [assumption|].
  apply NoDup_snoc; [assumption|]. intros Hin. apply existsb_keqb in Hin. congruence.
Qed.
Lemma cand_set_has cs x v : In x (keys (cand_set cs x v)).
Proof.
  rewrite cand_set_keys. destruct (existsb _ _) eqn:E; [apply existsb_keqb; assumption|].
  apply in_or_app. right. left. reflexivity.
Qed.
Lemma cand_set_keeps cs x v y : In y (keys cs) -> In y (keys (cand_set cs x v)).
Proof.
  intros H. rewrite cand_set_keys. destruct (existsb _ _); [assumption|]. apply in_or_app. left. assumption.
Qed.
Lemma cand_lookup_nz cs x : cand_lookup cs x <> 0 -> In x (keys cs).
Proof.
  unfold keys. induction cs as [|[k' v'] r IH]; cbn [cand_lookup map fst]; [congruence|].
  destruct (keqb_spec k' x); [left; assumption|right; auto].
Qed.

(* ------------------------------------------------------------------ Counter.most_common *)
Definition desc (p q : key * Z) : Prop := snd p >= snd q.

Lemma insert_perm p l : Permutation (insert_desc p l) (p :: l).
Proof.
  induction l as [|q r IH]; cbn [insert_desc]; [reflexivity|].
  destruct (snd q >? snd p); [|reflexivity].
  rewrite IH. apply perm_swap.
Qed.
Lemma sort_perm l : Permutation (sort_desc l) l.
Proof.
  unfold sort_desc. induction l as [|p l IH]; cbn [fold_right]; [reflexivity|].
  rewrite insert_perm. constructor. assumption.
Qed.
Lemma insert_sorted p l : StronglySorted desc l -> StronglySorted desc (insert_desc p l).
Proof.
  induction 1 as [|q r Hr IH Hq]; cbn [insert_desc].
  - constructor; constructor.
  - destruct (snd q >? snd p) eqn:E.
    + constructor; [assumption|]. apply Forall_forall. intros z Hz.
      apply (Permutation_in _ (insert_perm p r)) in Hz. destruct Hz as [<-|Hz].
      * unfold desc. lia.
      * rewrite Forall_forall in Hq. auto.
    + constructor; [constructor; assumption|]. constructor; [unfold desc; lia|].
      apply Forall_forall. intros z Hz. rewrite Forall_forall in Hq. specialize (Hq z Hz). unfold desc in *. lia.
Qed.
Lemma sort_sorted l : StronglySorted desc (sort_desc l).
Proof.
  unfold sort_desc. induction l as [|p l IH]; cbn [fold_right]; [constructor|]. apply insert_sorted. assumption.
Qed.
Lemma firstn_incl' {A} n (l : list A) x : In x (firstn n l) -> In x l.
Proof.
  revert l. induction n as [|n IH]; intros [|a l]; cbn [firstn]; try (intros []; fail).
  intros [->|H]; [left; reflexivity|right; apply IH; assumption].
Qed.
Lemma firstn_sorted {A} (R : A -> A -> Prop) n l : StronglySorted R l -> StronglySorted R (firstn n l).
Proof.
  intros H. revert n. induction H as [|a l Hl IH Ha]; intros [|n]; cbn [firstn]; try constructor.
  - apply IH.
  - apply Forall_forall. intros z Hz. rewrite Forall_forall in Ha. apply Ha. eapply firstn_incl'. eassumption.
Qed.
Lemma firstn_nodup {A} n (l : list A) : NoDup l -> NoDup (firstn n l).
Proof.
  intros H. revert n. induction H as [|a l Ha Hl IH]; intros [|n]; cbn [firstn]; try constructor.
  - intros Hin. apply Ha. eapply firstn_incl'. eassumption.
  - apply IH.
Qed.
Lemma firstn_map {A B} (f : A -> B) n l : firstn n (map f l) = map f (firstn n l).
Proof. revert l. induction n as [|n IH]; intros [|a l]; cbn; [reflexivity..|]. rewrite IH. reflexivity. Qed.

Lemma most_common_in k l p : In p (most_common k l) -> In p l.
Proof.
  unfold most_common. intros H. apply (Permutation_in _ (sort_perm l)).
  destruct k; [eapply firstn_incl'; eassumption|assumption].
Qed.
Lemma most_common_sorted k l : StronglySorted desc (most_common k l).
Proof. unfold most_common. destruct k; [apply firstn_sorted|]; apply sort_sorted. Qed.
Lemma most_common_nodup k l : NoDup (keys l) -> NoDup (keys (most_common k l)).
Proof.
  intros H. assert (NoDup (keys (sort_desc l))) as Hs.
  { unfold keys. eapply Permutation_NoDup; [|exact H]. apply Permutation_map. symmetry. apply sort_perm. }
  unfold most_common. destruct k; [|assumption]. unfold keys in *. rewrite <- firstn_map. apply firstn_nodup. assumption.
Qed.
Lemma most_common_len n l : 0 <= n -> Z.of_nat (length (most_common (Some n) l)) <= n.
Proof. intros. unfold most_common. pose proof (firstn_le_length (Z.to_nat n) (sort_desc l)). lia. Qed.
Lemma most_common_prefix n l : most_common (Some n) l = firstn (Z.to_nat n) (most_common None l).
Proof. reflexivity. Qed.
Lemma most_common_all_in l p : In p l -> In p (most_common None l).
Proof. intros H. unfold most_common. apply (Permutation_in _ (Permutation_sym (sort_perm l))). assumption. Qed.

(* a strict maximum is the head of the stable sort *)
Lemma sort_head_max l x n : In (x, n) l -> (forall y m, In (y, m) l -> (y, m) = (x, n) \/ m < n) ->
  hd_error (sort_desc l) = Some (x, n).
Proof.
  unfold sort_desc. induction l as [|p l IH]; [intros []|]. intros Hin Hmax. cbn [fold_right].
  destruct (In_dec (fun a b : key * Z => ltac:(decide equality; [apply Z.eq_dec|apply (list_eq_dec Z.eq_dec)])) (x, n) l) as [Hl|Hl].
  - specialize (IH Hl (fun y m H => Hmax y m (or_intror H))).
    destruct (fold_right insert_desc [] l) as [|q r]; [discriminate|]. cbn [hd_error] in IH. injection IH as ->.
    cbn [insert_desc snd]. destruct p as [y m]. cbn [snd].
    destruct (Hmax y m (or_introl eq_refl)) as [E|Hlt].
    + injection E as -> ->. assert ((n >? n) = false) as -> by lia. reflexivity.
    + assert ((n >? m) = true) as -> by lia. reflexivity.
  - destruct Hin as [->|Hin]; [|contradiction].
    assert (forall q, In q (fold_right insert_desc [] l) -> snd q < n) as Hs.
    { intros [y m] Hq. apply (Permutation_in _ (sort_perm l)) in Hq.
      destruct (Hmax y m (or_intror Hq)) as [E|?]; [|assumption]. rewrite E in Hq. contradiction. }
    destruct (fold_right insert_desc [] l) as [|q r]; [reflexivity|]. cbn [insert_desc snd].
    specialize (Hs q (or_introl eq_refl)). assert ((snd q >? n) = false) as -> by lia. reflexivity.
Qed.

(* an element is among the first k when at most k elements count at least as much *)
Lemma sorted_firstn_mem (s : cands) p k : StronglySorted desc s -> In p s ->
  (length (filter (fun q => snd q >=? snd p) s) <= k)%nat -> In p (firstn k s).
Proof.
  intros Hs. revert k. induction Hs as [|q r Hr IH Hq]; intros k Hin Hlen; [destruct Hin|].
  cbn [filter] in Hlen. destruct Hin as [->|Hin].
  - assert ((snd p >=? snd p) = true) as E by lia. rewrite E in Hlen. cbn [length] in Hlen.
    destruct k; [lia|]. left. reflexivity.
  - rewrite Forall_forall in Hq. specialize (Hq p Hin). unfold desc in Hq.
    assert ((snd q >=? snd p) = true) as E by lia. rewrite E in Hlen. cbn [length] in Hlen.
    destruct k; [lia|]. right. apply IH; [assumption|lia].
Qed.
Lemma filter_perm_length {A} (f : A -> bool) l l' : Permutation l l' -> length (filter f l) = length (filter f l').
Proof.
  induction 1; cbn [filter]; try congruence.
  - destruct (f x); cbn [length]; congruence.
  - destruct (f x), (f y); reflexivity.
Qed.

Section HHProofs.
Variable width depth : nat.
Variable max_key_len : nat.
Variable bucket : nat -> key -> nat.
Variable default_thr : Z -> Z.
Hypothesis bucket_lt : forall r k, (bucket r k < width)%nat.
Hypothesis mkl_le : (max_key_len <= 255)%nat.

Notation L := max_key_len.
Notation zL := (zL max_key_len).
Notation pad := (pad max_key_len).
Notation ident := (ident max_key_len).
Notation empty_cell := (empty_cell max_key_len).
Notation hh_empty := (hh_empty max_key_len).
Notation prep_key := (prep_key max_key_len).
Notation hh_add_raw := (hh_add_raw depth max_key_len bucket).
Notation hh_add := (hh_add depth max_key_len bucket).
Notation hh_add_ngram := (hh_add_ngram depth max_key_len bucket).
Notation hh_merge := (hh_merge width depth).
Notation max_count := (max_count depth max_key_len bucket).
Notation hh_get := (hh_get depth max_key_len bucket).
Notation gen_cands := (gen_cands width depth max_key_len bucket).
Notation gen_step := (gen_step depth max_key_len bucket).
Notation hh_generate := (hh_generate width depth max_key_len bucket default_thr).
Notation hh_query := (hh_query width depth max_key_len bucket default_thr).
Notation hh_load := (hh_load width depth max_key_len bucket default_thr).
Notation thr_of := (thr_of default_thr).
Notation eval := (eval width depth max_key_len bucket default_thr).
Notation truth := (truth max_key_len).
Notation mass := (mass max_key_len bucket).

(* ------------------------------------------------------------------ padding and key identity *)
Lemma pad_length k : (length k <= L)%nat -> length (pad k) = L.
Proof. intros. unfold HH.pad. rewrite app_length, repeat_length. lia. Qed.
Lemma firstn_pad k : firstn (length k) (pad k) = k.
Proof. unfold HH.pad. rewrite firstn_app, Nat.sub_diag, firstn_all. cbn. apply app_nil_r. Qed.

(* array and length together determine the byte string; without the length conjunct this is false (F1) *)
Lemma pad_len_inj a b : (length a <= L)%nat -> (length b <= L)%nat ->
  pad a = pad b -> length a = length b -> a = b.
Proof.
  intros _ _ Hp Hl. rewrite <- (firstn_pad a), <- (firstn_pad b), Hp, Hl. reflexivity.
Qed.

Lemma ident_length k : (length (ident k) <= L)%nat.
Proof. unfold HH.ident. rewrite firstn_length. lia. Qed.
Lemma ident_idem k : ident (ident k) = ident k.
Proof. unfold HH.ident. rewrite firstn_firstn. f_equal. lia. Qed.
Lemma ident_short k : (length k <= L)%nat -> ident k = k.
Proof. intros. unfold HH.ident. apply firstn_all2. assumption. Qed.
Lemma pad_full k : length k = L -> pad k = k.
Proof. intros H. unfold HH.pad. rewrite H, Nat.sub_diag. apply app_nil_r. Qed.
Lemma zlen_ident_le k : 0 <= zlen (ident k) <= zL.
Proof. pose proof (ident_length k). unfold zlen, HH.zL. lia. Qed.

Lemma prep_key_spec k : zlen k < 2^64 -> prep_key k = (ident k, pad (ident k), zlen (ident k)).
Proof.
  intros Hk. unfold HH.prep_key. assert (0 <= zlen k) by (unfold zlen; lia).
  rewrite wrap64_small by lia. unfold HH.zL, zlen in *.
  destruct (Z.of_nat (length k) =? Z.of_nat L) eqn:E1.
  - assert (length k = L) by lia. rewrite ident_short by lia. rewrite pad_full by assumption. reflexivity.
  - destruct (Z.of_nat (length k) <? Z.of_nat L) eqn:E2.
    + rewrite ident_short by lia. reflexivity.
    + assert (length (ident k) = L) by (unfold HH.ident; rewrite firstn_length; lia).
      rewrite pad_full by assumption. unfold HH.ident in *. rewrite H0. reflexivity.
Qed.

(* ------------------------------------------------------------------ well formed cells and their abstraction *)
Definition cell_wf (cl : cell) : Prop :=
  length (ckey cl) = L /\ 0 <= klen cl <= zL /\ ckey cl = pad (stored cl) /\ 0 <= cnt cl <= hh_cap.
Definition abs (cl : cell) : acell := (stored cl, cnt cl).

Lemma stored_length cl : cell_wf cl -> zlen (stored cl) = klen cl.
Proof.
  intros (Hl & Hk & _ & _). unfold stored, zlen, HH.zL in *. rewrite firstn_length. lia.
Qed.
Lemma stored_length_le cl : cell_wf cl -> (length (stored cl) <= L)%nat.
Proof. intros H. pose proof (stored_length cl H). destruct H as (_ & Hk & _). unfold zlen, HH.zL in *. lia. Qed.

Lemma empty_cell_wf : cell_wf empty_cell.
Proof.
  unfold cell_wf, HH.empty_cell, stored. cbn [ckey klen cnt]. rewrite repeat_length. pose proof cap_val.
  repeat split; try lia. unfold HH.zL; lia. cbn. unfold HH.pad. cbn. rewrite Nat.sub_0_r. reflexivity.
Qed.
Lemma empty_cell_abs : abs empty_cell = ([], 0).
Proof. reflexivity. Qed.

Lemma stored_mk x v : (length x <= L)%nat -> stored (mkCell (pad x) (zlen x) v) = x.
Proof. intros. unfold stored. cbn [ckey klen]. unfold zlen. rewrite Nat2Z.id. apply firstn_pad. Qed.

(* the code's comparison (array and length) is equality of the stored byte strings *)
Lemma match_add cl x : cell_wf cl -> (length x <= L)%nat ->
  (klen cl =? zlen x) && keqb (pad x) (ckey cl) = keqb x (stored cl).
Proof.
  intros Hw Hx. pose proof (stored_length cl Hw) as Hs. pose proof (stored_length_le cl Hw).
  destruct Hw as (Hl & Hk & Hp & _).
  destruct (keqb_spec x (stored cl)) as [->|Hne].
  - rewrite Hs, Z.eqb_refl, <- Hp, keqb_refl. reflexivity.
  - apply andb_false_iff. destruct (klen cl =? zlen x) eqn:E; [right|left; reflexivity].
    apply keqb_neq. intros Heq. apply Hne. apply pad_len_inj; try assumption.
    + congruence.
    + unfold zlen in *. lia.
Qed.
Lemma match_merge a b : cell_wf a -> cell_wf b ->
  keqb (ckey a) (ckey b) && (klen a =? klen b) = keqb (stored a) (stored b).
Proof.
  intros Ha Hb. pose proof (stored_length a Ha). pose proof (stored_length b Hb).
  destruct (keqb_spec (stored a) (stored b)) as [E|Hne].
  - destruct Ha as (_ & _ & Hpa & _), Hb as (_ & _ & Hpb & _).
    rewrite Hpa, Hpb, E, keqb_refl. replace (klen a) with (klen b) by congruence. rewrite Z.eqb_refl. reflexivity.
  - apply andb_false_iff. destruct (keqb_spec (ckey a) (ckey b)) as [E|]; [right|left; reflexivity].
    apply Z.eqb_neq. intros E2. apply Hne. unfold stored. congruence.
Qed.

Lemma cell_wf_set cl v : cell_wf cl -> 0 <= v <= hh_cap -> cell_wf (mkCell (ckey cl) (klen cl) v).
Proof. intros (H1 & H2 & H3 & H4) Hv. unfold cell_wf, stored in *. cbn [ckey klen cnt]. auto. Qed.
Lemma cell_wf_new x v : (length x <= L)%nat -> 0 <= v <= hh_cap -> cell_wf (mkCell (pad x) (zlen x) v).
Proof.
  intros Hx Hv. unfold cell_wf. rewrite stored_mk by assumption. cbn [ckey klen cnt].
  rewrite pad_length by assumption. unfold zlen, HH.zL. repeat split; try lia.
Qed.

Lemma cell_add_abs cl x v : cell_wf cl -> (length x <= L)%nat -> 0 <= v <= hh_cap ->
  cell_wf (cell_add cl (pad x) (zlen x) v) /\ abs (cell_add cl (pad x) (zlen x) v) = a_add (abs cl) x v.
Proof.
  intros Hw Hx Hv. unfold cell_add, a_add, abs. rewrite match_add by assumption. cbn [fst snd].
  pose proof cap_val as Hc. pose proof Hw as (_ & _ & _ & Hr).
  assert (wrap8 (zlen x) = zlen x) as -> by (apply wrap8_small; unfold zlen; lia).
  destruct (keqb x (stored cl)).
  - destruct (v <? hh_cap - cnt cl) eqn:E.
    + rewrite wrap32_small by lia. split; [apply cell_wf_set; [assumption|lia]|reflexivity].
    + split; [apply cell_wf_set; [assumption|lia]|reflexivity].
  - destruct (v >? cnt cl) eqn:E.
    + rewrite wrap32_small by lia. split; [apply cell_wf_new; [assumption|lia]|].
      rewrite stored_mk by assumption. reflexivity.
    + rewrite wrap32_small by lia. split; [apply cell_wf_set; [assumption|lia]|reflexivity].
Qed.

Lemma cell_merge_abs a b : cell_wf a -> cell_wf b ->
  cell_wf (cell_merge a b) /\ abs (cell_merge a b) = a_merge (abs a) (abs b).
Proof.
  intros Ha Hb. unfold cell_merge, a_merge, abs. rewrite match_merge by assumption. cbn [fst snd].
  pose proof cap_val as Hc. pose proof Ha as (_ & _ & _ & Hra). pose proof Hb as (_ & _ & _ & Hrb).
  destruct (keqb (stored a) (stored b)).
  - destruct (cnt b >? hh_cap - cnt a) eqn:E.
    + split; [apply cell_wf_set; [assumption|lia]|reflexivity].
    + rewrite wrap32_small by lia. split; [apply cell_wf_set; [assumption|lia]|reflexivity].
  - destruct (cnt a >=? cnt b) eqn:E; rewrite wrap32_small by lia.
    + split; [apply cell_wf_set; [assumption|lia]|reflexivity].
    + split; [apply cell_wf_set; [assumption|lia]|reflexivity].
Qed.

(* an add with multiplicity 0 and a merge with an empty cell change nothing *)
Lemma cell_add_zero cl arr kl : 0 <= cnt cl <= hh_cap -> cell_add cl arr kl 0 = cl.
Proof.
  intros Hr. unfold cell_add. pose proof cap_val. destruct cl as [ck kn cn]. cbn [ckey klen cnt] in *.
  destruct ((kn =? kl) && keqb arr ck).
  - destruct (0 <? hh_cap - cn) eqn:E; [rewrite wrap32_small by lia; f_equal; lia|f_equal; lia].
  - destruct (0 >? cn) eqn:E; [lia|]. rewrite wrap32_small by lia. f_equal; lia.
Qed.
Lemma cell_merge_empty a : 0 <= cnt a <= hh_cap -> cell_merge a empty_cell = a.
Proof.
  intros Hr. unfold cell_merge, HH.empty_cell. pose proof cap_val. destruct a as [ck kn cn]. cbn [ckey klen cnt] in *.
  destruct (keqb ck (repeat 0 L) && (kn =? 0)).
  - destruct (0 >? hh_cap - cn) eqn:E; [lia|]. rewrite wrap32_small by lia. f_equal; lia.
  - destruct (cn >=? 0) eqn:E; [|lia]. rewrite wrap32_small by lia. f_equal; lia.
Qed.

(* ------------------------------------------------------------------ the row loop of _add, pointwise *)
Lemma fold_upd_spec (f : nat -> cell -> cell) (col : nat -> nat) d (t : table) r c :
  fold_left (fun t row => upd t row (col row) (f row (t row (col row)))) (seq 0 d) t r c
  = if (r <? d)%nat && (c =? col r)%nat then f r (t r c) else t r c.
Proof.
  induction d as [|d IH].
  - reflexivity.
  - rewrite seq_S, fold_left_app. cbn [fold_left Nat.add]. unfold upd at 1.
    destruct (Nat.eqb_spec r d) as [->|Hrd].
    + destruct (Nat.eqb_spec c (col d)) as [Hc|Hc]; [subst c|]; cbn [andb].
      * assert ((d <? S d)%nat = true) as -> by (apply Nat.ltb_lt; lia). cbn [andb].
        f_equal. clear IH. generalize (col d). intros c0.
        (* the cell of row d is untouched by the rows before d *)
        assert (forall n, (n <= d)%nat ->
          fold_left (fun t row => upd t row (col row) (f row (t row (col row)))) (seq 0 n) t d c0 = t d c0) as X.
        { induction n as [|n IHn]; intros Hn; [reflexivity|].
          rewrite seq_S, fold_left_app. cbn [fold_left Nat.add]. unfold upd at 1.
          destruct (Nat.eqb_spec d n); [lia|]. cbn [andb]. apply IHn. lia. }
        apply X. lia.
      * rewrite IH. rewrite !andb_false_r. reflexivity.
    + cbn [andb]. rewrite IH.
      assert ((r <? S d)%nat = (r <? d)%nat) as ->; [|reflexivity].
      destruct (Nat.ltb_spec r d), (Nat.ltb_spec r (S d)); try reflexivity; lia.
Qed.

Lemma add_raw_tab s k v r c : zlen k < 2^64 ->
  tab (hh_add_raw s k v) r c =
  if (r <? depth)%nat && (c =? bucket r (ident k))%nat
  then cell_add (tab s r c) (pad (ident k)) (zlen (ident k)) v else tab s r c.
Proof.
  intros Hk. unfold HH.hh_add_raw. rewrite prep_key_spec by assumption. cbn [tab].
  apply (fold_upd_spec (fun _ cl => cell_add cl (pad (ident k)) (zlen (ident k)) v) (fun row => bucket row (ident k))).
Qed.
Lemma add_raw_n_added s k v : n_added (hh_add_raw s k v) = n_added s + v.
Proof. unfold HH.hh_add_raw. destruct (prep_key k) as [[? ?] ?]. reflexivity. Qed.
Lemma add_raw_rest s k v :
  n_records (hh_add_raw s k v) = n_records s /\ cand (hh_add_raw s k v) = cand s /\
  n_added_sort (hh_add_raw s k v) = n_added_sort s /\ thr_sort (hh_add_raw s k v) = thr_sort s.
Proof. unfold HH.hh_add_raw. destruct (prep_key k) as [[? ?] ?]. cbn. auto. Qed.

Lemma capped_value v : 0 <= v -> wrap32 (Z.min v hh_cap) = Z.min v hh_cap /\ 0 <= Z.min v hh_cap <= hh_cap /\ Z.min v hh_cap <= v.
Proof. intros. pose proof cap_val. rewrite wrap32_small by lia. lia. Qed.


(* ------------------------------------------------------------------ induction over histories *)
Lemma add_is_raw s w : hh_add s w 1 = hh_add_raw s w 1.
Proof. reflexivity. Qed.

Lemma window_len k n w : In w (ngram_windows k n) -> zlen w <= zlen k.
Proof.
  unfold ngram_windows. destruct (wrap64 (zlen k) <=? n).
  - intros [<-|[]]. lia.
  - intros H. apply in_map_iff in H. destruct H as (i & <- & _). unfold slice, zlen.
    rewrite firstn_length, skipn_length. lia.
Qed.

Lemma hist_rel_ind (P : sketch -> list (key * Z) -> Prop) :
  P hh_empty [] ->
  (forall s lv k v, P s lv -> 0 <= v -> zlen k < 2^64 -> P (hh_add s k v) (lv ++ [(k, v)])) ->
  (forall s1 l1 s2 l2, P s1 l1 -> P s2 l2 -> P (hh_merge s1 s2) (l1 ++ l2)) ->
  (forall s lv, P s lv -> P (hh_load s) lv) ->
  (forall s lv thr, P s lv -> P (fst (hh_query s None thr)) lv) ->
  (forall s lv thr, P s lv -> P (hh_generate s thr) lv) ->
  forall h, wf h -> P (eval h) (leaves h).
Proof.
  intros He Ha Hm Hl Hq Hg. induction h as [|h IH k v|h IH k n|h1 IH1 h2 IH2|h IH|h IH thr|h IH thr];
    cbn [HH.eval leaves wf]; intros Hw.
  - exact He.
  - destruct Hw as (Hw & Hv & Hk). apply Ha; auto.
  - destruct Hw as (Hw & Hk). specialize (IH Hw). unfold HH.hh_add_ngram.
    assert (forall w, In w (ngram_windows k n) -> zlen w < 2^64) as Hws
      by (intros w Hin; pose proof (window_len k n w Hin); lia).
    revert IH Hws. generalize (ngram_windows k n) (eval h) (leaves h). intros ws.
    induction ws as [|w ws IHw]; intros s lv HP Hws; cbn [fold_left map].
    + rewrite app_nil_r. exact HP.
    + replace (lv ++ (w, 1) :: map (fun w0 => (w0, 1)) ws) with ((lv ++ [(w, 1)]) ++ map (fun w0 => (w0, 1)) ws)
        by (rewrite <- app_assoc; reflexivity).
      apply IHw; [|intros; apply Hws; right; assumption].
      rewrite <- add_is_raw. apply Ha; [assumption|lia|apply Hws; left; reflexivity].
  - destruct Hw. apply Hm; auto.
  - apply Hl; auto.
  - apply Hq; auto.
  - apply Hg; auto.
Qed.

(* ------------------------------------------------------------------ extensionality of the read side *)
Lemma max_count_ext (t1 t2 : table) k kl : (forall r c, t1 r c = t2 r c) -> max_count t1 k kl = max_count t2 k kl.
Proof. intros H. unfold HH.max_count. apply fold_left_ext. intros a b _. rewrite H. reflexivity. Qed.
Lemma gen_cands_ext (t1 t2 : table) thr : (forall r c, t1 r c = t2 r c) -> gen_cands t1 thr = gen_cands t2 thr.
Proof.
  intros H. unfold HH.gen_cands. apply fold_left_ext. intros a b _. unfold HH.gen_step.
  rewrite H. rewrite (max_count_ext t1 t2) by assumption. reflexivity.
Qed.

(* ------------------------------------------------------------------ the invariants *)
Definition truthl (lv : list (key * Z)) (x : key) : Z := wsum (fun k => keqb (ident k) x) lv.
Definition massl (lv : list (key * Z)) (r c : nat) : Z := wsum (fun k => (bucket r (ident k) =? c)%nat) lv.
(* multiplicity of x added to the cell (r, c) *)
Definition fsl (lv : list (key * Z)) (r c : nat) (x : key) : Z :=
  if (r <? depth)%nat && (bucket r x =? c)%nat then truthl lv x else 0.

Definition T1 (s : sketch) : Prop := forall r c, cell_wf (tab s r c).
Definition T2 (s : sketch) lv : Prop := forall r c, cnt (tab s r c) <= fsl lv r c (stored (tab s r c)).
Definition T3 (s : sketch) lv : Prop := forall r x, (r < depth)%nat -> massl lv r (bucket r x) <= hh_cap ->
  2 * truthl lv x - massl lv r (bucket r x) <= aphi x (abs (tab s r (bucket r x))).
Definition T4 (s : sketch) : Prop := 0 <= n_added s /\ (n_added s = 0 -> forall r c, tab s r c = empty_cell).
Definition T5 (s : sketch) : Prop :=
  n_added_sort s <= n_added s /\ (n_added_sort s = n_added s -> cand s = gen_cands (tab s) (thr_sort s)).
Definition Inv (s : sketch) (lv : list (key * Z)) : Prop := nonneg lv /\ T1 s /\ T2 s lv /\ T3 s lv /\ T4 s /\ T5 s.

Lemma truthl_nonneg lv x : nonneg lv -> 0 <= truthl lv x.
Proof. apply wsum_nonneg. Qed.
Lemma massl_nonneg lv r c : nonneg lv -> 0 <= massl lv r c.
Proof. apply wsum_nonneg. Qed.
Lemma fsl_nonneg lv r c x : nonneg lv -> 0 <= fsl lv r c x.
Proof. intros. unfold fsl. destruct (_ && _); [apply truthl_nonneg; assumption|lia]. Qed.
Lemma truthl_app a b x : truthl (a ++ b) x = truthl a x + truthl b x.
Proof. apply wsum_app. Qed.
Lemma massl_app a b r c : massl (a ++ b) r c = massl a r c + massl b r c.
Proof. apply wsum_app. Qed.
Lemma fsl_app a b r c x : fsl (a ++ b) r c x = fsl a r c x + fsl b r c x.
Proof. unfold fsl. rewrite truthl_app. destruct (_ && _); lia. Qed.
Lemma fsl_le_massl lv r c x : nonneg lv -> fsl lv r c x <= massl lv r c.
Proof.
  intros H. unfold fsl. destruct ((r <? depth)%nat && (bucket r x =? c)%nat) eqn:E.
  - apply andb_true_iff in E. destruct E as [_ E]. apply Nat.eqb_eq in E.
    apply wsum_le; [assumption|]. intros k Hk. apply keqb_eq in Hk. rewrite Hk. apply Nat.eqb_eq. assumption.
  - apply massl_nonneg; assumption.
Qed.
Lemma truthl_one k v x : truthl [(k, v)] x = if keqb (ident k) x then v else 0.
Proof. exact (wsum_one (fun k0 => keqb (ident k0) x) k v). Qed.
Lemma massl_one k v r c : massl [(k, v)] r c = if (bucket r (ident k) =? c)%nat then v else 0.
Proof. exact (wsum_one (fun k0 => (bucket r (ident k0) =? c)%nat) k v). Qed.

Lemma fsl_one k v r c x : fsl [(k, v)] r c x =
  if (r <? depth)%nat && (bucket r x =? c)%nat then (if keqb (ident k) x then v else 0) else 0.
Proof. unfold fsl. rewrite truthl_one. reflexivity. Qed.

Lemma cnt_le_massl s lv r c : nonneg lv -> T2 s lv -> cnt (tab s r c) <= massl lv r c.
Proof. intros Hn H2. specialize (H2 r c). pose proof (fsl_le_massl lv r c (stored (tab s r c)) Hn). lia. Qed.

(* ---- empty *)
Lemma gen_cands_empty_tab (t : table) thr : (forall r c, cnt (t r c) = 0) -> gen_cands t thr = [].
Proof.
  intros H. unfold HH.gen_cands. generalize (list_prod (seq 0 depth) (seq 0 width)). intros l.
  induction l as [|rc l IH]; [reflexivity|]. cbn [fold_left]. unfold HH.gen_step at 2. rewrite H. cbn. exact IH.
Qed.

Lemma Inv_empty : Inv hh_empty [].
Proof.
  unfold Inv. split; [constructor|]. split; [|split; [|split; [|split]]].
  - intros r c. apply empty_cell_wf.
  - intros r c. cbn [HH.hh_empty tab]. unfold fsl, truthl. rewrite wsum_nil. cbn. destruct (_ && _); lia.
  - intros r x _ _. cbn [HH.hh_empty tab]. unfold truthl, massl. rewrite !wsum_nil. rewrite empty_cell_abs.
    unfold aphi. cbn [fst snd]. destruct (keqb x []); lia.
  - split; [cbn; lia|]. intros _ r c. reflexivity.
  - split; [cbn; lia|]. intros _. cbn [HH.hh_empty tab cand thr_sort]. symmetry. apply gen_cands_empty_tab. reflexivity.
Qed.

(* ---- add *)
Lemma add_tab s k v r c : 0 <= v -> zlen k < 2^64 ->
  tab (hh_add s k v) r c =
  if (r <? depth)%nat && (c =? bucket r (ident k))%nat
  then cell_add (tab s r c) (pad (ident k)) (zlen (ident k)) (Z.min v hh_cap) else tab s r c.
Proof.
  intros Hv Hk. unfold HH.hh_add. destruct (capped_value v Hv) as (-> & _). apply add_raw_tab. assumption.
Qed.

Lemma hh_add_eq s k v : 0 <= v -> hh_add s k v = hh_add_raw s k (Z.min v hh_cap).
Proof. intros Hv. unfold HH.hh_add. destruct (capped_value v Hv) as (-> & _). reflexivity. Qed.

Lemma Inv_add s lv k v : Inv s lv -> 0 <= v -> zlen k < 2^64 -> Inv (hh_add s k v) (lv ++ [(k, v)]).
Proof.
  intros (Hn & H1 & H2 & H3 & H4 & H5) Hv Hk.
  destruct (capped_value v Hv) as (Hcv & Hcr & Hcle).
  set (y := ident k). set (v' := Z.min v hh_cap) in *.
  assert (Hy : (length y <= L)%nat) by apply ident_length.
  assert (Hn' : nonneg (lv ++ [(k, v)])).
  { apply nonneg_app. split; [assumption|]. constructor; [cbn; lia|constructor]. }
  assert (HT1 : T1 (hh_add s k v)).
  { intros r c. rewrite add_tab by assumption. fold y v'. destruct (_ && _); [|apply H1].
    apply cell_add_abs; auto. }
  split; [assumption|]. split; [assumption|].
  split; [|split; [|split]].
  - (* T2 *)
    intros r c. rewrite add_tab by assumption. fold y v'.
    destruct ((r <? depth)%nat && (c =? bucket r y)%nat) eqn:E.
    + destruct (cell_add_abs (tab s r c) y v' (H1 r c) Hy Hcr) as (_ & Ha).
      pose proof (f_equal fst Ha) as Hs. pose proof (f_equal snd Ha) as Hc.
      unfold abs in Hs, Hc. cbn [fst snd] in Hs, Hc. rewrite Hs, Hc.
      pose proof (sound_add (stored (tab s r c), cnt (tab s r c)) y v v' (fsl lv r c)
                            (fun z => fsl_nonneg lv r c z Hn)) as X.
      cbn [fst snd] in X. specialize (X ltac:(destruct (H1 r c) as (_ & _ & _ & ?); lia) ltac:(lia) (H2 r c)).
      eapply Z.le_trans; [exact X|]. clear X.
      set (z := fst (a_add (stored (tab s r c), cnt (tab s r c)) y v')).
      rewrite fsl_app, fsl_one. fold y.
      apply andb_true_iff in E. destruct E as [E1 E2]. apply Nat.eqb_eq in E2. subst c.
      destruct (keqb_spec z y) as [->|Hzy].
      * rewrite E1, Nat.eqb_refl, keqb_refl. cbn [andb]. lia.
      * rewrite (proj2 (keqb_neq y z)) by congruence. destruct (_ && _); lia.
    + rewrite fsl_app. pose proof (fsl_nonneg [(k, v)] r c (stored (tab s r c))
        ltac:(constructor; [cbn; lia|constructor])). specialize (H2 r c). lia.
  - (* T3 *)
    intros r x Hr Hm. rewrite add_tab by assumption. fold y v'.
    rewrite massl_app, massl_one in Hm. rewrite massl_app, massl_one, truthl_app, truthl_one. fold y in Hm |- *.
    assert ((r <? depth)%nat = true) as -> by (apply Nat.ltb_lt; assumption). cbn [andb].
    pose proof (cnt_le_massl s lv r (bucket r x) Hn H2) as Hcm.
    pose proof (massl_nonneg lv r (bucket r x) Hn) as Hmn.
    destruct (H1 r (bucket r x)) as (_ & _ & _ & Hrange).
    destruct (Nat.eqb_spec (bucket r x) (bucket r y)) as [Eb|Eb].
    + rewrite <- Eb in *. rewrite Nat.eqb_refl in *.
      assert (v' = v) as Hvv by (unfold v'; lia).
      destruct (cell_add_abs (tab s r (bucket r x)) y v' (H1 _ _) Hy Hcr) as (_ & ->).
      specialize (H3 r x Hr ltac:(lia)). rewrite Hvv.
      destruct (keqb_spec y x) as [->|Hyx].
      * rewrite phi_add_same; cbn [abs snd]; lia.
      * pose proof (phi_add_other x (abs (tab s r (bucket r x))) y v ltac:(cbn [abs snd]; lia) Hv Hyx). lia.
    + assert ((bucket r y =? bucket r x)%nat = false) as Eb' by (apply Nat.eqb_neq; congruence).
      rewrite Eb' in *.
      destruct (keqb_spec y x) as [->|Hyx]; [congruence|].
      specialize (H3 r x Hr ltac:(lia)). lia.
  - (* T4 *)
    destruct H4 as (H40 & H4e). unfold T4. rewrite (hh_add_eq s k v Hv) at 1. fold v'.
    rewrite add_raw_n_added. split; [lia|].
    intros Hz r c. rewrite (hh_add_eq s k v Hv), add_raw_n_added in Hz. fold v' in Hz.
    assert (v' = 0) as Hv0 by lia. rewrite add_tab by assumption. fold v'.
    rewrite Hv0. destruct (_ && _); [|apply H4e; lia].
    rewrite (H4e ltac:(lia)). apply cell_add_zero. cbn. pose proof cap_val. lia.
  - (* T5 *)
    destruct H5 as (H5a & H5b). destruct H4 as (H40 & _). unfold T5.
    destruct (add_raw_rest s k v') as (_ & Hc & Hs & Ht).
    rewrite (hh_add_eq s k v Hv). fold v'. rewrite Hc, Hs, Ht, add_raw_n_added. split; [lia|].
    intros Heq. assert (v' = 0) as Hv0 by lia. rewrite H5b by lia.
    apply gen_cands_ext. intros r c. unfold v'. rewrite <- (hh_add_eq s k v Hv).
    rewrite add_tab by assumption. fold v'. rewrite Hv0.
    destruct (_ && _); [|reflexivity]. symmetry. apply cell_add_zero. destruct (H1 r c) as (_ & _ & _ & ?). assumption.
Qed.


(* ---- merge *)
Lemma merge_tab s o r c :
  tab (hh_merge s o) r c =
  if (r <? depth)%nat && (c <? width)%nat then cell_merge (tab s r c) (tab o r c) else tab s r c.
Proof. reflexivity. Qed.

Lemma Inv_merge s1 l1 s2 l2 : Inv s1 l1 -> Inv s2 l2 -> Inv (hh_merge s1 s2) (l1 ++ l2).
Proof.
  intros (Hn1 & A1 & A2 & A3 & A4 & A5) (Hn2 & B1 & B2 & B3 & B4 & B5).
  assert (Hn : nonneg (l1 ++ l2)) by (apply nonneg_app; split; assumption).
  split; [assumption|]. split; [|split; [|split; [|split]]].
  - intros r c. rewrite merge_tab. destruct (_ && _); [|apply A1]. apply cell_merge_abs; auto.
  - intros r c. rewrite merge_tab. rewrite fsl_app.
    destruct ((r <? depth)%nat && (c <? width)%nat).
    + destruct (cell_merge_abs (tab s1 r c) (tab s2 r c) (A1 r c) (B1 r c)) as (_ & Ha).
      pose proof (f_equal fst Ha) as Hs. pose proof (f_equal snd Ha) as Hc.
      unfold abs in Hs, Hc. cbn [fst snd] in Hs, Hc. rewrite Hs, Hc.
      pose proof (sound_merge (stored (tab s1 r c), cnt (tab s1 r c)) (stored (tab s2 r c), cnt (tab s2 r c))
                              (fsl l1 r c) (fsl l2 r c)
                              (fun z => fsl_nonneg l1 r c z Hn1) (fun z => fsl_nonneg l2 r c z Hn2)) as X.
      cbn [fst snd] in X. apply X.
      * destruct (A1 r c) as (_ & _ & _ & ?); lia.
      * destruct (B1 r c) as (_ & _ & _ & ?); lia.
      * apply A2.
      * apply B2.
    + pose proof (fsl_nonneg l2 r c (stored (tab s1 r c)) Hn2). specialize (A2 r c). lia.
  - intros r x Hr Hm. rewrite merge_tab.
    assert ((r <? depth)%nat = true) as -> by (apply Nat.ltb_lt; assumption).
    assert ((bucket r x <? width)%nat = true) as -> by (apply Nat.ltb_lt; apply bucket_lt). cbn [andb].
    destruct (cell_merge_abs (tab s1 r (bucket r x)) (tab s2 r (bucket r x)) (A1 _ _) (B1 _ _)) as (_ & ->).
    rewrite massl_app in *. rewrite truthl_app.
    pose proof (massl_nonneg l1 r (bucket r x) Hn1). pose proof (massl_nonneg l2 r (bucket r x) Hn2).
    pose proof (cnt_le_massl s1 l1 r (bucket r x) Hn1 A2). pose proof (cnt_le_massl s2 l2 r (bucket r x) Hn2 B2).
    specialize (A3 r x Hr ltac:(lia)). specialize (B3 r x Hr ltac:(lia)).
    pose proof (phi_merge_superadd x (abs (tab s1 r (bucket r x))) (abs (tab s2 r (bucket r x)))) as X.
    cbn [abs snd] in X.
    destruct (A1 r (bucket r x)) as (_ & _ & _ & ?). destruct (B1 r (bucket r x)) as (_ & _ & _ & ?).
    specialize (X ltac:(lia) ltac:(lia) ltac:(lia)). lia.
  - destruct A4 as (A40 & A4e), B4 as (B40 & B4e). unfold T4. cbn [HH.hh_merge n_added]. split; [lia|].
    intros Hz r c. rewrite merge_tab. rewrite A4e, B4e by lia.
    destruct (_ && _); [|reflexivity]. apply cell_merge_empty. cbn. pose proof cap_val. lia.
  - destruct A5 as (A5a & A5b), A4 as (A40 & _), B4 as (B40 & B4e). unfold T5.
    cbn [HH.hh_merge n_added n_added_sort cand thr_sort tab]. split; [lia|].
    intros Heq. rewrite A5b by lia. apply gen_cands_ext. intros r c. cbv zeta.
    destruct (_ && _); [|reflexivity]. rewrite B4e by lia. symmetry. apply cell_merge_empty.
    destruct (A1 r c) as (_ & _ & _ & ?). assumption.
Qed.

(* ---- operations that only touch the cache *)
Lemma generate_fields s thr :
  tab (hh_generate s thr) = tab s /\ n_added (hh_generate s thr) = n_added s /\
  n_records (hh_generate s thr) = n_records s /\
  n_added_sort (hh_generate s thr) = n_added s /\ thr_sort (hh_generate s thr) = thr_of s thr /\
  cand (hh_generate s thr) = gen_cands (tab s) (thr_of s thr).
Proof. unfold HH.hh_generate. cbn. repeat split; reflexivity. Qed.

Definition same_tab (s s' : sketch) : Prop :=
  tab s' = tab s /\ n_added s' = n_added s /\ n_records s' = n_records s.
Lemma Inv_cache s s' lv : Inv s lv -> same_tab s s' -> T5 s' -> Inv s' lv.
Proof.
  intros (Hn & H1 & H2 & H3 & H4 & _) (Et & En & _) H5. unfold Inv, T1, T2, T3, T4 in *.
  rewrite Et, En. auto 10.
Qed.

Lemma T5_generate s thr : T5 (hh_generate s thr).
Proof. unfold T5, HH.hh_generate. cbn. split; [lia|reflexivity]. Qed.
Lemma same_tab_generate s thr : same_tab s (hh_generate s thr).
Proof. unfold same_tab, HH.hh_generate. cbn. auto. Qed.
Lemma Inv_generate s lv thr : Inv s lv -> Inv (hh_generate s thr) lv.
Proof. intros H. eapply Inv_cache; [exact H|apply same_tab_generate|apply T5_generate]. Qed.
Lemma Inv_load s lv : Inv s lv -> Inv (hh_load s) lv.
Proof.
  intros H. eapply Inv_cache; [exact H| |apply T5_generate].
  unfold same_tab, HH.hh_load, HH.hh_generate. cbn. auto.
Qed.
Lemma Inv_query s lv k thr : Inv s lv -> Inv (fst (hh_query s k thr)) lv.
Proof.
  intros H. unfold HH.hh_query. cbn [fst]. destruct (_ || _); [apply Inv_generate|]; assumption.
Qed.

Theorem Inv_eval h : wf h -> Inv (eval h) (leaves h).
Proof.
  apply (hist_rel_ind Inv).
  - apply Inv_empty.
  - intros; apply Inv_add; assumption.
  - intros; apply Inv_merge; assumption.
  - intros; apply Inv_load; assumption.
  - intros; apply Inv_query; assumption.
  - intros; apply Inv_generate; assumption.
Qed.


(* ------------------------------------------------------------------ _max_count in terms of stored keys *)
Definition amax (t : table) (x : key) (d : nat) : Z :=
  fold_left (fun mc row => let cl := t row (bucket row x) in
                           if keqb x (stored cl) && (cnt cl >? mc) then cnt cl else mc) (seq 0 d) 0.

Lemma max_count_amax (t : table) (x : key) : (forall r c, cell_wf (t r c)) -> (length x <= L)%nat ->
  max_count t x (zlen x) = amax t x depth.
Proof.
  intros Hw Hx. unfold HH.max_count, amax. cbv zeta.
  assert ((if zlen x =? zL then x else pad x) = pad x) as E0.
  { destruct (zlen x =? zL) eqn:E; [|reflexivity]. symmetry. apply pad_full. unfold zlen, HH.zL in E. lia. }
  apply fold_left_ext. intros mc row _. rewrite E0. rewrite match_add by auto. reflexivity.
Qed.

Lemma amax_S t x d : amax t x (S d) =
  let cl := t d (bucket d x) in let m := amax t x d in
  if keqb x (stored cl) && (cnt cl >? m) then cnt cl else m.
Proof. unfold amax. rewrite seq_S, fold_left_app. reflexivity. Qed.

Lemma amax_spec t x d : (forall r c, 0 <= cnt (t r c)) ->
  0 <= amax t x d /\
  (amax t x d = 0 \/ exists r, (r < d)%nat /\ stored (t r (bucket r x)) = x /\ cnt (t r (bucket r x)) = amax t x d) /\
  (forall r, (r < d)%nat -> stored (t r (bucket r x)) = x -> cnt (t r (bucket r x)) <= amax t x d).
Proof.
  intros Hc. induction d as [|d (IH1 & IH2 & IH3)].
  - cbn. repeat split; [lia|left; reflexivity|intros; lia].
  - rewrite amax_S. cbv zeta. specialize (Hc d (bucket d x)).
    destruct (keqb_spec x (stored (t d (bucket d x)))) as [E|E]; cbn [andb].
    + destruct (cnt (t d (bucket d x)) >? amax t x d) eqn:G.
      * repeat split; [lia| |].
        -- right. exists d. repeat split; [lia|congruence].
        -- intros r Hr Hs. destruct (Nat.eq_dec r d) as [->|]; [lia|]. specialize (IH3 r ltac:(lia) Hs). lia.
      * repeat split; [lia| |].
        -- destruct IH2 as [?|(r & ? & ? & ?)]; [left; assumption|right; exists r; repeat split; auto; lia].
        -- intros r Hr Hs. destruct (Nat.eq_dec r d) as [->|]; [lia|]. apply IH3; [lia|assumption].
    + repeat split; [lia| |].
      * destruct IH2 as [?|(r & ? & ? & ?)]; [left; assumption|right; exists r; repeat split; auto; lia].
      * intros r Hr Hs. destruct (Nat.eq_dec r d) as [->|]; [congruence|]. apply IH3; [lia|assumption].
Qed.

Lemma hh_get_amax s k : T1 s -> hh_get s k = amax (tab s) (ident k) depth.
Proof.
  intros H1. unfold HH.hh_get. fold (ident k). pose proof (ident_length k).
  rewrite wrap8_small by (unfold zlen; lia). apply max_count_amax; assumption.
Qed.

Lemma T1_cnt_nonneg s : T1 s -> forall r c, 0 <= cnt (tab s r c).
Proof. intros H r c. destruct (H r c) as (_ & _ & _ & ?). lia. Qed.

(* a stored key with positive count sits in its own column *)
Lemma own_column s lv r c : nonneg lv -> T2 s lv -> 0 < cnt (tab s r c) ->
  (r < depth)%nat /\ bucket r (stored (tab s r c)) = c.
Proof.
  intros Hn H2 Hp. specialize (H2 r c). unfold fsl in H2.
  destruct ((r <? depth)%nat && (bucket r (stored (tab s r c)) =? c)%nat) eqn:E; [|lia].
  apply andb_true_iff in E. destruct E as [E1 E2]. apply Nat.ltb_lt in E1. apply Nat.eqb_eq in E2. auto.
Qed.

Lemma amax_le_truthl s lv x : nonneg lv -> T1 s -> T2 s lv -> amax (tab s) x depth <= truthl lv x.
Proof.
  intros Hn H1 H2. destruct (amax_spec (tab s) x depth (T1_cnt_nonneg s H1)) as (_ & [E|(r & Hr & Hs & Hc)] & _).
  - rewrite E. apply truthl_nonneg. assumption.
  - rewrite <- Hc. specialize (H2 r (bucket r x)). rewrite Hs in H2. unfold fsl in H2.
    pose proof (truthl_nonneg lv x Hn). destruct (_ && _); lia.
Qed.

(* ------------------------------------------------------------------ C03 and C04 on cells and hh[k] *)
Theorem hh_cell_sound h r c : wf h ->
  cnt (tab (eval h) r c) <= truth h (stored (tab (eval h) r c)) /\
  (0 < cnt (tab (eval h) r c) -> (r < depth)%nat /\ bucket r (stored (tab (eval h) r c)) = c).
Proof.
  intros Hw. destruct (Inv_eval h Hw) as (Hn & H1 & H2 & _). split.
  - specialize (H2 r c). unfold fsl in H2. pose proof (truthl_nonneg (leaves h) (stored (tab (eval h) r c)) Hn).
    unfold HH.truth. fold (truthl (leaves h) (stored (tab (eval h) r c))). destruct (_ && _); lia.
  - intros Hp. eapply own_column; eauto.
Qed.

Theorem C03_getitem_lemma h k : wf h -> hh_get (eval h) k <= truth h (ident k).
Proof.
  intros Hw. destruct (Inv_eval h Hw) as (Hn & H1 & H2 & _). rewrite hh_get_amax by assumption.
  apply (amax_le_truthl (eval h) (leaves h)); assumption.
Qed.

Lemma phi_abs x cl : phi x cl = aphi x (abs cl).
Proof. reflexivity. Qed.

Theorem C04_cell_lemma h x r : wf h -> (r < depth)%nat -> mass h r (bucket r x) < 2^32 ->
  2 * truth h x - mass h r (bucket r x) <= phi x (tab (eval h) r (bucket r x)).
Proof.
  intros Hw Hr Hm. destruct (Inv_eval h Hw) as (_ & _ & _ & H3 & _). rewrite phi_abs.
  apply (H3 r x Hr). pose proof cap_val. unfold HH.mass in Hm. unfold massl. lia.
Qed.

Theorem C04_getitem_lemma h k r : wf h -> (r < depth)%nat -> mass h r (bucket r (ident k)) < 2^32 ->
  0 < 2 * truth h (ident k) - mass h r (bucket r (ident k)) ->
  hh_get (eval h) k >= 2 * truth h (ident k) - mass h r (bucket r (ident k)).
Proof.
  intros Hw Hr Hm Hp. pose proof (C04_cell_lemma h (ident k) r Hw Hr Hm) as Hc.
  destruct (Inv_eval h Hw) as (_ & H1 & _). rewrite hh_get_amax by assumption.
  unfold HH.phi in Hc. pose proof (T1_cnt_nonneg _ H1 r (bucket r (ident k))).
  destruct (keqb_spec (ident k) (stored (tab (eval h) r (bucket r (ident k))))) as [E|E]; [|lia].
  destruct (amax_spec (tab (eval h)) (ident k) depth (T1_cnt_nonneg _ H1)) as (_ & _ & H3).
  specialize (H3 r Hr (eq_sym E)). lia.
Qed.


(* ------------------------------------------------------------------ generate_candidate_set *)
Definition positions : list (nat * nat) := list_prod (seq 0 depth) (seq 0 width).
Lemma positions_in r c : In (r, c) positions <-> (r < depth)%nat /\ (c < width)%nat.
Proof. unfold positions. rewrite in_prod_iff, !in_seq. lia. Qed.

(* one loop iteration, on a table of well formed cells *)
Lemma gen_step_eq (t : table) thr cs r c : (forall r c, cell_wf (t r c)) ->
  gen_step t thr cs (r, c) =
  if cnt (t r c) =? 0 then cs
  else if cand_lookup cs (stored (t r c)) =? 0
       then (if amax t (stored (t r c)) depth >=? thr then cand_set cs (stored (t r c)) (amax t (stored (t r c)) depth) else cs)
       else cs.
Proof.
  intros Hw. unfold HH.gen_step. cbn [fst snd]. fold (stored (t r c)).
  rewrite <- (stored_length (t r c) (Hw r c)).
  rewrite max_count_amax by (auto; apply stored_length_le; auto). reflexivity.
Qed.

(* what the loop maintains: distinct keys, every entry is the maximum count of a stored key, >= threshold *)
Definition G (t : table) (thr : Z) (cs : cands) : Prop :=
  NoDup (keys cs) /\
  forall x n, In (x, n) cs ->
    n = amax t x depth /\ n >= thr /\ exists r c, (r < depth)%nat /\ (c < width)%nat /\ cnt (t r c) <> 0 /\ stored (t r c) = x.

Lemma G_step t thr cs r c : (forall r c, cell_wf (t r c)) -> (r < depth)%nat -> (c < width)%nat ->
  G t thr cs -> G t thr (gen_step t thr cs (r, c)).
Proof.
  intros Hw Hr Hc (Hnd & Hent). rewrite gen_step_eq by assumption.
  destruct (cnt (t r c) =? 0) eqn:E0; [split; assumption|].
  destruct (cand_lookup cs (stored (t r c)) =? 0); [|split; assumption].
  destruct (amax t (stored (t r c)) depth >=? thr) eqn:E1; [|split; assumption].
  split; [apply cand_set_nodup; assumption|].
  intros x n Hin. apply cand_set_in in Hin. destruct Hin as [Hin|(-> & ->)]; [auto|].
  split; [reflexivity|]. split; [lia|]. exists r, c. repeat split; auto. lia.
Qed.

Lemma fold_G t thr l cs : (forall r c, cell_wf (t r c)) ->
  (forall rc, In rc l -> (fst rc < depth)%nat /\ (snd rc < width)%nat) ->
  G t thr cs -> G t thr (fold_left (gen_step t thr) l cs).
Proof.
  intros Hw. revert cs. induction l as [|[r c] l IH]; intros cs Hl HG; [assumption|].
  cbn [fold_left]. apply IH; [intros; apply Hl; right; assumption|].
  destruct (Hl (r, c) (or_introl eq_refl)). apply G_step; assumption.
Qed.

Lemma gen_cands_G t thr : (forall r c, cell_wf (t r c)) -> G t thr (gen_cands t thr).
Proof.
  intros Hw. unfold HH.gen_cands. fold positions. apply fold_G; [assumption| |].
  - intros [r c] H. apply positions_in in H. assumption.
  - split; [constructor|intros x n []].
Qed.

Lemma gen_step_keeps t thr cs rc y : In y (keys cs) -> In y (keys (gen_step t thr cs rc)).
Proof.
  intros H. unfold HH.gen_step. destruct (_ =? 0); [assumption|]. cbv zeta.
  destruct (_ =? 0); [|assumption]. destruct (_ >=? _); [|assumption]. apply cand_set_keeps. assumption.
Qed.
Lemma fold_keeps t thr l cs y : In y (keys cs) -> In y (keys (fold_left (gen_step t thr) l cs)).
Proof.
  revert cs. induction l as [|rc l IH]; intros cs H; [assumption|]. cbn [fold_left]. apply IH. apply gen_step_keeps. assumption.
Qed.

Lemma gen_cands_complete t thr r c : (forall r c, cell_wf (t r c)) -> (r < depth)%nat -> (c < width)%nat ->
  cnt (t r c) <> 0 -> amax t (stored (t r c)) depth >= thr -> In (stored (t r c)) (keys (gen_cands t thr)).
Proof.
  intros Hw Hr Hc Hnz Hge. unfold HH.gen_cands. fold positions.
  destruct (in_split (r, c) positions (proj2 (positions_in r c) (conj Hr Hc))) as (l1 & l2 & ->).
  rewrite fold_left_app. cbn [fold_left]. apply fold_keeps.
  generalize (fold_left (gen_step t thr) l1 []). intros cs. rewrite gen_step_eq by assumption.
  assert ((cnt (t r c) =? 0) = false) as -> by lia.
  destruct (cand_lookup cs (stored (t r c)) =? 0) eqn:E.
  - assert ((amax t (stored (t r c)) depth >=? thr) = true) as -> by lia. apply cand_set_has.
  - apply cand_lookup_nz. lia.
Qed.

(* ------------------------------------------------------------------ query *)
Lemma thr_of_idem s thr : thr_of s (Some (thr_of s thr)) = thr_of s thr.
Proof. unfold HH.thr_of. apply wrap32_idem. Qed.

Lemma query_fresh_lemma s lv k thr : Inv s lv ->
  snd (hh_query s k thr) = most_common k (gen_cands (tab s) (thr_of s thr)).
Proof.
  intros (_ & _ & _ & _ & _ & H5a & H5b). unfold HH.hh_query. cbn [snd].
  destruct ((n_added_sort s <? n_added s) || negb (thr_sort s =? thr_of s thr)) eqn:E.
  - unfold HH.hh_generate. cbn [cand]. fold (thr_of s (Some (thr_of s thr))). rewrite thr_of_idem. reflexivity.
  - apply orb_false_iff in E. destruct E as [E1 E2]. apply negb_false_iff in E2.
    rewrite H5b by lia. f_equal. f_equal. lia.
Qed.

Lemma query_entry s lv k thr x n : Inv s lv -> In (x, n) (snd (hh_query s k thr)) ->
  n = amax (tab s) x depth /\ n >= thr_of s thr /\ 0 < n /\ (length x <= L)%nat.
Proof.
  intros HI Hin. rewrite (query_fresh_lemma s lv) in Hin by assumption. apply most_common_in in Hin.
  destruct HI as (Hn & H1 & H2 & _).
  destruct (gen_cands_G (tab s) (thr_of s thr) H1) as (_ & Hent).
  destruct (Hent x n Hin) as (-> & Hge & r & c & Hr & Hc & Hnz & Hst).
  split; [reflexivity|]. split; [assumption|].
  pose proof (T1_cnt_nonneg s H1 r c). destruct (own_column s lv r c Hn H2 ltac:(lia)) as (_ & Hb).
  rewrite Hst in Hb. subst c.
  destruct (amax_spec (tab s) x depth (T1_cnt_nonneg s H1)) as (_ & _ & H3). specialize (H3 r Hr Hst).
  split; [lia|]. rewrite <- Hst. apply stored_length_le. apply H1.
Qed.

(* ---- C03 on query answers *)
Theorem C03_query_lemma h k thr x n : wf h -> In (x, n) (snd (hh_query (eval h) k thr)) -> 0 < n <= truth h x.
Proof.
  intros Hw Hin. pose proof (Inv_eval h Hw) as HI. destruct (query_entry _ _ k thr x n HI Hin) as (-> & _ & Hp & _).
  split; [assumption|]. destruct HI as (Hn & H1 & H2 & _). apply (amax_le_truthl (eval h) (leaves h)); assumption.
Qed.

(* ---- C13 *)
Theorem C13_cache_inv_lemma st : reachable width depth max_key_len bucket default_thr st ->
  n_added_sort st = n_added st -> cand st = gen_cands (tab st) (thr_sort st).
Proof. intros (h & Hw & ->) E. destruct (Inv_eval h Hw) as (_ & _ & _ & _ & _ & _ & H5). auto. Qed.

Theorem C13_fresh_lemma st k thr : reachable width depth max_key_len bucket default_thr st ->
  snd (hh_query st k thr) = most_common k (gen_cands (tab st) (thr_of st thr)).
Proof. intros (h & Hw & ->). apply (query_fresh_lemma _ (leaves h)). apply Inv_eval. assumption. Qed.

Theorem C13_sorted_lemma st k thr : StronglySorted (fun p q => snd p >= snd q) (snd (hh_query st k thr)).
Proof. unfold HH.hh_query. cbn [snd]. apply most_common_sorted. Qed.

Theorem C13_len_lemma st n thr : 0 <= n -> Z.of_nat (length (snd (hh_query st (Some n) thr))) <= n.
Proof. intros. unfold HH.hh_query. cbn [snd]. apply most_common_len. assumption. Qed.

Theorem C13_nodup_lemma st k thr : reachable width depth max_key_len bucket default_thr st ->
  NoDup (map fst (snd (hh_query st k thr))).
Proof.
  intros Hr. rewrite C13_fresh_lemma by assumption. destruct Hr as (h & Hw & ->).
  destruct (Inv_eval h Hw) as (_ & H1 & _). apply most_common_nodup.
  apply (gen_cands_G (tab (eval h)) _ H1).
Qed.

Theorem C13_counts_lemma st k thr x n : reachable width depth max_key_len bucket default_thr st ->
  In (x, n) (snd (hh_query st k thr)) -> n = hh_get st x /\ n >= thr_of st thr /\ n > 0.
Proof.
  intros (h & Hw & ->) Hin. pose proof (Inv_eval h Hw) as HI.
  destruct (query_entry _ _ k thr x n HI Hin) as (-> & Hge & Hp & Hl).
  destruct HI as (_ & H1 & _). rewrite hh_get_amax by assumption. rewrite ident_short by assumption.
  repeat split; [assumption|lia].
Qed.

Theorem C13_prefix_lemma st n thr :
  snd (hh_query st (Some n) thr) = firstn (Z.to_nat n) (snd (hh_query st None thr)).
Proof. reflexivity. Qed.

Lemma candidate_of_get s lv x thr : Inv s lv -> hh_get s x >= Z.max thr 1 ->
  In (ident x, hh_get s x) (gen_cands (tab s) thr).
Proof.
  intros (Hn & H1 & H2 & _) Hge. rewrite hh_get_amax in * by assumption.
  destruct (amax_spec (tab s) (ident x) depth (T1_cnt_nonneg s H1)) as (_ & [E|(r & Hr & Hs & Hc)] & _); [lia|].
  pose proof (gen_cands_complete (tab s) thr r (bucket r (ident x)) H1 Hr (bucket_lt _ _)) as X.
  rewrite Hs in X. specialize (X ltac:(lia) ltac:(lia)).
  unfold keys in X. apply in_map_iff in X. destruct X as ([y m] & Hy & Hin). cbn [fst] in Hy. subst y.
  destruct (gen_cands_G (tab s) thr H1) as (_ & Hent). destruct (Hent _ _ Hin) as (-> & _). assumption.
Qed.

Theorem C13_complete_lemma st thr x : reachable width depth max_key_len bucket default_thr st ->
  hh_get st x >= Z.max (thr_of st thr) 1 -> In (ident x, hh_get st x) (snd (hh_query st None thr)).
Proof.
  intros Hr Hge. rewrite C13_fresh_lemma by assumption. destruct Hr as (h & Hw & ->).
  apply most_common_all_in. apply (candidate_of_get _ (leaves h)); [apply Inv_eval|]; assumption.
Qed.


(* ---- C04 on query answers *)
Theorem C04_query_lemma h k r thr : wf h -> (r < depth)%nat -> mass h r (bucket r (ident k)) < 2^32 ->
  2 * truth h (ident k) - mass h r (bucket r (ident k)) >= Z.max (thr_of (eval h) thr) 1 ->
  exists n, In (ident k, n) (snd (hh_query (eval h) None thr)) /\
            n >= 2 * truth h (ident k) - mass h r (bucket r (ident k)) /\ n = hh_get (eval h) k.
Proof.
  intros Hw Hr Hm Hb. pose proof (C04_getitem_lemma h k r Hw Hr Hm ltac:(lia)) as Hg.
  exists (hh_get (eval h) k). split; [|split; [assumption|reflexivity]].
  apply C13_complete_lemma; [exists h; auto|lia].
Qed.

(* with a finite k: the key is among the first k when at most k candidates count at least as much *)
Theorem C04_query_topk_lemma h k r kk thr : wf h -> (r < depth)%nat -> mass h r (bucket r (ident k)) < 2^32 ->
  2 * truth h (ident k) - mass h r (bucket r (ident k)) >= Z.max (thr_of (eval h) thr) 1 ->
  (length (filter (fun q => snd q >=? hh_get (eval h) k) (gen_cands (tab (eval h)) (thr_of (eval h) thr))) <= Z.to_nat kk)%nat ->
  In (ident k, hh_get (eval h) k) (snd (hh_query (eval h) (Some kk) thr)).
Proof.
  intros Hw Hr Hm Hb Hlen. destruct (C04_query_lemma h k r thr Hw Hr Hm Hb) as (n & Hin & _ & ->).
  rewrite (query_fresh_lemma _ (leaves h)) in * by (apply Inv_eval; assumption).
  unfold most_common in *. apply sorted_firstn_mem; [apply sort_sorted|assumption|].
  cbn [snd]. rewrite (filter_perm_length _ _ _ (sort_perm _)). assumption.
Qed.

Lemma massl_le_total lv r c : nonneg lv -> massl lv r c <= wsum (fun _ => true) lv.
Proof. intros. apply wsum_le; auto. Qed.
Lemma massl_two_cells lv r c1 c2 : nonneg lv -> c1 <> c2 -> massl lv r c1 + massl lv r c2 <= wsum (fun _ => true) lv.
Proof.
  intros Hn Hc. apply wsum_disj; auto. intros k H1 H2. apply Nat.eqb_eq in H1, H2. congruence.
Qed.
Lemma hd_firstn1 {A} (l : list A) : hd_error (firstn 1 l) = hd_error l.
Proof. destruct l; reflexivity. Qed.

(* a key with more than half of everything added is reported first *)
Theorem C04_majority_lemma h x thr : wf h -> (0 < depth)%nat -> total h < 2^32 -> 2 * truth h x > total h ->
  thr_of (eval h) thr <= 2 * truth h x - total h ->
  exists n, hd_error (snd (hh_query (eval h) (Some 1) thr)) = Some (x, n) /\
            n >= 2 * truth h x - total h /\ n = hh_get (eval h) x.
Proof.
  intros Hw Hd Ht Hmaj Hthr. pose proof (Inv_eval h Hw) as HI. pose proof HI as (Hn & H1 & H2 & H3 & _).
  unfold HH.total, HH.truth in *. fold (truthl (leaves h) x) in *.
  set (t := tab (eval h)) in *. set (lv := leaves h) in *. set (N := wsum (fun _ => true) lv) in *.
  pose proof cap_val as Hcap.
  assert (B : forall r, (r < depth)%nat ->
            stored (t r (bucket r x)) = x /\ cnt (t r (bucket r x)) >= 2 * truthl lv x - massl lv r (bucket r x)).
  { intros r Hr. pose proof (massl_le_total lv r (bucket r x) Hn). fold N in H.
    specialize (H3 r x Hr ltac:(lia)). fold t in H3. unfold aphi, abs in H3. cbn [fst snd] in H3.
    pose proof (T1_cnt_nonneg _ H1 r (bucket r x)). fold t in H0.
    destruct (keqb_spec x (stored (t r (bucket r x)))); [split; [congruence|lia]|lia]. }
  assert (C : forall r, (r < depth)%nat -> amax t x depth >= 2 * truthl lv x - massl lv r (bucket r x)).
  { intros r Hr. destruct (B r Hr) as (Bs & Bc).
    destruct (amax_spec t x depth (T1_cnt_nonneg _ H1)) as (_ & _ & A3). specialize (A3 r Hr Bs). lia. }
  assert (Hx : (length x <= L)%nat).
  { destruct (B 0%nat Hd) as (<- & _). apply stored_length_le. apply H1. }
  assert (Hget : hh_get (eval h) x = amax t x depth) by (rewrite hh_get_amax, ident_short by assumption; reflexivity).
  pose proof (C 0%nat Hd) as C0. pose proof (massl_le_total lv 0%nat (bucket 0%nat x) Hn) as M0. fold N in M0.
  assert (D : In (x, amax t x depth) (gen_cands t (thr_of (eval h) thr))).
  { pose proof (candidate_of_get (eval h) lv x (thr_of (eval h) thr) HI) as X.
    rewrite Hget, ident_short in X by assumption. apply X. lia. }
  assert (E : forall y m, In (y, m) (gen_cands t (thr_of (eval h) thr)) -> (y, m) = (x, amax t x depth) \/ m < amax t x depth).
  { intros y m Hin. destruct (gen_cands_G t (thr_of (eval h) thr) H1) as (_ & Hent).
    destruct (Hent y m Hin) as (-> & _).
    destruct (keqb_spec y x) as [->|Hyx]; [left; reflexivity|right].
    destruct (amax_spec t y depth (T1_cnt_nonneg _ H1)) as (_ & [E0|(r & Hr & Hs & Hc)] & _); [lia|].
    destruct (B r Hr) as (Bs & _).
    assert (bucket r y <> bucket r x) as Hb by (intros Eb; rewrite Eb in Hs; congruence).
    pose proof (cnt_le_massl (eval h) lv r (bucket r y) Hn H2) as Hcm. fold t in Hcm.
    pose proof (massl_two_cells lv r _ _ Hn Hb) as Hsum. fold N in Hsum.
    specialize (C r Hr). lia. }
  exists (amax t x depth). split; [|split; [lia|symmetry; assumption]].
  rewrite (query_fresh_lemma _ lv) by assumption. unfold most_common. change (Z.to_nat 1) with 1%nat.
  rewrite hd_firstn1. apply sort_head_max; assumption.
Qed.

(* ------------------------------------------------------------------ entry points that are not constructors *)
Lemma eval_update_list h ks : eval (HUpdateList h ks) = hh_update_list depth max_key_len bucket (eval h) ks.
Proof.
  unfold HUpdateList, HH.hh_update_list. revert h. induction ks as [|k ks IH]; intros h; [reflexivity|].
  cbn [fold_left]. rewrite IH. reflexivity.
Qed.
Lemma eval_update_dict h kvs : eval (HUpdateDict h kvs) = hh_update_dict depth max_key_len bucket (eval h) kvs.
Proof.
  unfold HUpdateDict, HH.hh_update_dict. revert h. induction kvs as [|kv kvs IH]; intros h; [reflexivity|].
  cbn [fold_left]. rewrite IH. reflexivity.
Qed.
Lemma eval_update_ngram h ks n : eval (HUpdateNgram h ks n) = hh_update_ngram depth max_key_len bucket (eval h) ks n.
Proof.
  unfold HUpdateNgram, HH.hh_update_ngram. revert h. induction ks as [|k ks IH]; intros h; [reflexivity|].
  cbn [fold_left]. rewrite IH. reflexivity.
Qed.
Lemma eval_windows h k n : eval (HWindows h k n) = eval (HNgram h k n).
Proof.
  unfold HWindows. cbn [HH.eval]. unfold HH.hh_add_ngram. revert h.
  induction (ngram_windows k n) as [|w ws IH]; intros h; [reflexivity|].
  cbn [fold_left]. rewrite IH. cbn [HH.eval]. rewrite add_is_raw. reflexivity.
Qed.
Lemma leaves_windows h k n : leaves (HWindows h k n) = leaves (HNgram h k n).
Proof.
  unfold HWindows. cbn [leaves]. revert h.
  induction (ngram_windows k n) as [|w ws IH]; intros h; cbn [fold_left map]; [symmetry; apply app_nil_r|].
  rewrite IH. cbn [leaves]. rewrite <- app_assoc. reflexivity.
Qed.
Lemma truth_windows h k n x : truth (HWindows h k n) x = truth (HNgram h k n) x.
Proof. unfold HH.truth. rewrite leaves_windows. reflexivity. Qed.

(* ------------------------------------------------------------------ exported for C12: multiplicity = repeated unit adds *)
Lemma cell_add_succ cl x v : cell_wf cl -> (length x <= L)%nat -> 0 <= v -> v + 1 <= hh_cap ->
  cell_add (cell_add cl (pad x) (zlen x) v) (pad x) (zlen x) 1 = cell_add cl (pad x) (zlen x) (v + 1).
Proof.
  intros Hw Hx Hv Hv1. pose proof cap_val as Hc. pose proof Hw as (_ & _ & _ & Hr).
  assert (wrap8 (zlen x) = zlen x) as W8 by (apply wrap8_small; unfold zlen; lia).
  assert (Hself : forall n, (klen (mkCell (pad x) (zlen x) n) =? zlen x) && keqb (pad x) (ckey (mkCell (pad x) (zlen x) n)) = true).
  { intros n. cbn [klen ckey]. rewrite Z.eqb_refl, keqb_refl. reflexivity. }
  unfold cell_add at 2 3. rewrite W8.
  destruct ((klen cl =? zlen x) && keqb (pad x) (ckey cl)) eqn:M.
  - destruct (v <? hh_cap - cnt cl) eqn:E1; destruct (v + 1 <? hh_cap - cnt cl) eqn:E2; try lia.
    + unfold cell_add. cbn [ckey klen cnt]. rewrite M. rewrite (wrap32_small (cnt cl + v)) by lia.
      assert ((1 <? hh_cap - (cnt cl + v)) = true) as -> by lia. f_equal. f_equal. lia.
    + unfold cell_add. cbn [ckey klen cnt]. rewrite M. rewrite (wrap32_small (cnt cl + v)) by lia.
      assert ((1 <? hh_cap - (cnt cl + v)) = false) as -> by lia. reflexivity.
    + unfold cell_add. cbn [ckey klen cnt]. rewrite M.
      assert ((1 <? hh_cap - hh_cap) = false) as -> by lia. reflexivity.
  - destruct (v >? cnt cl) eqn:E1; destruct (v + 1 >? cnt cl) eqn:E2; try lia.
    + unfold cell_add. rewrite Hself. cbn [ckey klen cnt]. rewrite (wrap32_small (v - cnt cl)) by lia.
      destruct (1 <? hh_cap - (v - cnt cl)) eqn:E3.
      * f_equal. f_equal. lia.
      * rewrite (wrap32_small (v + 1 - cnt cl)) by lia. f_equal. lia.
    + unfold cell_add. cbn [ckey klen cnt]. rewrite M, W8. rewrite (wrap32_small (cnt cl - v)) by lia.
      assert ((1 >? cnt cl - v) = true) as -> by lia. f_equal. f_equal. lia.
    + unfold cell_add. cbn [ckey klen cnt]. rewrite M. rewrite (wrap32_small (cnt cl - v)) by lia.
      assert ((1 >? cnt cl - v) = false) as -> by lia. f_equal. f_equal. lia.
Qed.

Definition hh_add1 (k : key) (s : sketch) : sketch := hh_add s k 1.

Lemma iter_add1 s k n : T1 s -> zlen k < 2^64 -> Z.of_nat n <= hh_cap ->
  let s' := Nat.iter n (hh_add1 k) s in
  T1 s' /\
  (forall r c, tab s' r c = if (r <? depth)%nat && (c =? bucket r (ident k))%nat
                            then cell_add (tab s r c) (pad (ident k)) (zlen (ident k)) (Z.of_nat n) else tab s r c) /\
  n_added s' = n_added s + Z.of_nat n /\ n_records s' = n_records s /\ cand s' = cand s /\
  n_added_sort s' = n_added_sort s /\ thr_sort s' = thr_sort s.
Proof.
  intros H1 Hk. pose proof cap_val as Hc. induction n as [|n IH]; intros Hn.
  - change (Nat.iter 0 (hh_add1 k) s) with s. cbv zeta. split; [assumption|]. split; [|repeat split; try reflexivity; lia].
    intros r c. destruct (_ && _); [|reflexivity]. symmetry. apply cell_add_zero.
    destruct (H1 r c) as (_ & _ & _ & ?). assumption.
  - destruct (IH ltac:(lia)) as (I1 & It & In & Ir & Ic & Is & Ith).
    change (Nat.iter (S n) (hh_add1 k) s) with (hh_add (Nat.iter n (hh_add1 k) s) k 1). cbv zeta.
    set (s' := Nat.iter n (hh_add1 k) s) in *.
    assert (Hone : Z.min 1 hh_cap = 1) by lia.
    assert (T1 (hh_add s' k 1)) as I1'.
    { intros r c. rewrite add_tab by (assumption || lia). rewrite Hone. destruct (_ && _); [|apply I1].
      apply cell_add_abs; [apply I1|apply ident_length|lia]. }
    split; [assumption|]. split.
    + intros r c. rewrite add_tab by (assumption || lia). rewrite Hone, It.
      destruct ((r <? depth)%nat && (c =? bucket r (ident k))%nat); [|reflexivity].
      rewrite cell_add_succ; [f_equal; lia|apply H1|apply ident_length|lia|lia].
    + destruct (add_raw_rest s' k 1) as (Hr & Hcd & Hs & Ht).
      rewrite (hh_add_eq s' k 1) by lia. rewrite Hone, add_raw_n_added, Hr, Hcd, Hs, Ht.
      repeat split; try assumption. lia.
Qed.

(* C12_hh_mult: one add with multiplicity v equals v unit adds, pointwise on the tables and on every scalar field *)
Theorem hh_add_mult s k v : T1 s -> zlen k < 2^64 -> 0 <= v <= hh_cap ->
  let s1 := hh_add s k v in let s2 := Nat.iter (Z.to_nat v) (hh_add1 k) s in
  (forall r c, tab s1 r c = tab s2 r c) /\ n_added s1 = n_added s2 /\ n_records s1 = n_records s2 /\
  cand s1 = cand s2 /\ n_added_sort s1 = n_added_sort s2 /\ thr_sort s1 = thr_sort s2.
Proof.
  intros H1 Hk Hv. cbv zeta.
  destruct (iter_add1 s k (Z.to_nat v) H1 Hk ltac:(lia)) as (_ & It & In & Ir & Ic & Is & Ith).
  rewrite Z2Nat.id in * by lia.
  destruct (add_raw_rest s k (Z.min v hh_cap)) as (Hr & Hcd & Hs & Ht).
  assert (Z.min v hh_cap = v) as Hm by lia.
  split.
  - intros r c. rewrite add_tab, It by (assumption || lia). rewrite Hm. reflexivity.
  - rewrite (hh_add_eq s k v) by lia. rewrite add_raw_n_added, Hr, Hcd, Hs, Ht, Hm, In, Ir, Ic, Is, Ith. repeat split; reflexivity.
Qed.

(* every reachable state has well formed cells, so the lemma applies along every history *)
Theorem hh_add_mult_reachable h k v : wf h -> zlen k < 2^64 -> 0 <= v <= hh_cap ->
  let s := eval h in let s1 := hh_add s k v in let s2 := Nat.iter (Z.to_nat v) (hh_add1 k) s in
  (forall r c, tab s1 r c = tab s2 r c) /\ n_added s1 = n_added s2 /\ n_records s1 = n_records s2 /\
  cand s1 = cand s2 /\ n_added_sort s1 = n_added_sort s2 /\ thr_sort s1 = thr_sort s2.
Proof. intros Hw. apply hh_add_mult. destruct (Inv_eval h Hw) as (_ & H1 & _). assumption. Qed.

(* ------------------------------------------------------------------ exported for C18: range, and a key alone in its cells *)
Theorem hh_range h r c : wf h -> 0 <= cnt (tab (eval h) r c) <= hh_cap.
Proof. intros Hw. destruct (Inv_eval h Hw) as (_ & H1 & _). destruct (H1 r c) as (_ & _ & _ & ?). assumption. Qed.

(* x is alone in its cell of row r: every other key of that cell has multiplicity 0 *)
Definition alonel (lv : list (key * Z)) (r : nat) (x : key) : Prop :=
  forall j, bucket r j = bucket r x -> j <> x -> truthl lv j = 0.
Definition T6 (s : sketch) lv : Prop := forall r x, (r < depth)%nat -> (length x <= L)%nat -> alonel lv r x ->
  let cl := tab s r (bucket r x) in cnt cl = Z.min (truthl lv x) hh_cap /\ (0 < cnt cl -> stored cl = x).

Lemma alonel_app_l a b r x : nonneg a -> nonneg b -> alonel (a ++ b) r x -> alonel a r x.
Proof.
  intros Ha Hb H j Hj Hne. specialize (H j Hj Hne). rewrite truthl_app in H.
  pose proof (truthl_nonneg a j Ha). pose proof (truthl_nonneg b j Hb). lia.
Qed.
Lemma alonel_app_r a b r x : nonneg a -> nonneg b -> alonel (a ++ b) r x -> alonel b r x.
Proof.
  intros Ha Hb H j Hj Hne. specialize (H j Hj Hne). rewrite truthl_app in H.
  pose proof (truthl_nonneg a j Ha). pose proof (truthl_nonneg b j Hb). lia.
Qed.

Lemma a_add_zero (c : acell) k : 0 <= snd c <= hh_cap -> a_add c k 0 = c.
Proof.
  intros Hr. unfold a_add. pose proof cap_val. destruct c as [y n]. cbn [fst snd] in *.
  destruct (keqb k y).
  - destruct (0 <? hh_cap - n) eqn:?; f_equal; lia.
  - destruct (0 >? n) eqn:?; [lia|]. f_equal; lia.
Qed.
Lemma alone_a_add c x v T : 0 <= T -> 0 <= v ->
  snd c = Z.min T hh_cap -> (0 < snd c -> fst c = x) ->
  snd (a_add c x (Z.min v hh_cap)) = Z.min (T + v) hh_cap /\ (0 < snd (a_add c x (Z.min v hh_cap)) -> fst (a_add c x (Z.min v hh_cap)) = x).
Proof.
  intros HT Hv Hc Hs. unfold a_add. pose proof cap_val.
  assert (fst c = x \/ (fst c <> x /\ snd c = 0 /\ T = 0)) as [E|(E & E0 & ET)].
  { destruct (Z_lt_dec 0 (snd c)); [left; auto|]. destruct (keqb_spec (fst c) x); [left; assumption|right]. repeat split; [assumption|lia|lia]. }
  - rewrite E, keqb_refl. cbn [fst snd].
    destruct (Z.min v hh_cap <? hh_cap - snd c) eqn:?; cbn [fst snd]; split; try lia; reflexivity.
  - rewrite (proj2 (keqb_neq x (fst c))) by congruence. rewrite E0.
    destruct (Z.min v hh_cap >? 0) eqn:?; cbn [fst snd]; split; try lia; reflexivity.
Qed.
Lemma alone_a_merge a b x Ta Tb : 0 <= Ta -> 0 <= Tb ->
  snd a = Z.min Ta hh_cap -> (0 < snd a -> fst a = x) -> snd b = Z.min Tb hh_cap -> (0 < snd b -> fst b = x) ->
  snd (a_merge a b) = Z.min (Ta + Tb) hh_cap /\ (0 < snd (a_merge a b) -> fst (a_merge a b) = x).
Proof.
  intros HTa HTb Ha Hsa Hb Hsb. unfold a_merge. pose proof cap_val.
  assert (fst a = x \/ (snd a = 0 /\ Ta = 0)) as Ca by (destruct (Z_lt_dec 0 (snd a)); [left; auto|right; lia]).
  assert (fst b = x \/ (snd b = 0 /\ Tb = 0)) as Cb by (destruct (Z_lt_dec 0 (snd b)); [left; auto|right; lia]).
  destruct (keqb_spec (fst a) (fst b)) as [E|E].
  - destruct (snd b >? hh_cap - snd a) eqn:?; cbn [fst snd]; (split; [lia|]); intros Hp.
    + destruct Ca as [?|(? & ?)]; [assumption|]. destruct Cb as [?|(? & ?)]; [congruence|lia].
    + destruct Ca as [?|(? & ?)]; [assumption|]. destruct Cb as [?|(? & ?)]; [congruence|lia].
  - destruct (snd a >=? snd b) eqn:?; cbn [fst snd].
    + split; [|intros; apply Hsa; lia].
      destruct Cb as [Eb|(? & ?)]; [|lia]. destruct Ca as [Ea|(? & ?)]; [congruence|lia].
    + split; [|intros; apply Hsb; lia].
      destruct Ca as [Ea|(? & ?)]; [|lia]. destruct Cb as [Eb|(? & ?)]; [congruence|lia].
Qed.

Definition Inv6 (s : sketch) lv : Prop := Inv s lv /\ T6 s lv.

Lemma Inv6_eval h : wf h -> Inv6 (eval h) (leaves h).
Proof.
  apply (hist_rel_ind Inv6).
  - split; [apply Inv_empty|]. intros r x Hr Hx _. cbn [HH.hh_empty tab]. cbv zeta. unfold truthl. rewrite wsum_nil.
    cbn [HH.empty_cell cnt]. pose proof cap_val. split; lia.
  - intros s lv k v (HI & H6) Hv Hk. split; [apply Inv_add; assumption|].
    pose proof HI as (Hn & H1 & _).
    assert (Hn1 : nonneg [(k, v)]) by (constructor; [cbn; lia|constructor]).
    intros r x Hr Hx Hal. cbv zeta. rewrite add_tab by assumption.
    assert ((r <? depth)%nat = true) as -> by (apply Nat.ltb_lt; assumption). cbn [andb].
    specialize (H6 r x Hr Hx (alonel_app_l _ _ r x Hn Hn1 Hal)). cbv zeta in H6. destruct H6 as (H6c & H6s).
    rewrite truthl_app, truthl_one.
    destruct (Nat.eqb_spec (bucket r x) (bucket r (ident k))) as [Eb|Eb].
    + destruct (capped_value v Hv) as (_ & Hcr & _).
      destruct (cell_add_abs (tab s r (bucket r x)) (ident k) (Z.min v hh_cap) (H1 _ _) (ident_length k) Hcr) as (_ & Ha).
      pose proof (f_equal fst Ha) as Hs. pose proof (f_equal snd Ha) as Hc. unfold abs in Hs, Hc. cbn [fst snd] in Hs, Hc.
      rewrite Hs, Hc.
      destruct (keqb_spec (ident k) x) as [E|E].
      * rewrite E. apply alone_a_add; cbn [fst snd]; auto. apply truthl_nonneg; assumption.
      * (* another key of the same cell: its multiplicity, hence v, is 0 *)
        pose proof (Hal (ident k) (eq_sym Eb) E) as Hz. rewrite truthl_app, truthl_one, keqb_refl in Hz.
        pose proof (truthl_nonneg lv (ident k) Hn). assert (v = 0) as -> by lia.
        replace (Z.min 0 hh_cap) with 0 by (pose proof cap_val; lia).
        destruct (H1 r (bucket r x)) as (_ & _ & _ & Hrange).
        rewrite a_add_zero by (cbn [snd]; assumption). cbn [fst snd]. rewrite Z.add_0_r. split; assumption.
    + destruct (keqb_spec (ident k) x) as [E|E]; [rewrite E in Eb; congruence|]. rewrite Z.add_0_r. split; assumption.
  - intros s1 l1 s2 l2 (HI1 & A6) (HI2 & B6). split; [apply Inv_merge; assumption|].
    pose proof HI1 as (Hn1 & A1 & _). pose proof HI2 as (Hn2 & B1 & _).
    intros r x Hr Hx Hal. cbv zeta. rewrite merge_tab.
    assert ((r <? depth)%nat = true) as -> by (apply Nat.ltb_lt; assumption).
    assert ((bucket r x <? width)%nat = true) as -> by (apply Nat.ltb_lt; apply bucket_lt). cbn [andb].
    specialize (A6 r x Hr Hx (alonel_app_l _ _ r x Hn1 Hn2 Hal)). specialize (B6 r x Hr Hx (alonel_app_r _ _ r x Hn1 Hn2 Hal)).
    cbv zeta in A6, B6. destruct A6 as (A6c & A6s), B6 as (B6c & B6s).
    destruct (cell_merge_abs (tab s1 r (bucket r x)) (tab s2 r (bucket r x)) (A1 _ _) (B1 _ _)) as (_ & Ha).
    pose proof (f_equal fst Ha) as Hs. pose proof (f_equal snd Ha) as Hc. unfold abs in Hs, Hc. cbn [fst snd] in Hs, Hc.
    rewrite Hs, Hc, truthl_app.
    apply alone_a_merge; cbn [fst snd]; auto; apply truthl_nonneg; assumption.
  - intros s lv (HI & H6). split; [apply Inv_load; assumption|exact H6].
  - intros s lv thr (HI & H6). split; [apply Inv_query; assumption|].
    unfold HH.hh_query. cbn [fst]. destruct (_ || _); exact H6.
  - intros s lv thr (HI & H6). split; [apply Inv_generate; assumption|exact H6].
Qed.

(* C18_hh_alone: a key that is alone in its cell of row r has count min(truth, cap) there *)
Definition alone (h : hist) (r : nat) (x : key) : Prop :=
  forall j, bucket r j = bucket r x -> j <> x -> truth h j = 0.
Theorem hh_alone h r x : wf h -> (r < depth)%nat -> (length x <= L)%nat -> alone h r x ->
  let cl := tab (eval h) r (bucket r x) in
  cnt cl = Z.min (truth h x) hh_cap /\ (0 < cnt cl -> stored cl = x).
Proof. intros Hw Hr Hx Hal. destruct (Inv6_eval h Hw) as (_ & H6). apply (H6 r x Hr Hx). exact Hal. Qed.

(* ... and it never decreases when the history is extended by an add or a merge *)
Theorem hh_alone_mono_add h k v r x : wf (HAdd h k v) -> (r < depth)%nat -> (length x <= L)%nat -> alone (HAdd h k v) r x ->
  cnt (tab (eval h) r (bucket r x)) <= cnt (tab (eval (HAdd h k v)) r (bucket r x)).
Proof.
  intros Hw Hr Hx Hal. pose proof Hw as (Hw0 & Hv & _).
  destruct (hh_alone (HAdd h k v) r x Hw Hr Hx Hal) as (-> & _).
  assert (alone h r x) as Hal0.
  { intros j Hj Hne. specialize (Hal j Hj Hne). unfold HH.truth in *. cbn [leaves] in Hal. rewrite wsum_app in Hal.
    destruct (Inv_eval h Hw0) as (Hn & _). pose proof (wsum_nonneg (fun k0 => keqb (ident k0) j) (leaves h) Hn).
    pose proof (wsum_nonneg (fun k0 => keqb (ident k0) j) [(k, v)] ltac:(constructor; [cbn; lia|constructor])). lia. }
  destruct (hh_alone h r x Hw0 Hr Hx Hal0) as (-> & _).
  unfold HH.truth. cbn [leaves]. rewrite wsum_app.
  pose proof (wsum_nonneg (fun k0 => keqb (ident k0) x) [(k, v)] ltac:(constructor; [cbn; lia|constructor])). lia.
Qed.
Theorem hh_alone_mono_merge h1 h2 r x : wf (HMerge h1 h2) -> (r < depth)%nat -> (length x <= L)%nat -> alone (HMerge h1 h2) r x ->
  cnt (tab (eval h1) r (bucket r x)) <= cnt (tab (eval (HMerge h1 h2)) r (bucket r x)).
Proof.
  intros Hw Hr Hx Hal. pose proof Hw as (Hw1 & Hw2).
  destruct (hh_alone (HMerge h1 h2) r x Hw Hr Hx Hal) as (-> & _).
  destruct (Inv_eval h1 Hw1) as (Hn1 & _). destruct (Inv_eval h2 Hw2) as (Hn2 & _).
  assert (alone h1 r x) as Hal1.
  { intros j Hj Hne. specialize (Hal j Hj Hne). unfold HH.truth in *. cbn [leaves] in Hal. rewrite wsum_app in Hal.
    pose proof (wsum_nonneg (fun k0 => keqb (ident k0) j) (leaves h1) Hn1).
    pose proof (wsum_nonneg (fun k0 => keqb (ident k0) j) (leaves h2) Hn2). lia. }
  destruct (hh_alone h1 r x Hw1 Hr Hx Hal1) as (-> & _).
  unfold HH.truth. cbn [leaves]. rewrite wsum_app.
  pose proof (wsum_nonneg (fun k0 => keqb (ident k0) x) (leaves h2) Hn2). lia.
Qed.

(* the harness tabulates tables after every operation; inside the array bounds that is the identity *)
Lemma freeze_tab s r c : (r < depth)%nat -> (c < width)%nat ->
  tab (hh_freeze width depth max_key_len s) r c = tab s r c.
Proof.
  intros Hr Hc. unfold hh_freeze. cbn [tab].
  set (F := fun r0 : nat => map (fun c0 : nat => tab s r0 c0) (seq 0 width)).
  rewrite (nth_indep (map F (seq 0 depth)) [] (F O)) by (rewrite map_length, seq_length; assumption).
  rewrite map_nth, seq_nth by assumption. unfold F. cbn [Nat.add].
  rewrite (nth_indep _ empty_cell ((fun c0 : nat => tab s r c0) O)) by (rewrite map_length, seq_length; assumption).
  rewrite (map_nth (fun c0 : nat => tab s r c0)), seq_nth by assumption. reflexivity.
Qed.

Lemma ngram_is_adds h k n :
  eval (HWindows h k n) = eval (HNgram h k n) /\ forall x, truth (HWindows h k n) x = truth (HNgram h k n) x.
Proof. split; [apply eval_windows|intros; apply truth_windows]. Qed.

End HHProofs.

Lemma default_thr_lemma (default_thr : Z -> Z) st :
  thr_of default_thr st None = wrap32 (default_thr (n_added st)) /\
  (0 <= default_thr (n_added st) < 2^32 -> thr_of default_thr st None = default_thr (n_added st)).
Proof. split; [reflexivity|]. intros H. unfold thr_of. apply wrap32_small. assumption. Qed.

(* ------------------------------------------------------------------ F1, documented on the unrepaired matching rule *)
Lemma pad_alias : pad 4 [97; 0] = pad 4 [97] /\ [97; 0] <> [97].
Proof. split; [reflexivity|discriminate]. Qed.

Lemma C03_refuted_lemma :
  exists h k, hh_get_unfixed 1 4 (fun _ _ => O) (eval_unfixed 1 1 4 (fun _ _ => O) h) k > truth 4 h (ident 4 k).
Proof. exists (HAdd (HAdd HEmpty [97; 0] 5) [97] 3), [97]. vm_compute. reflexivity. Qed.
