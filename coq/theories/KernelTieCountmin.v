(* KernelTieCountmin.v — _func, _funcprime, _counter2value as regenerated from the source AST
   (generated/KernelsCountmin.v, float64 read as real numbers) are the modelled real functions. *)
From Coq Require Import ZArith Lia Reals Lra.
From Sketchnu Require Import Machine KernelsCountmin LogLaw.
(* ---------------- countmin.py (float64 read as reals) ---------------- *)
Open Scope R_scope.

Lemma powerRZ_nat b z : (0 <= z)%Z -> powerRZ b z = b ^ Z.to_nat z.
Proof. intros Hz. rewrite <- (Z2Nat.id z) at 1 by assumption. symmetry. apply pow_powerRZ. Qed.

Lemma tie_func b mc nr um : (nr <= um)%Z ->
  gen_func b mc nr um = func (IZR mc - IZR nr) (Z.to_nat (um - nr)) b.
Proof.
  intros H. unfold gen_func, func. cbv zeta. rewrite powerRZ_nat by lia. reflexivity.
Qed.

Lemma tie_funcprime b mc nr um : (nr < um)%Z ->
  gen_funcprime b mc nr um = funcprime (IZR mc - IZR nr) (Z.to_nat (um - nr)) b.
Proof.
  intros H. unfold gen_funcprime, funcprime. cbv zeta. rewrite powerRZ_nat by lia.
  replace (Z.to_nat (um - nr - 1)) with (pred (Z.to_nat (um - nr))) by lia.
  rewrite INR_IZR_INZ. rewrite Z2Nat.id by lia. reflexivity.
Qed.

(* the repaired derivative, stated on the function regenerated from the source *)
Theorem gen_funcprime_is_derivative b mc nr um : (nr < um)%Z ->
  derivable_pt_lim (fun x => gen_func x mc nr um) b (gen_funcprime b mc nr um).
Proof.
  intros H. rewrite tie_funcprime by assumption.
  pose proof (funcprime_is_derivative (IZR mc - IZR nr) (Z.to_nat (um - nr)) b) as D.
  unfold derivable_pt_lim in *. intros eps Heps. destruct (D eps Heps) as [delta Hd].
  exists delta. intros h Hh Hlt. rewrite !tie_func by lia. apply Hd; assumption.
Qed.

Lemma tie_counter2value c nr b : b <> 1 -> gen_counter2value c nr b = val b nr c.
Proof.
  intros Hb. unfold gen_counter2value, val.
  destruct (c <=? nr)%Z eqn:E1; destruct (c <? nr)%Z eqn:E2; try reflexivity; try lia.
  - assert (c = nr) by lia. subst c. rewrite Z.sub_diag. simpl. unfold Rdiv. rewrite Rminus_diag_eq by reflexivity. lra.
  - cbv zeta. rewrite powerRZ_nat by lia. lra.
Qed.

