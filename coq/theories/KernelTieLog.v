(* KernelTieLog.v (shared lemmas; the ties themselves are in KernelTieLogRand / KernelTieLogCounter / KernelTieLogQuery /
   KernelTieLogAdd / KernelTieLogMerge, one file per kernel group, so that an edit of one kernel breaks only the
   obligations of the properties that rest on that kernel) - the log-counter kernel regions regenerated from the
   source AST on every run (generated/KernelsLog.v, harness/pytrans_log.py) are the corresponding pieces of the
   hand-written model CmsLog.v.  Array cells, the drawn random number, libm's pow / log and _counter2value are
   arguments of the generated functions; the loop headers, the row hash and the composition of the regions of one
   kernel (the *_assembled definitions) are hand-transcribed.  The proofs are semantic (case analysis + lia over the
   wraps), so an edit of the source that changes a generated definition breaks a lemma here unless the edited code
   provably computes the same function on the stated ranges. *)
From Coq Require Import ZArith List Lia Bool ZifyBool.
From Coq Require Import Floats.PrimFloat.
From Sketchnu Require Import Machine BitLemmas KernelsLog CmsLog.
Open Scope Z_scope.

Lemma wrap16_small x : 0 <= x < 2^16 -> wrap16 x = x.
Proof. intros. rewrite wrap16_mod. apply Z.mod_small. assumption. Qed.
Lemma wrap8_small x : 0 <= x < 2^8 -> wrap8 x = x.
Proof. intros. rewrite wrap8_mod. apply Z.mod_small. assumption. Qed.
Lemma wrap16_range x : 0 <= wrap16 x < 2^16.
Proof. rewrite wrap16_mod. apply Z.mod_pos_bound. lia. Qed.
Lemma wrap8_range x : 0 <= wrap8 x < 2^8.
Proof. rewrite wrap8_mod. apply Z.mod_pos_bound. lia. Qed.
Lemma wrap16_idem x : wrap16 (wrap16 x) = wrap16 x.
Proof. unfold wrap16. rewrite <- Z.land_assoc. f_equal. Qed.
Lemma wrap8_idem x : wrap8 (wrap8 x) = wrap8 x.
Proof. unfold wrap8. rewrite <- Z.land_assoc. f_equal. Qed.
Lemma wrap16_wrap64 x : wrap16 (wrap64 x) = wrap16 x.
Proof. unfold wrap16, wrap64. rewrite <- Z.land_assoc. f_equal. Qed.
Lemma wrap8_wrap64 x : wrap8 (wrap64 x) = wrap8 x.
Proof. unfold wrap8, wrap64. rewrite <- Z.land_assoc. f_equal. Qed.

(* the translator's fixed conversion rules are the model's conversions *)
Lemma tie_conversions :
  (forall z, gen_z2f z = z2f z) /\ (forall z, gen_u64f z = u64_to_float z) /\ (forall x, gen_f2z x = f2z_trunc x).
Proof. repeat split; reflexivity. Qed.

Lemma gen_u64f_small z : z < 2^63 -> gen_u64f z = z2f z.
Proof.
  intros H. unfold gen_u64f. change 9223372036854775808 with (2^63).
  destruct (z <? 2^63) eqn:E; [reflexivity|lia].
Qed.

Ltac split_ifs :=
  repeat match goal with
         | |- context [if ?c then _ else _] => destruct c eqn:?
         end.

(* remove every wrap whose argument is provably in range (innermost first: an outer one is retried once the inner is gone) *)
Ltac unwrap :=
  repeat match goal with
         | |- context [wrap64 ?x] => rewrite (wrap64_small x) by lia
         | |- context [wrap16 ?x] => rewrite (wrap16_small x) by lia
         | |- context [wrap8 ?x] => rewrite (wrap8_small x) by lia
         end.

(* case analysis on every test of both sides; the surviving cases agree, the others have contradictory tests *)
Ltac tie_ifs := split_ifs; try reflexivity; try (exfalso; lia); try lia; repeat f_equal; lia.
