(* Merging.v — model of the parallel glue of /repo/sketchnu/helpers.py:
     parallel_merging (l.467-539) with _merge_worker (l.431-464),
     the worker loop of _worker (l.173-231) with its exception handler,
     the monitor loop and the tail of parallel_add (l.355-428).
   Definitions only; the lemmas are in MergingProofs.v.

   Not exhibited here (assumptions of C08/C19, DESIGN.md section 4): that a
   multiprocessing.Queue hands every item to exactly one worker and one pill to each
   (the schedule is a quantified input below), process spawn, attachment of shared
   memory across processes, that Queue.put on a closed queue raises (it is the
   definition of log_put below), that kill()/join() return. *)
From Coq Require Import ZArith List Bool Permutation.
From Sketchnu Require Import Machine Consts Hashes Ngram Hll CmsLinear CmsLinearHarness Harness.
Import ListNotations.
Open Scope Z_scope.

(* ====================================================================== *)
(* 1. parallel_merging: rounds of pairwise merges over an array of sketches *)
(* ====================================================================== *)
Section PM.
Variable Sk : Type.
(* merge a b = the contents of block a after _merge_worker ran a.merge(b) (l.454-457);
   block b is not written *)
Variable merge : Sk -> Sk -> Sk.

Fixpoint set_nth (i : nat) (x : Sk) (l : list Sk) : list Sk :=
  match l, i with
  | [], _ => []
  | _ :: r, O => x :: r
  | a :: r, S j => a :: set_nth j x r
  end.

(* l.510-514 for one i: sketch_array[2i] becomes sketch_array[2i].merge(sketch_array[2i+1]),
   in place (the merger process attaches both blocks by name) *)
Definition merge_at (arr : list Sk) (i : nat) : list Sk :=
  match nth_error arr (2 * i), nth_error arr (2 * i + 1) with
  | Some a, Some b => set_nth (2 * i) (merge a b) arr
  | _, _ => arr
  end.

(* l.509-520: for i in range(n_to_merge // 2); the pairs are disjoint, the joins of l.517-520
   wait for all of them.  Not modelled: the exit-code test of l.519 (a merger that dies with a
   negative code raises RuntimeError; one that raises is not noticed): no property covers faults
   of the merger processes (DESIGN.md section 5, observations) *)
Definition merge_phase (arr : list Sk) (n_to_merge : nat) : list Sk :=
  fold_left merge_at (seq 0 (n_to_merge / 2)) arr.

(* l.522-530: new_sketch_array = [sketch_array[i] for i in range(0, n_to_merge, 2)]
   (an odd last sketch is carried over) *)
Definition select_phase (arr : list Sk) (n_to_merge : nat) : list Sk :=
  flat_map (fun i => match nth_error arr i with Some a => [a] | None => [] end)
           (map (fun j => (2 * j)%nat) (seq 0 ((n_to_merge + 1) / 2))).

(* one trip through the while body, l.509-531 *)
Definition pm_round (arr : list Sk) : list Sk :=
  let n_to_merge := length arr in
  select_phase (merge_phase arr n_to_merge) n_to_merge.

(* the same round by structural recursion (shown equal to pm_round in MergingProofs.v) *)
Fixpoint pm_round_s (l : list Sk) : list Sk :=
  match l with
  | a :: b :: rest => merge a b :: pm_round_s rest
  | _ => l
  end.

(* l.507-539: while n_to_merge > 1: round; return sketch_array[0].
   Structural fuel; None = fuel exhausted (never, pm_total) or sketch_array[0] of an
   empty list (IndexError at l.488) *)
Fixpoint pm_loop (fuel : nat) (arr : list Sk) : option Sk :=
  match fuel with
  | O => None
  | S f => if (1 <? length arr)%nat then pm_loop f (pm_round arr)   (* l.508 *)
           else nth_error arr 0                                     (* l.539 *)
  end.
Definition pm (l : list Sk) : option Sk := pm_loop (length l) l.

(* number of rounds, and of merger processes started in a round (l.510) *)
Fixpoint pm_rounds_loop (fuel : nat) (n : nat) : nat :=
  match fuel with
  | O => O
  | S f => if (1 <? n)%nat then S (pm_rounds_loop f ((n + 1) / 2)) else O
  end.
Definition pm_rounds (n : nat) : nat := pm_rounds_loop n n.
Definition mergers_in_round (n_to_merge : nat) : nat := (n_to_merge / 2)%nat.

(* binary merge trees *)
Inductive tree := Leaf (s : Sk) | Node (a b : tree).
Fixpoint leaves (t : tree) : list Sk :=
  match t with Leaf s => [s] | Node a b => leaves a ++ leaves b end.
Fixpoint eval_tree (t : tree) : Sk :=
  match t with Leaf s => s | Node a b => merge (eval_tree a) (eval_tree b) end.
End PM.
Arguments Leaf {Sk}.
Arguments Node {Sk}.
Arguments leaves {Sk}.
Arguments set_nth {Sk}.

(* ====================================================================== *)
(* 2. the worker loop (_worker l.173-231)                                   *)
(* ====================================================================== *)
Section Worker.
Variable St : Type.             (* the tuple of local sketches (shared-memory blocks) *)
Variable Ops : Type.            (* what one call of process_q_item does to them *)
Variable apply : St -> Ops -> St.
Variable add_records : St -> Z -> St.   (* l.213-218 *)

(* per queue item: the callback returned n after applying ops / raised before touching the
   sketches / raised after applying ops *)
Inductive outcome := Ok (ops : Ops) (n : Z) | RaiseBefore | RaiseAfter (ops : Ops).
Inductive qitem := Item (o : outcome) | Pill.

(* l.187-197: state of the sketches after the call, and n_recs (0 in the handler) *)
Definition handle (st : St) (o : outcome) : St * Z :=
  match o with
  | Ok ops n => (apply st ops, n)            (* l.188 *)
  | RaiseBefore => (st, 0)                   (* l.189-190 *)
  | RaiseAfter ops => (apply st ops, 0)      (* l.189-190: what was written stays written *)
  end.

(* l.183-231: structural recursion on the queue contents.  Result: the sketches at return
   and the part of the queue not consumed.  None = in_queue.get() blocks on an empty queue. *)
Fixpoint worker_loop (q : list qitem) (st : St) (n_records : Z) : option (St * list qitem) :=
  match q with
  | [] => None
  | Pill :: rest => Some (add_records st n_records, rest)            (* l.211-231 *)
  | Item o :: rest =>
      let '(st', n_recs) := handle st o in
      worker_loop rest st' (n_records + n_recs)                      (* l.198 *)
  end.
Definition worker (q : list qitem) (st0 : St) : option (St * list qitem) :=
  worker_loop q st0 0.                                               (* l.174 *)

(* what an item contributes / how many records it counts for *)
Definition effect (o : outcome) : list Ops :=
  match o with Ok ops _ => [ops] | RaiseBefore => [] | RaiseAfter ops => [ops] end.
Definition recs (o : outcome) : Z := match o with Ok _ n => n | _ => 0 end.
Definition is_ok (o : outcome) : bool := match o with Ok _ _ => true | _ => false end.
Definition zsum (l : list Z) : Z := fold_right Z.add 0 l.

(* a schedule: for every worker the item indices it receives, in the order it receives them *)
Definition sched_items (outs : list outcome) (order : list nat) : list outcome :=
  map (fun i => nth i outs RaiseBefore) order.
Definition worker_queue (outs : list outcome) (order : list nat) : list qitem :=
  map Item (sched_items outs order) ++ [Pill].
Definition worker_final (outs : list outcome) (order : list nat) (st0 : St) : St :=
  add_records (fold_left apply (flat_map effect (sched_items outs order)) st0)
              (zsum (map recs (sched_items outs order))).

(* parallel_add without faults of the processes themselves: every worker starts from a fresh
   sketch (l.331-344), runs its queue, then the worker sketches are merged (l.385-408) *)
Variable merge : St -> St -> St.
Definition pa_model (outs : list outcome) (sched : list (list nat)) (st0 : St) : option St :=
  pm St merge (map (fun order => worker_final outs order st0) sched).
End Worker.
Arguments Ok {Ops}.
Arguments RaiseBefore {Ops}.
Arguments RaiseAfter {Ops}.
Arguments Item {Ops}.
Arguments Pill {Ops}.

(* every item index 0..n_items-1 goes to exactly one worker, exactly once; >= 1 worker *)
Definition valid_sched (n_items : nat) (sched : list (list nat)) : Prop :=
  sched <> [] /\ Permutation (concat sched) (seq 0 n_items).

(* the schedule of an assignment item -> worker with every worker taking its items in
   stream order (what one expects of an idle queue) *)
Definition sched_of_assign (n_workers : nat) (assign : list nat) : list (list nat) :=
  map (fun w => filter (fun i => (nth i assign O =? w)%nat) (seq 0 (length assign))) (seq 0 n_workers).

(* ====================================================================== *)
(* 3. instances                                                             *)
(* ====================================================================== *)
(* HyperLogLog: an item's ops = the keys the callback adds (by C02_desugar every entry
   point is a sequence of single adds); add_records: HyperLogLog has no n_added_records,
   the AttributeError is swallowed at l.217-218; merge() of equal (p, seed) never raises *)
Definition hll_apply (s : hll) (ks : list key) : hll := cls_update s ks.
Definition hll_add_records (s : hll) (n : Z) : hll := s.
Definition hll_merge_cls (a b : hll) : hll :=
  match cls_merge a b with Some s => s | None => a end.
Definition hll_pa (p seed : Z) (outs : list (outcome (list key))) (sched : list (list nat)) : option hll :=
  pa_model hll (list key) hll_apply hll_add_records hll_merge_cls outs sched (hll_new p seed).
(* the sequential sketch: one HyperLogLog fed all the keys in stream order *)
Definition hll_seq_hist (items : list (list key)) : hll_hist := fold_left hl_adds items HlNew.
Definition hll_worker_hist (items : list (list key)) (order : list nat) : hll_hist :=
  fold_left (fun h i => hl_adds h (nth i items [])) order HlNew.

(* linear count-min: an item's ops = the (key, multiplicity) adds of the callback (by
   C01_api_is_core every entry point is a sequence of adds) *)
Definition two64m : Z := Eval compute in 2^64.
(* l.216  n_added_records[1] += np.uint64(n_records): np.uint64 of a Python int outside
   [0, 2^64) raises OverflowError, swallowed by the bare except of l.217 *)
Definition with_records (s : sk) (n : Z) : sk :=
  {| cms := cms s; n_added := n_added s; n_records := n_records s + n |}.
Definition cms_add_records (s : sk) (n : Z) : sk :=
  if (0 <=? n) && (n <? two64m) then with_records s n else s.
Definition cms_item := list (key * Z).
Definition cadds (h : hist) (it : cms_item) : hist :=
  fold_left (fun h kv => HAdd h (fst kv) (snd kv)) it h.
Definition cms_seq_hist (items : list cms_item) : hist := fold_left cadds items HEmpty.
Definition cms_worker_hist (items : list cms_item) (order : list nat) : hist :=
  fold_left (fun h i => cadds h (nth i items [])) order HEmpty.
Definition item_wf (it : cms_item) : Prop := Forall (fun kv => 0 <= snd kv) it.
Definition item_total (it : cms_item) : Z := zsum (map snd it).

Section CmsPA.
Variable width depth : nat.
Variable bucket : nat -> key -> nat.
Definition cms_apply (s : sk) (it : cms_item) : sk := update_dict depth bucket s it.
Definition cms_pa (outs : list (outcome cms_item)) (sched : list (list nat)) : option sk :=
  pa_model sk cms_item cms_apply cms_add_records CmsLinear.merge outs sched empty.
(* no add of the history was cut short by the ceiling (as in C05) *)
Fixpoint uncut (h : hist) : Prop :=
  match h with
  | HEmpty => True
  | HAdd h k v => uncut h /\ 0 <= v /\ query depth bucket (eval width depth bucket h) k + v <= cap
  | HMerge a b => uncut a /\ uncut b
  | HSaveLoad h => uncut h
  end.
End CmsPA.

(* what an item did when it succeeded ([] otherwise) / what it did in any case *)
Definition ok1 {X} (o : outcome (list X)) : list X :=
  match o with Ok ops _ => ops | _ => [] end.
Definition eff1 {X} (o : outcome (list X)) : list X :=
  match o with Ok ops _ => ops | RaiseBefore => [] | RaiseAfter ops => ops end.
Definition ok_items {X} (outs : list (outcome (list X))) : list (list X) := map ok1 outs.
Definition eff_items {X} (outs : list (outcome (list X))) : list (list X) := map eff1 outs.
(* a fault-free run: every item (ops, return value of the callback) succeeds *)
Definition ok_outs {Ops} (items : list (Ops * Z)) : list (outcome Ops) :=
  map (fun it => Ok (fst it) (snd it)) items.

(* ====================================================================== *)
(* 4. monitor loop and tail of parallel_add (l.355-428)                     *)
(* ====================================================================== *)
Inductive event :=
| EvKillWorker (i : nat) | EvKillFill | EvKillLog | EvCloseQueue | EvCloseLogQueue
| EvJoinFill | EvJoinWorker (i : nat) | EvLogPut | EvMerge (kind : nat)
| EvLogPill | EvJoinLog.

Record pa_state := { queue_closed : bool; log_closed : bool; trace : list event }.
Definition pa_start : pa_state := {| queue_closed := false; log_closed := false; trace := [] |}.
Definition emit (evs : list event) (st : pa_state) : pa_state :=
  {| queue_closed := queue_closed st; log_closed := log_closed st; trace := trace st ++ evs |}.

(* an exit code as read from Process.exitcode: None = still running *)
Definition is_none (c : option Z) : bool := match c with None => true | Some _ => false end.
Definition is_bad (c : option Z) : bool := match c with None => false | Some z => negb (z =? 0) end.

Inductive decision := Wait | Abort | Done.
(* what one pass of the for loop l.360-376 decides *)
Definition monitor_decision (codes : list (option Z)) : decision :=
  if existsb is_bad codes then Abort
  else if existsb is_none codes then Wait else Done.

(* l.366-376: kill every worker, the fill process if it is still running, the log process;
   close both queues *)
Definition abort_seq (n_workers : nat) (fill_alive : bool) (st : pa_state) : pa_state :=
  {| queue_closed := true; log_closed := true;
     trace := trace st ++ map EvKillWorker (seq 0 n_workers)
                       ++ (if fill_alive then [EvKillFill] else [])
                       ++ [EvKillLog; EvCloseQueue; EvCloseLogQueue] |}.

(* l.359-376: one pass over the workers; result = (any_none, state) *)
Fixpoint monitor_scan (n_workers : nat) (fill_alive : bool) (codes : list (option Z))
         (any_none : bool) (st : pa_state) : bool * pa_state :=
  match codes with
  | [] => (any_none, st)
  | c :: rest =>
      if is_none c then monitor_scan n_workers fill_alive rest true st           (* l.362-363 *)
      else if is_bad c then
        monitor_scan n_workers fill_alive rest any_none (abort_seq n_workers fill_alive st)  (* l.365-376 *)
      else monitor_scan n_workers fill_alive rest any_none st
  end.

(* l.356-376: the exit codes read in successive passes (and whether the fill process was
   still running) are inputs; None = the observations ran out while some worker was running *)
Fixpoint monitor (n_workers : nat) (polls : list (list (option Z) * bool)) (st : pa_state)
  : option pa_state :=
  match polls with
  | [] => None
  | (codes, fill_alive) :: rest =>
      let '(any_none, st') := monitor_scan n_workers fill_alive codes false st in
      if any_none then monitor n_workers rest st' else Some st'
  end.

(* log_queue.put(..): multiprocessing.Queue.put raises ValueError on a closed queue *)
Definition log_put (ev : event) (st : pa_state) : option pa_state :=
  if log_closed st then None else Some (emit [ev] st).

(* l.385-408: for each requested sketch type, in the order cms, hh, hll: log, then merge *)
Fixpoint merges (kinds : list nat) (st : pa_state) : pa_state + pa_state :=
  match kinds with
  | [] => inr st
  | k :: ks => match log_put EvLogPut st with
               | None => inl st                                  (* raised *)
               | Some st1 => merges ks (emit [EvMerge k] st1)    (* parallel_merging *)
               end
  end.

Inductive pa_result := Raised (st : pa_state) | Returned (st : pa_state).

(* l.379-428 *)
Definition pa_tail (n_workers : nat) (kinds : list nat) (st : pa_state) : pa_result :=
  let st1 := emit (EvJoinFill :: map EvJoinWorker (seq 0 n_workers)) st in   (* l.379-383 *)
  match merges kinds st1 with
  | inl st2 => Raised st2
  | inr st2 => match log_put EvLogPill st2 with                  (* l.411 *)
               | None => Raised st2
               | Some st3 => Returned (emit [EvJoinLog] st3)     (* l.413-428 *)
               end
  end.

(* parallel_add from the monitor loop on; kinds <> [] by l.301-302; None = still monitoring *)
Definition pa_run (n_workers : nat) (kinds : list nat) (polls : list (list (option Z) * bool))
  : option pa_result :=
  match monitor n_workers polls pa_start with
  | None => None
  | Some st => Some (pa_tail n_workers kinds st)
  end.

Definition is_merge_ev (e : event) : bool := match e with EvMerge _ => true | _ => false end.
Definition event_eqb (a b : event) : bool :=
  match a, b with
  | EvKillWorker i, EvKillWorker j | EvJoinWorker i, EvJoinWorker j | EvMerge i, EvMerge j => (i =? j)%nat
  | EvKillFill, EvKillFill | EvKillLog, EvKillLog | EvCloseQueue, EvCloseQueue
  | EvCloseLogQueue, EvCloseLogQueue | EvJoinFill, EvJoinFill | EvLogPut, EvLogPut
  | EvLogPill, EvLogPill | EvJoinLog, EvJoinLog => true
  | _, _ => false
  end.

(* ====================================================================== *)
(* 5. helpers of the generated case files (merge-tree suite)               *)
(* ====================================================================== *)
Fixpoint tree_eqb (a b : tree Z) : bool :=
  match a, b with
  | Leaf x, Leaf y => x =? y
  | Node a1 a2, Node b1 b2 => tree_eqb a1 b1 && tree_eqb a2 b2
  | _, _ => false
  end.
Fixpoint zseq (start : Z) (n : nat) : list Z :=
  match n with O => [] | S n' => start :: zseq (start + 1) n' end.
(* the merge tree parallel_merging builds over n sketches labelled 0..n-1 *)
Definition pm_shape (n : Z) : option (tree Z) := pm (tree Z) Node (map Leaf (zseq 0 (Z.to_nat n))).
(* case: (n, tree observed on the real code, rounds observed, mergers per round observed) *)
Definition check_shape (c : Z * tree Z * Z * list Z) : bool :=
  let '(n, t, rounds, per_round) := c in
  match pm_shape n with
  | Some t' => tree_eqb t t' && (Z.of_nat (pm_rounds (Z.to_nat n)) =? rounds) &&
               zlist_eqb per_round
                 (map (fun r => Z.of_nat (mergers_in_round (Nat.iter r (fun m => ((m + 1) / 2)%nat) (Z.to_nat n))))
                      (seq 0 (pm_rounds (Z.to_nat n))))
  | None => false
  end.

Definition nat_sched (zs : list (list Z)) : list (list nat) := map (map Z.to_nat) zs.

(* count-min case: shape, observed bucket map, per-item outcomes, schedule, expected state of
   every worker sketch after its _worker returned, expected state of the merged result *)
Definition cms_case := (nat * nat * list (key * list nat) * list (outcome cms_item) * list (list Z)
                        * list expect * expect)%type.
Fixpoint forallb2 {A B} (f : A -> B -> bool) (a : list A) (b : list B) : bool :=
  match a, b with
  | [], [] => true
  | x :: a', y :: b' => f x y && forallb2 f a' b'
  | _, _ => false
  end.
Definition check_cms_case (c : cms_case) : bool :=
  let '(w, d, bm, outs, zs, ews, e) := c in
  let b := mk_bucket bm in
  let sched := nat_sched zs in
  forallb2 (fun order ew =>
              match worker sk cms_item (cms_apply d b) cms_add_records
                           (worker_queue cms_item outs order) empty with
              | Some (s, []) => check_state w d b s ew
              | _ => false
              end) sched ews &&
  match cms_pa d b outs sched with
  | Some s => check_state w d b s e
  | None => false
  end.

(* the same for a real spawned run: only the returned sketch is visible *)
Definition real_cms_case := (nat * nat * list (key * list nat) * list (outcome cms_item) * list (list Z) * expect)%type.
Definition check_real_cms_case (c : real_cms_case) : bool :=
  let '(w, d, bm, outs, zs, e) := c in
  let b := mk_bucket bm in
  match cms_pa d b outs (nat_sched zs) with
  | Some s => check_state w d b s e
  | None => false
  end.

(* HyperLogLog case: p, seed, outcomes, schedule, m, non-zero registers of the result, their number *)
Definition hll_case := (Z * Z * list (outcome (list key)) * list (list Z) * Z * list (Z * Z) * Z)%type.
Definition check_hll_case (c : hll_case) : bool :=
  let '(p, seed, outs, zs, m, expect, nnz) := c in
  match hll_pa p seed outs (nat_sched zs) with
  | Some s => (hll_m s =? m) && hll_check_regs (hll_registers s) m expect nnz
  | None => false
  end.

(* monitor case: n_workers, kinds, polls, expected: raised?, both queues closed?, number of merges started *)
Definition mon_case := (Z * list Z * list (list (option Z) * bool) * (bool * bool * Z))%type.
Definition check_mon_case (c : mon_case) : bool :=
  let '(n, kinds, polls, (raised, closed, nmerge)) := c in
  match pa_run (Z.to_nat n) (map Z.to_nat kinds) polls with
  | Some (Raised st) => raised && Bool.eqb (queue_closed st && log_closed st) closed &&
                        (Z.of_nat (length (filter is_merge_ev (trace st))) =? nmerge)
  | Some (Returned st) => negb raised && Bool.eqb (queue_closed st && log_closed st) closed &&
                          (Z.of_nat (length (filter is_merge_ev (trace st))) =? nmerge)
  | None => false
  end.
