(* KernelTie.v — the definitions regenerated from the source AST (generated/Kernels.v) equal the
   hand-written models the theorems are about.  An edit of one of these functions in the source
   changes the generated definition and breaks the corresponding lemma here. *)
From Coq Require Import ZArith List Lia Bool Reals Lra.
From Sketchnu Require Import Machine BitLemmas Consts Kernels Hashes HashSpec HashProofs Hll LogLaw.
Open Scope Z_scope.

(* ---------------- hashes.py ---------------- *)
Lemma tie_xor_shiftl v t l : gen_xor_shiftl v t l = xor_shiftl v t l.
Proof. reflexivity. Qed.

Lemma tie_fhmix64 h : 0 <= h < 2^64 -> gen_fhmix64 h = fhmix64 h.
Proof.
  intros Hh. unfold gen_fhmix64, fhmix64.
  destruct consts_fasthash as (_ & Hc & Hs1 & Hs2 & _). rewrite Hc, Hs1, Hs2.
  change (wrap64 2388976653695081527) with 2388976653695081527.
  cbv zeta. apply wrap64_small.
  set (a := Z.lxor h (Z.shiftr h 23)).
  pose proof (wrap64_range (a * 2388976653695081527)) as Hw. set (w := wrap64 _) in *.
  apply lxor_range; [lia|exact Hw|].
  rewrite shiftr_div by lia. split; [apply Z.div_pos; lia|]. apply Z.div_lt_upper_bound; lia.
Qed.

Lemma tie_xor32 x y : gen_xor32 x y = xor32 x y.
Proof. reflexivity. Qed.
Lemma tie_shift32r x y : gen_shift32r x y = shift32r x y.
Proof. reflexivity. Qed.
Lemma tie_shift32l x y : gen_shift32l x y = shift32l x y.
Proof. unfold gen_shift32l, shift32l. cbv zeta. apply wrap32_wrap64. Qed.

Lemma tie_rotl32 x r : gen_rotl32 x r = rotl32 x r.
Proof.
  unfold gen_rotl32, rotl32. cbv zeta. rewrite tie_shift32l, tie_shift32r.
  destruct consts_murmur as (_ & _ & _ & _ & _ & _ & Hw & _). rewrite Hw.
  f_equal. f_equal. unfold shift32r. rewrite wrap32_wrap64. reflexivity.
Qed.

Lemma tie_fmix32 h : gen_fmix32 h = fmix32 h.
Proof.
  unfold gen_fmix32, fmix32. cbv zeta.
  destruct consts_murmur as (_ & _ & _ & _ & _ & _ & _ & H1 & H2 & H3 & Hc1 & Hc2).
  rewrite H1, H2, H3, Hc1, Hc2.
  change (wrap32 2246822507) with 2246822507. change (wrap32 3266489909) with 3266489909.
  rewrite !tie_xor32, !tie_shift32r. reflexivity.
Qed.

(* ---------------- hyperloglog.py ---------------- *)
Lemma tie_nlz64 x : gen_n_leading_zeros64 x = nlz64 x.
Proof. reflexivity. Qed.

(* ---------------- countmin.py (float64 read as reals) ---------------- *)
Open Scope R_scope.

Lemma powerRZ_nat b z : (0 <= z)%Z -> powerRZ b z = b ^ Z.to_nat z.
Proof. intros Hz. rewrite <- (Z2Nat.id z) at 1 by assumption. symmetry. apply pow_powerRZ. Qed.

Lemma tie_func b mc nr um : (nr <= um)%Z ->
  gen_func b mc nr um = func (IZR mc - IZR nr) (Z.to_nat (um - nr)) b.
Proof.
  intros H. unfold gen_func, func. cbv zeta. rewrite powerRZ_nat by lia. reflexivity.
Qed.

Lemma tie_funcprime b mc nr um : (nr < um)%Z ->
  gen_funcprime b mc nr um = funcprime (IZR mc - IZR nr) (Z.to_nat (um - nr)) b.
Proof.
  intros H. unfold gen_funcprime, funcprime. cbv zeta. rewrite powerRZ_nat by lia.
  replace (Z.to_nat (um - nr - 1)) with (pred (Z.to_nat (um - nr))) by lia.
  rewrite INR_IZR_INZ. rewrite Z2Nat.id by lia. reflexivity.
Qed.

(* the repaired derivative, stated on the function regenerated from the source *)
Theorem gen_funcprime_is_derivative b mc nr um : (nr < um)%Z ->
  derivable_pt_lim (fun x => gen_func x mc nr um) b (gen_funcprime b mc nr um).
Proof.
  intros H. rewrite tie_funcprime by assumption.
  pose proof (funcprime_is_derivative (IZR mc - IZR nr) (Z.to_nat (um - nr)) b) as D.
  unfold derivable_pt_lim in *. intros eps Heps. destruct (D eps Heps) as [delta Hd].
  exists delta. intros h Hh Hlt. rewrite !tie_func by lia. apply Hd; assumption.
Qed.

Lemma tie_counter2value c nr b : b <> 1 -> gen_counter2value c nr b = val b nr c.
Proof.
  intros Hb. unfold gen_counter2value, val.
  destruct (c <=? nr)%Z eqn:E1; destruct (c <? nr)%Z eqn:E2; try reflexivity; try lia.
  - assert (c = nr) by lia. subst c. rewrite Z.sub_diag. simpl. unfold Rdiv. rewrite Rminus_diag_eq by reflexivity. lra.
  - cbv zeta. rewrite powerRZ_nat by lia. lra.
Qed.

Close Scope R_scope.
Open Scope Z_scope.
Lemma tie_hashes :
  (forall v t l, gen_xor_shiftl v t l = xor_shiftl v t l) /\
  (forall h, 0 <= h < 2^64 -> gen_fhmix64 h = fhmix64 h) /\
  (forall x y, gen_xor32 x y = xor32 x y) /\ (forall x y, gen_shift32r x y = shift32r x y) /\
  (forall x y, gen_shift32l x y = shift32l x y) /\ (forall x r, gen_rotl32 x r = rotl32 x r) /\
  (forall h, gen_fmix32 h = fmix32 h).
Proof.
  exact (conj tie_xor_shiftl (conj tie_fhmix64 (conj tie_xor32 (conj tie_shift32r (conj tie_shift32l (conj tie_rotl32 tie_fmix32)))))).
Qed.
