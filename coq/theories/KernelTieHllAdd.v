(* KernelTieHllAdd.v — hyperloglog.py _add (everything after the hash call) and the loop body of _merge as
   regenerated from the source AST on every run (generated/KernelsHllAdd.v, harness/pytrans_cms.py) are the
   modelled functions.  The generated definition of _add follows the uniform 64-bit register rule; Hll.v writes out
   Numba's mixed int64 / uint64 typing (hll_idx, hll_rank): the two agree on the constructor's precision range
   and 64-bit hash values. *)
From Coq Require Import ZArith List Lia Bool ZifyBool.
From Sketchnu Require Import Machine BitLemmas Consts Hashes HashProofs KernelsHll KernelsHllAdd KernelTieHll Hll HllProofs.
Open Scope Z_scope.

(* (hash_val, p, m = 2^p, old register) -> (register index, new register) *)
Lemma tie_hll_add_cell hv p old : hll_p_min <= p <= hll_p_max -> 0 <= hv < 2^64 ->
  gen_hll_add hv p (2^p) old = (hll_idx (2^p) hv, wrap8 (Z.max old (hll_rank p hv))).
Proof.
  unfold hll_p_min, hll_p_max. intros Hp Hv. unfold gen_hll_add. cbv zeta.
  try rewrite (Z.max_comm _ old).      (* max(rank, registers[i]) written the other way round is the same function *)
  rewrite tie_nlz64. pose proof (pow2_bounds p ltac:(lia)) as [H1 H2].
  f_equal.
  - rewrite hll_idx_spec by lia. unfold spec_idx.
    rewrite (wrap64_small (2^p - 1)) by (change (2^64) with (2 * 2^63); lia).
    rewrite (wrap64_small (2^p - 1)) by (change (2^64) with (2 * 2^63); lia).
    replace (2^p - 1) with (Z.ones p) by (rewrite Z.ones_equiv; lia).
    apply Z.land_ones. lia.
  - f_equal. f_equal. rewrite hll_rank_spec by lia. unfold spec_rank.
    rewrite Z.shiftr_div_pow2 by lia.
    pose proof (bits_range p hv ltac:(lia) Hv) as Hb. set (bits := hv / 2^p) in *.
    assert (2^(64 - p) <= 2^64) by (apply Z.pow_le_mono_r; lia).
    rewrite nlz64_bitlen by lia.
    pose proof (bitlen_nonneg bits ltac:(lia)). pose proof (bitlen_le bits (64 - p) ltac:(lia) Hb).
    rewrite (wrap64_small (64 - bitlen bits - p)) by lia. rewrite wrap64_small by lia.
    unfold bitlen. destruct (bits =? 0); lia.
Qed.

(* _add as a whole: the register file after the call, with the generated function applied to the hash of the key
   and to the register it selects *)
Lemma tie_hll_add (registers : regs) seed p (k : key) i : hll_p_min <= p <= hll_p_max -> 0 <= seed < 2^64 ->
  hll_add registers seed p (2^p) k i =
  let hv := fasthash64 k seed in
  let idx := fst (gen_hll_add hv p (2^p) 0) in
  if i =? idx then snd (gen_hll_add hv p (2^p) (registers idx)) else registers i.
Proof.
  intros Hp Hs. pose proof (fasthash64_range k seed Hs) as Hh. cbv zeta.
  rewrite !tie_hll_add_cell by assumption. cbn [fst snd]. reflexivity.
Qed.

Lemma tie_hll_merge_cell x y : gen_hll_merge_cell x y = wrap8 (Z.max x y).
Proof. unfold gen_hll_merge_cell. cbv zeta. try rewrite (Z.max_comm y x). reflexivity. Qed.

Lemma tie_hll_merge (a b : regs) m i :
  hll_merge a b m i = if (0 <=? i) && (i <? m) then gen_hll_merge_cell (a i) (b i) else a i.
Proof. rewrite tie_hll_merge_cell. reflexivity. Qed.

Lemma tie_hll_add_all :
  (forall hv p old, hll_p_min <= p <= hll_p_max -> 0 <= hv < 2^64 ->
     gen_hll_add hv p (2^p) old = (hll_idx (2^p) hv, wrap8 (Z.max old (hll_rank p hv)))) /\
  (forall (registers : regs) seed p (k : key) i, hll_p_min <= p <= hll_p_max -> 0 <= seed < 2^64 ->
     hll_add registers seed p (2^p) k i =
     let hv := fasthash64 k seed in
     let idx := fst (gen_hll_add hv p (2^p) 0) in
     if i =? idx then snd (gen_hll_add hv p (2^p) (registers idx)) else registers i).
Proof. exact (conj tie_hll_add_cell tie_hll_add). Qed.

Lemma tie_hll_merge_all :
  (forall x y, gen_hll_merge_cell x y = wrap8 (Z.max x y)) /\
  (forall (a b : regs) m i,
     hll_merge a b m i = if (0 <=? i) && (i <? m) then gen_hll_merge_cell (a i) (b i) else a i).
Proof. exact (conj tie_hll_merge_cell tie_hll_merge). Qed.
